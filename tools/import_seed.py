#!/usr/bin/env python3
"""import_seed.py <prop> <n> <src change dir> : copies a confirmed seeded change into /verif/seeded/<prop>-<n>/"""
import sys, os, shutil, json, re
prop, n, src = sys.argv[1], sys.argv[2], sys.argv[3]
dst = "/verif/seeded/%s-%s" % (prop, n)
os.makedirs(dst, exist_ok=True)
for f in ("patch.diff", "demo.diff", "README.md"):
    shutil.copyfile(os.path.join(src, f), os.path.join(dst, f))
log = open(os.path.join(src, "verify.log")).read() if os.path.exists(os.path.join(src, "verify.log")) else ""
verdict = "CONFIRMED" if "CONFIRMED" in log and "NOT-CONFIRMED" not in log else "unconfirmed"
readme = open(os.path.join(src, "README.md")).read()
files = sorted(set(re.findall(r"^\+\+\+ b/(\S+)", open(os.path.join(src, "patch.diff")).read(), re.M)))
meta = dict(property=prop, seed="%s-%s" % (prop, n), files_changed=files,
            origin="independent sub-agent given only the property text and a scratch worktree",
            confirmed_by="/verif/tools/verify_seed.sh: (a) demo only -> crate suite passes, (b) patch+demo -> only the demo fails, (c) patch only -> crate suite passes",
            confirmation=verdict,
            needs_to_manifest=readme[:1500])
json.dump(meta, open(os.path.join(dst, "meta.json"), "w"), indent=1)
print(dst, verdict, files)
