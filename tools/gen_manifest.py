#!/usr/bin/env python3
"""Regenerates /verif/MANIFEST.json from the obligation table (lib/harnesses.py, lib/e2spec.py)."""
import json, os, sys
VERIF = os.path.dirname(os.path.dirname(os.path.abspath(__file__)))
sys.path.insert(0, os.path.join(VERIF, "lib"))
import spec, harnesses  # noqa
try:
    import e2spec
    E2 = e2spec.QUERIES
except Exception:
    E2 = []

CLAIMS = {
 "C01": ("Kernel obligations behind exactly-once, in-order delivery: the replay window (one-step induction over every state), packet-number truncation/expansion over the whole RFC window, SendBuffer::poll_transmit range/size arithmetic (both branches, full width, via MIR->SMT), final-size discipline of Recv::ingest, one iteration of the Assembler::defragment trimming loop (frontier monotone, nothing kept below it, bytes keep their stream position), the switch to unordered reads remembering the consumed prefix, and Chunks::next reporting end of stream only when every byte up to the final size was read. Each holds for ALL inputs within the stated bounds. StreamsState::retransmit never cancels a FIN that is still owed when a data frame is lost, and after a Retry every early stream - a FIN-only one included - is scheduled again in full (MIR).",
         "Partial: retransmission scheduling, loss detection, multi-chunk reassembly, unordered reads and everything needing a Connection are outside the claim (DESIGN §4 C01)."),
 "C03": ("Absence of panic / overflow / out-of-bounds in decoders and peer-driven arithmetic kernels for all inputs in the enumerated structure classes, plus the stated post-conditions (error class, state unchanged on error). RttEstimator::update cannot underflow a Duration for any peer-reported ack delay; PacketSpace::sent keeps the count of un-ackable packets consistent (bounded tracking, no underflow on the late ACK); the datagram receive queue is bounded in elements as well as bytes; header protection is only removed from packets long enough to hold the sample.",
         "Partial: state-dependent panics inside Connection/Endpoint, CidState, payloads longer than the stated lengths are outside the claim (DESIGN §4 C03)."),
 "C04": ("The replay filter accepts every packet number at most once in any history (one-step induction from an arbitrary window state); reset-token / constant-time comparison equals byte equality for all inputs; every authenticated packet (Retry / Version Negotiation included) is counted by Connection::on_packet_authenticated; the peer's transport parameters are accepted exactly when the connection IDs they echo match the ones seen on the wire (Connection::handle_peer_params, all CID bytes symbolic); which keys authenticate a packet (current / previous / next key phase, 0-RTT; packet_crypto::decrypt_packet_body), that keys rotate exactly on a packet authenticated under the next keys (Connection::decrypt_packet), and what one rotation does (Connection::update_keys). The middle of Connection::handle_packet (slice from an arbitrary state): a packet reaches process_decrypted_packet only after decrypt_packet ran, never when the datagram is flagged as a stateless reset, and a numbered packet only after the duplicate filter of its own space was asked about exactly its number and answered `new`; the server's first Initial is recorded in the filter as well. packet_crypto::decrypt_packet_body returns a connection-fatal error or an accepted packet number only after the AEAD accepted the packet; PartialDecode::decrypt_header applies the header key only to packets of at least pn_offset + 4 + sample_size bytes.",
         "Narrow: the order decrypt -> dedup -> process inside handle_packet, key-phase selection, Retry/VN acceptance and the first-Initial path are Connection code and NOT covered (DESIGN §4 C04, §5)."),
 "C05": ("Step cases of 'never exceed peer limits': write budget = min(limit, max_data - offset, source), connection write_limit, monotone MAX_DATA / MAX_STREAM_DATA / MAX_STREAMS under stale and reordered updates, for all 62-bit values. One iteration of the chunk loop of Send::write keeps `remaining budget + bytes accepted` constant, so vectored writes cannot overshoot the credit (slice).",
         "Partial: the wire-level sum over all streams, Streams::open (hash map) in E1, 0-RTT remembered limits are outside (DESIGN §4 C05)."),
 "C06": ("Receiver-side limit enforcement kernels: Recv::ingest/reset verdict table (FLOW_CONTROL_ERROR / FINAL_SIZE_ERROR iff ...), validate_receive_id (STREAM_LIMIT_ERROR / STREAM_STATE_ERROR iff ...), credit return arithmetic (add_read_credits, set_receive_window, max_stream_data) for all 62-bit values; StreamsState::received / received_reset hand Recv::{ingest,reset} the connection's data_recvd and OUR local_max_data and charge exactly the new bytes (MIR->SMT). DatagramState::received appends only while both the byte and the element bound hold and drops oldest-first only when needed (one iteration of each loop, arbitrary queue); Recv::stop credits nothing for a stream that was already reset; a refused read leaves the stream in the map (Chunks::new).",
         "Partial: CRYPTO buffer limit, TooManyChunks, connection-wide buffered-bytes bound need Connection / the stream map (DESIGN §4 C06)."),
 "C07": ("The anti-amplification predicate (not blocked implies validated or total_sent + bytes <= 3 * total_recvd, all counters below 2^62); its call sites in Connection::poll_transmit as slices from an arbitrary state (a new datagram is started only after the predicate, asked about segment_size * num_datagrams + 1 bytes, said no; an MTU probe is built for a validated path only); the first Initial credits exactly its datagram; datagrams from other addresses are not credited; stateless resets are smaller than what provoked them; an Initial in a datagram below 1200 bytes gets no response and no state. Connection::migrate challenges the old and the new address with independent tokens.",
         "Partial: the accounting of total_sent at the end of poll_transmit and the path-challenge / off-path response datagrams are not covered (DESIGN §4 C07)."),
 "C08": ("Idle-timeout negotiation (min of non-zero values, commutative) and the timer table (next_timeout is the minimum armed instant, expiry predicate, stop disarms only its timer) for all instants/values; Connection::close_inner (all timers stopped before the close timer is armed, a second close changes nothing), Connection::kill (state Drained, exactly one Drained event), the endpoint's reset-token bookkeeping on ResetToken events, and the idle timeout being negotiated against the received max_idle_timeout - decided on the MIR of the real Connection / Endpoint methods; the tail of handle_packet (a connection that becomes drained stops its close timer), one iteration of handle_timeout for every timer (no arm re-enables idle-timer resets), reset_idle_timeout / set_close_timer (what the timers are armed with), Endpoint::{accept,refuse,ignore} release the attempt's route and buffer. A close is announced even with a full congestion window (poll_transmit slice); a connection closed by its first packet gets its drain timer (handle_first_packet); a configured idle timeout of 0 ms means disabled from the start (Connection::new); Endpoint::handle_event(Drained / RetireConnectionId / NeedIdentifiers) acts on exactly the reporting connection and the reported CID.",
         "Narrow: lifecycle state transitions, exactly-once reporting, drain timing and endpoint forgetting are Connection/Endpoint code (DESIGN §4 C08)."),
 "C09": ("Remote CID bookkeeping: one step of CidQueue::{insert,next} from an arbitrary ring state preserves the invariant (active CID is one the peer issued and has not retired, retired ranges never include it, no unwrap fires); Connection::update_rem_cid queues exactly the retired range on the Data space and announces the new CID's reset token; Endpoint::handle_event(ResetToken) removes the stored pair and inserts the reported one for the same handle; one iteration of Endpoint::new_cid never re-points an existing route; Endpoint::accept / handle_first_packet install and remove Initial routes consistently. The per-connection CID table starts with sequence numbers 0.. and cids_issued to match (add_connection slice); ConnectionIndex::remove un-registers the reset token under the address it was registered with; a failed Endpoint::connect leaves no CID routed.",
         "Narrow: routing tables (hash maps), CidState, generators are outside (DESIGN §4 C09)."),
 "C10": ("Encode/decode round-trips and decoder totality for varints (all values), packet numbers (whole window), connection IDs (all lengths), frame-type/ECN/stream-id packing, transport parameters and per-frame codecs within stated payload bounds.",
         "Bounds: payloads <= 4-8 bytes, structure (frame type, CID lengths, buffer length) enumerated concretely; HashedConnectionIdGenerator outside (DESIGN §4 C10)."),
 "C11": ("Send-half and Recv-half operations compared against the QUIC stream state table from every abstract state (Ready / DataSent{acked?} / ResetSent x stopped?; Recv{size?} / ResetRecvd x stopped?). On the MIR of StreamsState: received_stop_sending queues Stopped exactly once per stopped stream with the peer's code; reset_acked frees the sending half exactly when it is in ResetSent; stream_freed / received_reset / Chunks::next as listed in DESIGN section 10. RecvStream::received_reset reports a closed stream for a stopped or vanished stream and hands out the reset code only together with the stream's removal. SendStream::reset is refused exactly for a stream that is gone or already in ResetSent; Chunks::new removes the stream's state only on the path that returns Ok.",
         "Partial: application events, stream-count release and Chunks need the stream hash maps (DESIGN §4 C11)."),
 "C12": ("Built-in controllers never report a window below two datagrams after any single event from any state satisfying the invariant; in-flight accounting insert/remove is an exact inverse; ACKs of skipped packet numbers are rejected; Connection::on_packet_acked removes exactly the acknowledged packet once; following a Retry discards the old Initial space before a new one is installed; poll_transmit starts an ack-eliciting non-probe datagram only below the congestion window (slices). One iteration of the loss scan in detect_lost_packets declares a packet lost exactly per RFC 9002 6.1 (sent >= loss_delay ago, or >= packet_threshold before the largest acknowledged) and records it exactly once.",
         "Partial: loss detection (detect_lost_packets' loops), discard paths other than Retry and pluggable controllers are outside (DESIGN §4 C12)."),
 "C13": ("MTU discovery as an inductive invariant: from EVERY state satisfying the representation invariant, one step of poll_transmit / on_acked / on_probe_lost / peer-limit reception / black-hole detection keeps probes within peer and configured limits, raises the estimate only on an acked probe of exactly that size, never drops it below min(min_mtu, peer limit), keeps at most one probe in flight and makes the search terminate; the peer's max_udp_payload_size reaches MTU discovery saturated to u16 (set_peer_params, migrate); DATAGRAM frames are written and admitted only within the current MTU (e2_dgram_write, e2_datagrams_max_size); a packet is padded to the segment size only within the datagram's own budget (loss probes stay at 1200 bytes); a detected black hole purges every queued datagram that no longer fits (slices of poll_transmit / detect_lost_packets). The CONNECTION_CLOSE encoders never exceed the room they are given (every error code, reason length, room) and poll_transmit gives them what is left AFTER the ACK frame (slice).",
         "Partial: PacketBuilder's own size arithmetic and GSO batching in poll_transmit are outside (DESIGN §4 C13)."),
 "C14": ("Token validation kernels: for a genuine token presented from a symbolic address at a symbolic time, 'validated' implies address (and port for Retry) equality, lifetime and (NEW_TOKEN) log acceptance, the reuse log being consulted with the token's own nonce / issue time; constant-time token comparison = equality; the client accepts the server's transport parameters only if initial_src_cid, original_dst_cid and retry_src_cid echo the connection IDs actually used (RFC 9000 7.3, all 20 CID bytes symbolic). The client-side TokenMemoryCache hands out a stored token only by removing it from its queue (State::take on the MIR). One filter of the server-side BloomTokenLog refuses a fingerprint exactly when it is present and carries every fingerprint over when the hash set is converted into a bloom filter (MIR dumped with the `bloom` feature). The BloomTokenLog period index is exact for lifetimes that are not whole seconds (half-second resolution below 256 s).",
         "Assumes AEAD authenticity (stub accepts exactly what it sealed); BloomTokenLog, TokenMemoryCache, Retry integrity tag, CID echo check are outside (DESIGN §4 C14)."),
 "C15": ("Five kernels of migration safety: Connection::migrate leaves the new path unvalidated with a pending challenge and the validation timer armed, and replaces the path to fall back to only by a path that was not itself awaiting validation (every connection state, MIR->SMT); a datagram from an address other than the established one is ignored (nothing credited, counted or processed) unless this is a server whose configuration permits migration - decided for every outcome of the address comparison and of remote_may_migrate; the migration trigger at the end of process_payload fires exactly for a non-probing packet from another address that has the highest packet number (slice from an arbitrary state); the PATH_RESPONSE arm validates the path exactly when the outstanding token comes back from the path's own address (slice); and a path created for a migrated peer starts unvalidated with zeroed amplification counters and nothing in flight, whatever the previous path's state. A sixth: when the PathValidation timer fires, the path the connection ends up on has no challenge left outstanding.",
         "Narrow: the PathValidation timeout handler restoring the previous path and PATH_CHALLENGE emission in populate_packet are Connection code with loops and are outside the claim."),
 "C16": ("DatagramState kernels with <= 1 queued datagram (oldest dropped first, window never exceeded, send-buffer accounting consistent) under Kani; and on the MIR of the real Connection methods: Datagrams::max_size = min(peer limit - 9, MTU - overhead - 9), Datagrams::send admits exactly what fits (Disabled / UnsupportedByPeer / TooLarge / Blocked verdict table), DatagramState::write emits a frame iff the frame as encoded fits. DatagramsUnblocked is queued exactly when a blocked sender's datagrams went into the packet, whichever loop iteration wrote them (populate_packet slice); Datagrams::max_size is also followed through release-build (wrapping) arithmetic.",
         "Partial: queues of two or more datagrams (VecDeque::retain / pop loops) exhaust CBMC; the call sites in populate_packet / loss handling and at-most-once under packet duplication (C01.a + handle_packet) are outside (DESIGN §4 C16, §9)."),
 "C17": ("Three kernels of the 0-RTT contract: after a Retry has discarded the 0-RTT packets, one iteration of StreamsState::retransmit_all_for_0rtt schedules the whole written prefix of the stream again, its FIN included - also for a stream that consists of a FIN only (slice from an arbitrary stream state with nothing acknowledged; found finding 12); when early data is REJECTED, StreamsState::zero_rtt_rejected followed by the server's fresh parameters leaves exactly the fresh connection / stream-count limits in force and no early byte accounted (every remembered and fresh value, every amount of early data); when it is ACCEPTED, TransportParameters::validate_resumption_from refuses fresh parameters that reduce any limit the client may already have relied on. A fourth: the handshake-completion branch rolls the streams back, drops queued early frames and takes every early packet out of the in-flight accounting exactly when the TLS session reports early data as rejected.",
         "Narrow: exactly-once delivery of early data, its disappearance on rejection, per-stream rejection reports and everything over the stream hash maps with streams open are outside the claim (hashbrown does not finish in CBMC; DESIGN §4 C17)."),
 "C19": ("Control-message encoder/decoder stay within their buffers and round-trip (level, type, value) for every option subset prepare_msg uses; ECN/stride decoding of symbolic control blocks; the receive control buffer (cmsg::LEN) holds every set of control messages Linux attaches for the options the socket enables (timestamp, GRO, packet info, TOS/traffic class; IPv4 and IPv6); the real prepare_msg conveys destination, ECN bits, segment size and requested source address for every Transmit; the GSO probe leaves no socket-wide segmentation behind (quinn-udp MIR). decode_socket_addr reproduces address, port, flow label and scope id of the kernel's sockaddr for every value.",
         "cmsg layer only: sockets, GSO/GRO and fallbacks are kernel behaviour behind FFI (DESIGN §4 C19)."),
}

NOT_APPLICABLE = {
 "C02": "Liveness under fairness over two endpoints, a lossy network and a driver: bounded model checking gives no liveness and Connection::{poll_transmit,handle_timeout} cannot be encoded (Connection::new alone exceeds 25 min of symbolic execution; hashbrown).",
 "C18": "A statement about task interleavings, wakers and tokio; Kani/CBMC do not model concurrency and the async layer cannot be encoded.",
 "C20": "A relation between whole runs of Connection/Endpoint (determinism, time-translation); the runs cannot be executed symbolically. TimerTable facts are checked under C08.",
}


def main():
    props = []
    for l in open(os.path.join(VERIF, "properties.jsonl")):
        props.append(json.loads(l)["id"])
    checks = []
    na = []
    for p in props:
        hs = [h for h in spec.HARNESSES if p in h.props]
        qs = [q for q in E2 if p in q["props"]]
        quick = [h for h in hs if h.tier == "quick"]
        if p in CLAIMS and (len(quick) + len([q for q in qs if q.get("tier", "quick") == "quick"])) >= 2:
            text, note = CLAIMS[p]
            checks.append({
                "property_id": p,
                "quick_cmd": "./check %s quick" % p,
                "thorough_cmd": "./check %s thorough" % p,
                "evidence_file": "/verif/evidence/%s.json" % p,
                "replay_cmd_template": "./check --replay {path}",
                "engine": "kani-cbmc" + ("+mir2smt-z3" if qs else ""),
                "level_claimed": {
                    "category": "model_checking",
                    "text": "Bounded model checking of the real compiled code (Kani 0.68 / CBMC 6.11, CaDiCaL): " + text + " %d obligations (%d quick)." % (len(hs) + len(qs), len(quick)),
                    "design_ref": "DESIGN.md §4 %s" % p,
                },
                "level_note": note + " Trusted base: rustc/Kani/CBMC/SAT solver, the no-op tracing shim, the representation invariants and preconditions written in /verif/hooks (listed per obligation in the evidence file).",
                "technique": "solver-based checking of the real code: Kani/CBMC symbolic execution of harness bodies compiled inside the crate, all inputs symbolic, unwinding assertions on, kani::cover vacuity witnesses, native replay of counterexamples" + ("; nightly MIR of the current tree -> path-wise SMT-LIB -> z3 (cvc5 cross-check in thorough): whole loop-free functions, single loop iterations, or source-located slices of large functions executed from an arbitrary state; every candidate replayed natively on real Connection / Endpoint objects" if qs else ""),
            })
        else:
            reason = NOT_APPLICABLE.get(p) or ("no solver obligation built yet for this property (planned kernels: %s)" % (CLAIMS.get(p, ("", ""))[0][:160]))
            na.append({"property_id": p, "reason": reason})
    m = {
        "version": 1,
        "setup_cmd": "./check --setup",
        "hooks": {
            "guard": "cargo feature `__verif-hooks` (quinn-proto, quinn-udp)",
            "enable": "harness workspace depends on quinn-proto/quinn-udp with default-features = false, features = [\"__verif-hooks\"], env QUINN_VERIF_HOOKS=/verif/hooks (bodies are include!d from there)",
            "baseline_off_cmd": "cd /repo && cargo nextest run --workspace --no-fail-fast --tool-config-file pb:/w/lib/nextest.toml --profile pb --test-threads 8 --offline || cargo test --workspace --no-fail-fast --offline",
            "source_commits": [l.strip() for l in os.popen("git -C /repo log --format=%H --grep='^verif hooks' ").read().split()],
            "add_only": True,
        },
        "engines": [
            {"name": "kani-cbmc", "path": "/verif/kani (template) + /verif/hooks (bodies) + /verif/lib/driver.py",
             "serves_properties": sorted({p for h in spec.HARNESSES for p in h.props}),
             "kind_free_text": "Kani 0.68 / CBMC 6.11 bounded model checking of the real crates; SAT back end CaDiCaL"},
        ] + ([{"name": "mir2smt-z3", "path": "/verif/mir2smt", "serves_properties": sorted({p for q in E2 for p in q["props"]}),
               "kind_free_text": "nightly MIR of the current tree translated to SMT-LIB2 bit-vectors, decided by z3 (cvc5 cross-check in the thorough tier)"}] if E2 else []),
        "checks": checks,
        "not_applicable": na,
        "notes": "Exit 2 = inconclusive (time-out, OOM, build error, vacuous harness, non-reproducing counterexample) and is never a pass. Repairs of genuine defects found by these checks are the `fix:` commits in /repo listed in known_findings.json.",
    }
    with open(os.path.join(VERIF, "MANIFEST.json"), "w") as f:
        json.dump(m, f, indent=1)
    print("claimed:", [c["property_id"] for c in checks])
    print("not applicable:", [n["property_id"] for n in na])


if __name__ == "__main__":
    main()
