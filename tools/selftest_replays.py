#!/usr/bin/env python3
"""Runs every native replay body of the E2 queries with all of its candidate argument sets on the
CURRENT tree and expects no panic: a replay body that fails on code where the solver says the
property holds would turn a solver candidate into a false VIOLATION."""
import os, sys
VERIF = os.path.dirname(os.path.dirname(os.path.abspath(__file__)))
sys.path.insert(0, os.path.join(VERIF, "lib"))
import driver, spec, harnesses, e2spec  # noqa
logdir = os.path.join(driver.OUT, "logs", "selftest")
os.makedirs(logdir, exist_ok=True)
driver.prepare_ws()
bad = 0
only = sys.argv[1:]
for q in e2spec.QUERIES:
    rp = q.get("replay")
    if not rp or (only and q["name"] not in only):
        continue
    h = next(x for x in spec.HARNESSES if x.name == rp[0])
    sets = rp[1]({})if True else None
    if isinstance(sets, dict):
        sets = [sets]
    for k, argvals in enumerate(sets):
        vals = [(a[0], a[1], a[2] if len(a) > 2 else argvals[a[0]]) for a in h.args]
        out = driver.replay_native(h, vals, logdir, tag="self_%s_%d" % (q["name"], k))
        p = out.get("dev", {}).get("panicked")
        if p or not out.get("dev", {}).get("built"):
            bad += 1
        print("%-36s set %d: %s %s" % (q["name"], k, "PANIC" if p else ("ok" if out.get("dev", {}).get("built") else "BUILD-FAILED"), out.get("dev", {}).get("panic_msg") or ""))
sys.exit(1 if bad else 0)
