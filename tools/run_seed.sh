#!/bin/bash
# usage: run_seed.sh <seed-dir> <property> [tier]   : applies the seeded patch to /repo, runs the check, reverts.
SEED=$1; PROP=$2; TIER=${3:-quick}
cd /repo || exit 2
if ! git diff --quiet; then echo "/repo not clean"; exit 2; fi
git apply $SEED/patch.diff || { echo "patch does not apply"; exit 2; }
cd /verif
./check $PROP $TIER > $SEED/check_${PROP}_${TIER}.log 2>&1; rc=$?
cp evidence/$PROP.json $SEED/evidence_${PROP}_${TIER}.json 2>/dev/null
git -C /repo checkout -- .
git -C /verif checkout -- evidence/$PROP.json 2>/dev/null
echo "SEED $(basename $SEED) property=$PROP tier=$TIER rc=$rc :: $(grep -E '^VIOLATION|^  obligation' $SEED/check_${PROP}_${TIER}.log | head -4 | tr '\n' ' ')"
