#!/bin/bash
# usage: run_seed.sh <seed-dir> <property> [tier]
# Runs the property's check against a seeded change WITHOUT touching /repo: the patch is applied to a
# scratch worktree and the check - taken from a snapshot of the COMMITTED /verif so that editing
# /verif meanwhile cannot disturb it - is pointed at it (QUINN_REPO) with its own build/output dirs.
SEED=$1; PROP=$2; TIER=${3:-quick}
W=${SEEDW:-}            # worker suffix: several seeds can be run side by side, each worker with its own worktree / build / output
WT=/tmp/wt/SEEDRUN$W
SNAP=/tmp/wt/vsnap$W
if [ ! -d $WT ]; then git -C /repo worktree add -q --detach $WT HEAD || exit 2; fi
cd $WT && git checkout -q --detach $(git -C /repo rev-parse HEAD) 2>/dev/null; git checkout -q -- . && git clean -fdq
git apply $SEED/patch.diff || { echo "patch does not apply"; exit 2; }
rm -rf $SNAP && mkdir -p $SNAP && git -C /verif archive HEAD | tar -x -C $SNAP
cd $SNAP
QUINN_REPO=$WT VERIF_BUILD=/verif/.build-seed$W VERIF_OUT=/verif/out-seed$W VERIF_EVID=/verif/out-seed$W/evidence ./check $PROP $TIER > $SEED/check_${PROP}_${TIER}.log 2>&1; rc=$?
cp /verif/out-seed$W/evidence/$PROP.json $SEED/evidence_${PROP}_${TIER}.json 2>/dev/null
cd $WT && git checkout -q -- . && git clean -fdq
rm -rf $SNAP
echo "SEED $(basename $SEED) property=$PROP tier=$TIER rc=$rc :: $(grep -E '^VIOLATION|^  obligation|^INCONCLUSIVE' $SEED/check_${PROP}_${TIER}.log | head -4 | tr '\n' ' ')"
