#!/bin/bash
# usage: tools/sweep.sh <tier> [props...] : runs ./check for every claimed property, one summary line each
cd "$(dirname "$0")/.."
TIER=${1:-quick}; shift
PROPS=${@:-C01 C03 C04 C05 C06 C07 C08 C09 C10 C11 C12 C13 C14 C15 C16 C17 C19}
for p in $PROPS; do
  s=$(date +%s); ./check $p $TIER > sweep_${TIER}_$p.log 2>&1; rc=$?
  echo "$p $TIER rc=$rc $(( $(date +%s) - s ))s violations=$(grep -c '^VIOLATION' sweep_${TIER}_$p.log) inconclusive=$(grep -c '^INCONCLUSIVE' sweep_${TIER}_$p.log)"
done
