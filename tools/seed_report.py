#!/usr/bin/env python3
"""Updates seeded/*/meta.json with what was run against each seed and prints the DESIGN §9 table."""
import json, os, re, glob
rows = []
for d in sorted(glob.glob("/verif/seeded/*-*")):
    meta = json.load(open(os.path.join(d, "meta.json")))
    runs = []
    detected = []
    for log in sorted(glob.glob(os.path.join(d, "check_*.log"))):
        m = re.match(r"check_(C\d+)_(\w+)\.log", os.path.basename(log))
        text = open(log).read()
        viol = re.findall(r"^  obligation ((?:E2:)?\w+):", text, re.M)
        summ = re.findall(r"^property=.*$", text, re.M)
        runs.append(dict(cmd="git -C /repo apply %s/patch.diff && ./check %s %s; git -C /repo checkout -- ." % (d, m.group(1), m.group(2)),
                         result=summ[-1] if summ else "?", violations=viol))
        detected += ["%s (%s %s)" % (v, m.group(1), m.group(2)) for v in viol]
    meta["what_was_run"] = runs
    meta["detected_by"] = sorted(set(detected))
    json.dump(meta, open(os.path.join(d, "meta.json"), "w"), indent=1)
    rows.append((meta["seed"], ", ".join(meta["files_changed"]), "; ".join(sorted(set(detected))) or "NOT DETECTED"))
print("| seed | file changed | caught by |\n|---|---|---|")
for r in rows:
    print("| %s | %s | %s |" % r)
