#!/bin/bash
# usage: verify_seed.sh <worktree> <change-dir> <crate>
# Confirms a seeded change: (a) demo only -> suite passes, (b) patch+demo -> only demo tests fail,
# (c) patch only -> suite passes.  Writes <change-dir>/verify.log and prints a one-line verdict.
set -u
WT=$1; CH=$2; CRATE=${3:-quinn-proto}
export CARGO_TARGET_DIR=$WT/target CARGO_NET_OFFLINE=true
cd $WT || exit 2
LOG=$CH/verify.log; : > $LOG
run() { cargo test --offline -p $CRATE 2>&1 | tee -a $LOG | grep -E "^test result|FAILED|failed|panicked" | head -20; }
git checkout -q -- . ; git clean -fdq -e seed_out -e target
echo "== (a) demo only" | tee -a $LOG
git apply $CH/demo.diff || { echo "VERDICT $CH demo.diff does not apply"; exit 1; }
A=$(run); echo "$A"
echo "== (b) patch + demo" | tee -a $LOG
git apply $CH/patch.diff || { echo "VERDICT $CH patch.diff does not apply"; git checkout -q -- .; git clean -fdq -e seed_out -e target; exit 1; }
B=$(run); echo "$B"
echo "== (c) patch only" | tee -a $LOG
git checkout -q -- . ; git clean -fdq -e seed_out -e target
git apply $CH/patch.diff
C=$(run); echo "$C"
git checkout -q -- . ; git clean -fdq -e seed_out -e target
ok_a=$(echo "$A" | grep -c "FAILED\|failed;" | head -1)
fa=$(echo "$A" | grep "^test result" | grep -vc " 0 failed")
fb=$(echo "$B" | grep "^test result" | grep -vc " 0 failed")
fc=$(echo "$C" | grep "^test result" | grep -vc " 0 failed")
if [ "$fa" = 0 ] && [ "$fb" != 0 ] && [ "$fc" = 0 ]; then echo "VERDICT $CH CONFIRMED" | tee -a $LOG; else echo "VERDICT $CH NOT-CONFIRMED (a_fail=$fa b_fail=$fb c_fail=$fc)" | tee -a $LOG; fi
