#!/usr/bin/env python3
"""Appends the /verif hook module to each listed source file of /repo (idempotent).

The hook is three lines of code per module, guarded by the cargo feature
`__verif-hooks`; the body is `include!`d from $QUINN_VERIF_HOOKS (= /verif/hooks)
so that every harness body lives in /verif and is compiled inside the real
module with access to its private items.
"""
import sys, os
REPO = sys.argv[1] if len(sys.argv) > 1 else "/repo"
PROTO = [
 "lib.rs","varint.rs","coding.rs","packet.rs","frame.rs","shared.rs","token.rs",
 "transport_parameters.rs","cid_queue.rs","cid_generator.rs","constant_time.rs",
 "transport_error.rs","endpoint.rs","token_memory_cache.rs",
 "config/mod.rs","config/transport.rs",
 "range_set/mod.rs","range_set/array_range_set.rs","range_set/btree_range_set.rs",
 "congestion.rs","congestion/new_reno.rs","congestion/cubic.rs","congestion/bbr/mod.rs",
 "congestion/bbr/min_max.rs","congestion/bbr/bw_estimation.rs",
 "connection/mod.rs","connection/spaces.rs","connection/send_buffer.rs","connection/assembler.rs",
 "connection/mtud.rs","connection/paths.rs","connection/pacing.rs","connection/timer.rs",
 "connection/ack_frequency.rs","connection/datagrams.rs","connection/cid_state.rs",
 "connection/sent_packets.rs","connection/packet_builder.rs","connection/packet_crypto.rs",
 "connection/stats.rs",
 "connection/streams/mod.rs","connection/streams/send.rs","connection/streams/recv.rs",
 "connection/streams/state.rs",
]
UDP = ["lib.rs","cmsg/mod.rs","cmsg/unix.rs","unix.rs"]
TEMPLATE = '''
#[cfg(feature = "__verif-hooks")]
#[allow(missing_docs, unreachable_pub, dead_code, unused_imports, unused_qualifications)]
pub mod verif {
    use super::*;
    include!(concat!(env!("QUINN_VERIF_HOOKS"), "/%s"));
}
'''
def hookname(crate, rel):
    return crate + "/" + rel
for crate, files, sub in (("proto", PROTO, "quinn-proto/src"), ("udp", UDP, "quinn-udp/src")):
    for rel in files:
        p = os.path.join(REPO, sub, rel)
        s = open(p).read()
        if '__verif-hooks' in s:
            continue
        if not s.endswith("\n"):
            s += "\n"
        s += TEMPLATE % hookname(crate, rel)
        open(p, "w").write(s)
        hp = os.path.join("/verif/hooks", hookname(crate, rel))
        os.makedirs(os.path.dirname(hp), exist_ok=True)
        if not os.path.exists(hp):
            open(hp, "w").write("// harness bodies compiled inside %s/%s (feature __verif-hooks)\n" % (sub, rel))
for ct in ("quinn-proto/Cargo.toml", "quinn-udp/Cargo.toml"):
    p = os.path.join(REPO, ct)
    s = open(p).read()
    if "__verif-hooks" not in s:
        s = s.replace("[features]\n", "[features]\n# Internal (PRIVATE!): compiles the /verif harness bodies into the crate; off in every normal build.\n__verif-hooks = []\n", 1)
        open(p, "w").write(s)
