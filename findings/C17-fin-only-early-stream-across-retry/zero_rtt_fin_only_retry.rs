//! Demonstration for finding 12 (C17 / C01): an early (0-RTT) stream that was finished without data
//! before a Retry arrives is never delivered.  Drop this file into quinn-proto/src/tests/ and add
//! `mod zero_rtt_fin_only_retry;` to quinn-proto/src/tests/mod.rs.  Fails before the fix, passes after.

use super::*;

#[test]
fn zero_rtt_fin_only_stream_across_retry() {
    let _guard = subscribe();
    let mut pair = Pair::default();
    pair.server.handle_incoming = Box::new(validate_incoming);
    let config = client_config();

    // Establish a normal connection to obtain a session ticket
    let client_ch = pair.begin_connect(config.clone());
    pair.drive();
    pair.server.assert_accept();
    pair.client
        .connections
        .get_mut(&client_ch)
        .unwrap()
        .close(pair.time, VarInt(0), [][..].into());
    pair.drive();

    pair.client.addr = SocketAddr::new(
        Ipv6Addr::LOCALHOST.into(),
        CLIENT_PORTS.lock().unwrap().next().unwrap(),
    );
    // Demand a Retry even though the client presents a NEW_TOKEN token from the first connection
    pair.server.handle_incoming = Box::new(|incoming: &Incoming| {
        if incoming.may_retry() {
            IncomingConnectionBehavior::Retry
        } else {
            IncomingConnectionBehavior::Accept
        }
    });
    let client_ch = pair.begin_connect(config);
    assert!(pair.client_conn_mut(client_ch).has_0rtt());

    // An early stream that carries nothing but its end: sent in the first flight, i.e. before the Retry
    let s = pair.client_streams(client_ch).open(Dir::Uni).unwrap();
    pair.client_send(client_ch, s).finish().unwrap();

    pair.drive();

    assert!(pair.client_conn_mut(client_ch).accepted_0rtt());
    let server_ch = pair.server.assert_accept();
    assert!(!pair.client_conn_mut(client_ch).is_closed());
    assert!(!pair.server_conn_mut(server_ch).is_closed());

    // The server application must see the stream, and its end
    assert_eq!(
        pair.server_streams(server_ch).accept(Dir::Uni),
        Some(s),
        "the early stream sent before the Retry never reached the server"
    );
    let mut recv = pair.server_recv(server_ch, s);
    let mut chunks = recv.read(true).unwrap();
    assert!(matches!(chunks.next(usize::MAX), Ok(None)), "the end of the early stream was not delivered");
    let _ = chunks.finalize();
}
