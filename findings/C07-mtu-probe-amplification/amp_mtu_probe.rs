//! Demonstration through the public API (crate test harness `Pair`), fails before /repo commit 785befd:
//! put this file into quinn-proto/src/tests/ and add `mod amp_mtu_probe;` to quinn-proto/src/tests/mod.rs.
//! An address that has not been validated must not be sent more than three times what it sent us (plus
//! the completion of one datagram) - MTU probes included.
use super::*;

#[test]
fn unvalidated_path_gets_no_mtu_probes_beyond_the_amplification_limit() {
    let _guard = subscribe();
    let mut pair = Pair::default();
    pair.mtu = 1500;
    let (client_ch, _server_ch) = pair.connect();
    pair.drive();

    // A packet of the client shows up from another address (a spoofed source: the "victim")
    let victim = SocketAddr::new(Ipv6Addr::new(0x2001, 0xdb8, 0, 0, 0, 0, 0, 7).into(), 4433);
    pair.client.addr = victim;
    pair.client_conn_mut(client_ch).ping();
    pair.drive_client();
    let received: usize = pair.server.inbound.iter().map(|x| x.2.len()).sum();
    assert!(received > 0);

    // The victim never answers. Run the server alone and count what it sends to the victim.
    let mut sent = 0usize;
    let mut datagrams = Vec::new();
    for _ in 0..2000 {
        pair.server.drive(pair.time, victim);
        for (t, b) in pair.server.outbound.drain(..) {
            if t.destination == victim {
                sent += b.len();
                datagrams.push(b.len());
            }
        }
        match pair.server.next_wakeup() {
            Some(t) => pair.time = pair.time.max(t),
            None => break,
        }
    }
    let limit = 3 * received + 1500; // three times what came from there, plus completing one datagram
    assert!(
        sent <= limit,
        "{sent} bytes sent to an unvalidated address that sent {received} (limit {limit}); datagrams: {datagrams:?}"
    );
}
