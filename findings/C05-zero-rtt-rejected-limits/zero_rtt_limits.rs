//! After a rejected 0-RTT attempt the connection must behave like a fresh one: flow control restarts from the
//! newly negotiated values, also when they are LOWER than the remembered ones.
use super::*;

#[test]
fn rejected_0rtt_uses_the_new_lower_connection_data_limit() {
    let _guard = subscribe();
    let server_config = ServerConfig::with_crypto(Arc::new(server_crypto_with_alpn(vec!["foo".into(), "bar".into()])));
    let mut pair = Pair::new(Arc::new(EndpointConfig::default()), server_config);
    let mut client_crypto = Arc::new(client_crypto_with_alpn(vec!["foo".into()]));
    let client_config = ClientConfig::new(client_crypto.clone());

    // First connection: the server advertises its default (large) connection window
    let client_ch = pair.begin_connect(client_config);
    pair.drive();
    let server_ch = pair.server.assert_accept();
    while pair.server_conn_mut(server_ch).poll().is_some() {}
    pair.client.connections.get_mut(&client_ch).unwrap().close(pair.time, VarInt(0), [][..].into());
    pair.drive();
    pair.client.connections.clear();
    pair.server.connections.clear();

    // The server is reconfigured with a small connection-level receive window
    let mut small = ServerConfig::with_crypto(Arc::new(server_crypto_with_alpn(vec!["foo".into(), "bar".into()])));
    let mut transport = TransportConfig::default();
    transport.receive_window(VarInt(1000));
    small.transport = Arc::new(transport);
    pair.server.endpoint.set_server_config(Some(Arc::new(small)));

    // Resume with another ALPN so that the server rejects 0-RTT
    let this = Arc::get_mut(&mut client_crypto).expect("QuicClientConfig is shared");
    let inner = Arc::get_mut(&mut this.inner).expect("QuicClientConfig.inner is shared");
    inner.alpn_protocols = vec!["bar".into()];
    let client_ch = pair.begin_connect(ClientConfig::new(client_crypto));
    assert!(pair.client_conn_mut(client_ch).has_0rtt());
    pair.drive();
    assert!(!pair.client_conn_mut(client_ch).accepted_0rtt());
    let server_ch = pair.server.assert_accept();
    while pair.server_conn_mut(server_ch).poll().is_some() {}

    // The client may now have at most 1000 bytes outstanding at connection level
    let s = pair.client_streams(client_ch).open(Dir::Uni).unwrap();
    let data = vec![7u8; 5000];
    let n = pair.client_send(client_ch, s).write(&data).unwrap();
    assert!(n <= 1000, "write() accepted {n} bytes although the peer's connection data limit is 1000");
    pair.drive();
    assert_matches!(pair.server_conn_mut(server_ch).poll(), Some(Event::Stream(StreamEvent::Opened { dir: Dir::Uni })));
}
