// Native replay bodies for E2 queries over the `quinn` crate (async layer).  Included into quinn's own test
// module behind the cargo feature `__verif-hooks`, so they can use the test helpers (`endpoint()`,
// `EndpointFactory`, ...) and run over real loopback sockets under tokio:
//     cargo test -p quinn --features __verif-hooks -- --exact tests::verif::<name>

use crate::{ReadError, VarInt, WriteError};

/// Replay body for `e2_quinn_sendstream_0rtt_guards` (C17): the server rejects 0-RTT, stream numbering restarts,
/// so the next stream the client opens has the ID of the rejected early stream.  The stale early handle must
/// report that its stream is gone; it must not act on the fresh stream that now owns the ID.
#[tokio::test]
async fn stale_early_handle_does_not_touch_fresh_stream() {
    let _guard = subscribe();
    let factory = EndpointFactory::new();
    let endpoint = factory.endpoint();
    let addr = endpoint.local_addr().unwrap();
    const EARLY: &[u8] = b"early data that must vanish";
    const PART1: &[u8] = b"hello, ";
    const PART2: &[u8] = b"fresh world";

    // first connection: obtain a session ticket
    let server = {
        let endpoint = endpoint.clone();
        tokio::spawn(async move {
            let connection = endpoint.accept().await.unwrap().await.expect("accept");
            let mut s = connection.open_uni().await.expect("open_uni");
            s.write_all(b"one").await.expect("write");
            let _ = s.finish();
            connection.closed().await;
        })
    };
    let connection = endpoint.connect(addr, "localhost").unwrap().await.expect("connect");
    let mut stream = connection.accept_uni().await.expect("incoming streams");
    assert_eq!(stream.read_to_end(usize::MAX).await.unwrap(), b"one");
    connection.close(0u32.into(), b"");
    drop((stream, connection));
    server.await.unwrap();

    // "restarted" server: same certificate, a TLS configuration that knows no tickets => 0-RTT is rejected
    let key = PrivateKeyDer::Pkcs8(factory.cert.signing_key.serialize_der().into());
    let server_config = crate::ServerConfig::with_single_cert(vec![factory.cert.cert.der().clone()], key).unwrap();
    endpoint.set_server_config(Some(server_config));
    let server = {
        let endpoint = endpoint.clone();
        tokio::spawn(async move {
            let connection = endpoint.accept().await.unwrap().await.expect("accept");
            let mut received = Vec::new();
            while let Ok(mut s) = connection.accept_uni().await {
                received.push(s.read_to_end(usize::MAX).await.expect("read_to_end"));
            }
            received
        })
    };

    let connection = endpoint.connect(addr, "localhost").unwrap().into_0rtt().unwrap_or_else(|_| panic!("missing 0-RTT keys"));
    let mut early = connection.open_uni().await.expect("0-RTT open uni");
    early.write_all(EARLY).await.expect("0-RTT write");
    connection.authenticated().await.expect("connected");
    assert_eq!(early.write_all(EARLY).await, Err(WriteError::ZeroRttRejected));

    let mut fresh = connection.open_uni().await.expect("1-RTT open uni");
    assert_eq!(fresh.id(), early.id());
    fresh.write_all(PART1).await.expect("first write");
    let _ = early.set_priority(7);
    assert_eq!(fresh.priority(), Ok(0), "the priority of a fresh stream was changed through the rejected 0-RTT stream's handle");
    assert!(early.priority().is_err(), "a rejected 0-RTT stream reports the priority of the fresh stream that reuses its id");
    assert!(early.finish().is_err(), "finishing a rejected 0-RTT stream was reported as done");
    fresh.write_all(PART2).await.expect("fresh stream was finished through the rejected 0-RTT stream's handle");
    fresh.finish().unwrap();
    fresh.stopped().await.expect("stopped");
    connection.close(0u32.into(), b"");
    let received = server.await.unwrap();
    assert_eq!(received, vec![[PART1, PART2].concat()]);
    endpoint.wait_idle().await;
}

/// Replay body for `e2_quinn_recvstream_stop_0rtt_guard`, `e2_quinn_recvstream_drop_0rtt_guard` and
/// `e2_quinn_sendstream_drop_0rtt_guard` (C17): after a rejected 0-RTT attempt the next bidirectional stream has
/// the ID of the rejected early one.  Stopping or dropping the stale early handles must leave that fresh stream
/// alone: a stale `stop` / `RecvStream::drop` would discard what the peer echoes on it, a stale `SendStream::drop`
/// would finish it in the middle of the fresh writer's data.
#[tokio::test]
async fn stale_early_bi_handles_do_not_touch_fresh_stream() {
    let _guard = subscribe();
    let factory = EndpointFactory::new();
    let endpoint = factory.endpoint();
    let addr = endpoint.local_addr().unwrap();
    const EARLY: &[u8] = b"early data that must vanish";
    const PART1: &[u8] = b"hello, ";
    const PART2: &[u8] = b"fresh world";

    // first connection: obtain a session ticket
    let server = {
        let endpoint = endpoint.clone();
        tokio::spawn(async move {
            let connection = endpoint.accept().await.unwrap().await.expect("accept");
            let mut s = connection.open_uni().await.expect("open_uni");
            s.write_all(b"one").await.expect("write");
            let _ = s.finish();
            connection.closed().await;
        })
    };
    let connection = endpoint.connect(addr, "localhost").unwrap().await.expect("connect");
    let mut stream = connection.accept_uni().await.expect("incoming streams");
    assert_eq!(stream.read_to_end(usize::MAX).await.unwrap(), b"one");
    connection.close(0u32.into(), b"");
    drop((stream, connection));
    server.await.unwrap();

    // "restarted" server: same certificate, a TLS configuration that knows no tickets => 0-RTT is rejected
    let key = PrivateKeyDer::Pkcs8(factory.cert.signing_key.serialize_der().into());
    let server_config = crate::ServerConfig::with_single_cert(vec![factory.cert.cert.der().clone()], key).unwrap();
    endpoint.set_server_config(Some(server_config));
    let server = {
        let endpoint = endpoint.clone();
        tokio::spawn(async move {
            let connection = endpoint.accept().await.unwrap().await.expect("accept");
            let mut received = Vec::new();
            while let Ok((mut tx, mut rx)) = connection.accept_bi().await {
                let data = rx.read_to_end(usize::MAX).await.expect("read_to_end");
                tx.write_all(&data).await.expect("echo");
                let _ = tx.finish();
                received.push(data);
            }
            received
        })
    };

    let connection = endpoint.connect(addr, "localhost").unwrap().into_0rtt().unwrap_or_else(|_| panic!("missing 0-RTT keys"));
    let (mut early_tx, early_rx) = connection.open_bi().await.expect("0-RTT open bi");
    early_tx.write_all(EARLY).await.expect("0-RTT write");
    let (mut early_tx2, early_rx2) = connection.open_bi().await.expect("second 0-RTT open bi");
    connection.authenticated().await.expect("connected");
    assert_eq!(early_tx.write_all(EARLY).await, Err(WriteError::ZeroRttRejected));

    let (mut fresh_tx, mut fresh_rx) = connection.open_bi().await.expect("1-RTT open bi");
    assert_eq!(fresh_tx.id(), early_tx.id());
    fresh_tx.write_all(PART1).await.expect("first write");
    let stale = timeout(Duration::from_secs(3), early_tx.stopped()).await.expect("stopped() on the rejected 0-RTT stream's handle waits for the fresh stream that reuses its id");
    assert_eq!(stale, Err(crate::StoppedError::ZeroRttRejected), "stopped() on the rejected 0-RTT stream's handle reports the state of the fresh stream that reuses its id");
    let mut early_rx = early_rx;
    let _ = early_rx.stop(VarInt::from_u32(9));
    drop(early_rx);
    drop(early_tx);
    fresh_tx.write_all(PART2).await.expect("the fresh stream was finished when the rejected 0-RTT stream's send handle was dropped");
    fresh_tx.finish().unwrap();
    let echoed = timeout(Duration::from_secs(5), fresh_rx.read_to_end(usize::MAX)).await.expect("no echo")
        .expect("the fresh stream's receive side was stopped through the rejected 0-RTT stream's handle");
    assert_eq!(echoed, [PART1, PART2].concat());
    connection.close(0u32.into(), b"");
    let stale = timeout(Duration::from_secs(3), early_tx2.stopped()).await.expect("stopped() on a rejected 0-RTT stream's handle never completes on a closed connection");
    assert_eq!(stale, Err(crate::StoppedError::ZeroRttRejected), "on a closed connection stopped() on a rejected 0-RTT stream's handle consults the stream table");
    drop((early_tx2, early_rx2));
    let received = server.await.unwrap();
    assert_eq!(received, vec![[PART1, PART2].concat()]);
    endpoint.wait_idle().await;
}

/// Replay body for `e2_quinn_stopped_wakes_writers` (C11): a writer parked on an exhausted stream window when
/// the peer's STOP_SENDING arrives is woken and reports the stop code; no credit will ever arrive for it.
#[tokio::test]
async fn stopped_wakes_blocked_writer() {
    let _guard = subscribe();
    let mut cfg = TransportConfig::default();
    cfg.stream_receive_window(64u32.into());
    let endpoint = endpoint_with_config(cfg);
    let (client, server) = tokio::join!(endpoint.connect(endpoint.local_addr().unwrap(), "localhost").unwrap(), async { endpoint.accept().await.unwrap().await });
    let client = client.unwrap();
    let server = server.unwrap();
    const CODE: VarInt = VarInt::from_u32(42);
    let mut send = client.open_uni().await.unwrap();
    let writer = tokio::spawn(async move {
        let data = vec![0x5au8; 4096];
        let result = send.write_all(&data).await;
        (send, result)
    });
    let mut recv = server.accept_uni().await.unwrap();
    sleep(Duration::from_millis(100)).await;
    assert!(!writer.is_finished(), "the writer must be blocked by now");
    recv.stop(CODE).unwrap();
    let (mut send, written) = timeout(Duration::from_secs(3), writer).await.expect("the blocked writer was never told that the stream was stopped").unwrap();
    assert_eq!(written, Err(WriteError::Stopped(CODE)));
    assert_eq!(send.write(b"x").await, Err(WriteError::Stopped(CODE)));
    assert_eq!(send.stopped().await, Ok(Some(CODE)));
}

/// Replay body for `e2_quinn_read_reset_remembered` (C11): once a read has reported the peer's reset, asking
/// again through `received_reset` agrees with it (proto has freed the stream by then: the wrapper is the only
/// place that still knows how the half ended).
#[tokio::test]
async fn reset_seen_by_read_is_remembered() {
    let _guard = subscribe();
    let endpoint = endpoint();
    let (client, server) = tokio::join!(endpoint.connect(endpoint.local_addr().unwrap(), "localhost").unwrap(), async { endpoint.accept().await.unwrap().await });
    let client = client.unwrap();
    let server = server.unwrap();
    const CODE: VarInt = VarInt::from_u32(7);
    let work = async {
        let mut send = client.open_uni().await.unwrap();
        send.write_all(b"hi").await.unwrap();
        let mut recv = server.accept_uni().await.unwrap();
        let mut buf = [0u8; 2];
        recv.read_exact(&mut buf).await.unwrap();
        send.reset(CODE).unwrap();
        let mut buf = [0u8; 16];
        assert_eq!(recv.read(&mut buf).await, Err(ReadError::Reset(CODE)));
        assert_eq!(recv.received_reset().await, Ok(Some(CODE)), "a reset reported by read is not what received_reset reports");
        assert_eq!(recv.received_reset().await, Ok(Some(CODE)));
    };
    timeout(Duration::from_secs(5), work).await.expect("timed out");
}

/// Replay body for `e2_quinn_poll_socket_split_loop` (C19): a fake `AsyncUdpSocket` hands the endpoint driver a
/// coalesced (GRO) receive buffer whose last datagram is shorter than the stride.  Every datagram is a long-header
/// packet of an unsupported version with a unique source CID, so the endpoint answers each one it sees with a
/// Version Negotiation packet echoing that CID: the answers tell which datagrams were split out.
mod split {
    use std::{
        collections::{BTreeSet, VecDeque},
        fmt, io,
        net::{Ipv4Addr, SocketAddr},
        pin::Pin,
        sync::{Arc, Mutex},
        task::{Context, Poll, Waker},
        time::Duration,
    };

    use crate::{
        AsyncUdpSocket, Endpoint, EndpointConfig, ServerConfig, TokioRuntime, UdpSender,
        udp::{RecvMeta, Transmit},
    };
    use rustls::pki_types::{CertificateDer, PrivatePkcs8KeyDer};

    /// One receive buffer as the kernel would fill it: `(bytes, stride)`
    type Coalesced = (Vec<u8>, usize);

    #[derive(Default)]
    struct Shared {
        /// Batches yet to be returned from `poll_recv`
        inbound: VecDeque<Vec<Coalesced>>,
        waker: Option<Waker>,
        /// Payloads of everything the endpoint sent
        outbound: Vec<Vec<u8>>,
    }

    #[derive(Clone)]
    struct FakeSocket(Arc<Mutex<Shared>>);

    impl fmt::Debug for FakeSocket {
        fn fmt(&self, f: &mut fmt::Formatter<'_>) -> fmt::Result {
            f.write_str("FakeSocket")
        }
    }

    impl AsyncUdpSocket for FakeSocket {
        fn create_sender(&self) -> Pin<Box<dyn UdpSender>> {
            Box::pin(self.clone())
        }

        fn poll_recv(
            &mut self,
            cx: &mut Context<'_>,
            bufs: &mut [io::IoSliceMut<'_>],
            meta: &mut [RecvMeta],
        ) -> Poll<io::Result<usize>> {
            let mut shared = self.0.lock().unwrap();
            let Some(batch) = shared.inbound.pop_front() else {
                shared.waker = Some(cx.waker().clone());
                return Poll::Pending;
            };
            assert!(batch.len() <= bufs.len() && batch.len() <= meta.len());
            for (i, (bytes, stride)) in batch.iter().enumerate() {
                bufs[i][..bytes.len()].copy_from_slice(bytes);
                let mut m = RecvMeta::default();
                m.addr = SocketAddr::from((Ipv4Addr::LOCALHOST, 40_000 + i as u16));
                m.len = bytes.len();
                m.stride = *stride;
                meta[i] = m;
            }
            Poll::Ready(Ok(batch.len()))
        }

        fn local_addr(&self) -> io::Result<SocketAddr> {
            Ok(SocketAddr::from((Ipv4Addr::LOCALHOST, 4433)))
        }

        fn max_receive_segments(&self) -> usize {
            64
        }
    }

    impl UdpSender for FakeSocket {
        fn poll_send(
            self: Pin<&mut Self>,
            transmit: &Transmit<'_>,
            _cx: &mut Context<'_>,
        ) -> Poll<io::Result<()>> {
            self.0
                .lock()
                .unwrap()
                .outbound
                .push(transmit.contents.to_vec());
            Poll::Ready(Ok(()))
        }
    }

    /// A `len`-byte long-header packet of an unsupported version whose source CID encodes `tag`
    fn probe(tag: u16, len: usize) -> Vec<u8> {
        let mut p = vec![0xc0, 0x0a, 0x1a, 0x2a, 0x3a];
        p.push(8);
        p.extend_from_slice(&[0xdd; 8]);
        p.push(8);
        p.extend_from_slice(&[0x5c, 0x1d, 0, 0, 0, 0]);
        p.extend_from_slice(&tag.to_be_bytes());
        assert!(len >= p.len());
        p.resize(len, 0);
        p
    }

    /// Extracts the tag from a Version Negotiation packet answering a `probe`
    fn answered_tag(vn: &[u8]) -> u16 {
        assert_eq!(vn[0] & 0x80, 0x80, "long header");
        assert_eq!(&vn[1..5], &[0; 4], "version negotiation");
        assert_eq!(vn[5], 8, "destination CID echoes the probe's source CID");
        assert_eq!(&vn[6..12], &[0x5c, 0x1d, 0, 0, 0, 0]);
        u16::from_be_bytes([vn[12], vn[13]])
    }

    /// Concatenates probes of the given lengths the way GRO does, returning the buffer and its tags
    fn coalesce(first_tag: u16, lens: &[usize]) -> (Vec<u8>, BTreeSet<u16>) {
        let mut buf = Vec::new();
        let mut tags = BTreeSet::new();
        for (i, &len) in lens.iter().enumerate() {
            let tag = first_tag + i as u16;
            buf.extend_from_slice(&probe(tag, len));
            tags.insert(tag);
        }
        (buf, tags)
    }

    fn server_config() -> ServerConfig {
        let cert = rcgen::generate_simple_self_signed(vec!["localhost".into()]).unwrap();
        ServerConfig::with_single_cert(
            vec![CertificateDer::from(cert.cert.der().to_vec())],
            PrivatePkcs8KeyDer::from(cert.signing_key.serialize_der()).into(),
        )
        .unwrap()
    }

    /// Feeds `batch` to a fresh endpoint and returns the tags of the datagrams it reacted to
    async fn tags_seen(batch: Vec<Coalesced>, expected: usize) -> BTreeSet<u16> {
        let shared = Arc::new(Mutex::new(Shared::default()));
        let endpoint = Endpoint::new_with_abstract_socket(
            EndpointConfig::default(),
            Some(server_config()),
            Box::new(FakeSocket(shared.clone())),
            Arc::new(TokioRuntime),
        )
        .unwrap();

        {
            let mut shared = shared.lock().unwrap();
            shared.inbound.push_back(batch);
            if let Some(waker) = shared.waker.take() {
                waker.wake();
            }
        }

        // Wait for the driver to work through the batch (bounded, so a lost datagram fails the test
        // instead of hanging it).
        for _ in 0..200 {
            if shared.lock().unwrap().outbound.len() >= expected {
                break;
            }
            tokio::time::sleep(Duration::from_millis(10)).await;
        }
        // Leave room for any surplus responses to show up, too
        tokio::time::sleep(Duration::from_millis(50)).await;

        let shared = shared.lock().unwrap();
        let tags = shared.outbound.iter().map(|vn| answered_tag(vn)).collect();
        assert_eq!(
            shared.outbound.len(),
            BTreeSet::len(&tags),
            "a datagram was handled twice"
        );
        drop(shared);
        drop(endpoint);
        tags
    }


    #[tokio::test]
    async fn every_datagram_of_a_coalesced_buffer_is_delivered() {
        let (buf, tags) = coalesce(100, &[120, 120, 120]);
        assert_eq!(tags_seen(vec![(buf, 120)], tags.len()).await, tags, "a buffer that is an exact multiple of the stride");
        let (buf, tags) = coalesce(300, &[120, 120, 120, 41]);
        assert_eq!(tags_seen(vec![(buf, 120)], tags.len()).await, tags, "the short last datagram of a coalesced receive buffer was not delivered");
        let (a, mut tags) = coalesce(400, &[1200, 1200, 23]);
        let (b, tags_b) = coalesce(500, &[64]);
        let (c, tags_c) = coalesce(600, &[300, 299]);
        tags.extend(tags_b);
        tags.extend(tags_c);
        assert_eq!(tags_seen(vec![(a, 1200), (b, 64), (c, 300)], tags.len()).await, tags, "a datagram of a multi-buffer batch was not delivered");
    }
}
