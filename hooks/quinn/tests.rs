// Native replay bodies for E2 queries over the `quinn` crate (async layer).  Included into quinn's own test
// module behind the cargo feature `__verif-hooks`, so they can use the test helpers (`endpoint()`,
// `EndpointFactory`, ...) and run over real loopback sockets under tokio:
//     cargo test -p quinn --features __verif-hooks -- --exact tests::verif::<name>

use crate::{ReadError, VarInt, WriteError};

/// Replay body for `e2_quinn_sendstream_0rtt_guards` (C17): the server rejects 0-RTT, stream numbering restarts,
/// so the next stream the client opens has the ID of the rejected early stream.  The stale early handle must
/// report that its stream is gone; it must not act on the fresh stream that now owns the ID.
#[tokio::test]
async fn stale_early_handle_does_not_touch_fresh_stream() {
    let _guard = subscribe();
    let factory = EndpointFactory::new();
    let endpoint = factory.endpoint();
    let addr = endpoint.local_addr().unwrap();
    const EARLY: &[u8] = b"early data that must vanish";
    const PART1: &[u8] = b"hello, ";
    const PART2: &[u8] = b"fresh world";

    // first connection: obtain a session ticket
    let server = {
        let endpoint = endpoint.clone();
        tokio::spawn(async move {
            let connection = endpoint.accept().await.unwrap().await.expect("accept");
            let mut s = connection.open_uni().await.expect("open_uni");
            s.write_all(b"one").await.expect("write");
            let _ = s.finish();
            connection.closed().await;
        })
    };
    let connection = endpoint.connect(addr, "localhost").unwrap().await.expect("connect");
    let mut stream = connection.accept_uni().await.expect("incoming streams");
    assert_eq!(stream.read_to_end(usize::MAX).await.unwrap(), b"one");
    connection.close(0u32.into(), b"");
    drop((stream, connection));
    server.await.unwrap();

    // "restarted" server: same certificate, a TLS configuration that knows no tickets => 0-RTT is rejected
    let key = PrivateKeyDer::Pkcs8(factory.cert.signing_key.serialize_der().into());
    let server_config = crate::ServerConfig::with_single_cert(vec![factory.cert.cert.der().clone()], key).unwrap();
    endpoint.set_server_config(Some(server_config));
    let server = {
        let endpoint = endpoint.clone();
        tokio::spawn(async move {
            let connection = endpoint.accept().await.unwrap().await.expect("accept");
            let mut received = Vec::new();
            while let Ok(mut s) = connection.accept_uni().await {
                received.push(s.read_to_end(usize::MAX).await.expect("read_to_end"));
            }
            received
        })
    };

    let connection = endpoint.connect(addr, "localhost").unwrap().into_0rtt().unwrap_or_else(|_| panic!("missing 0-RTT keys"));
    let mut early = connection.open_uni().await.expect("0-RTT open uni");
    early.write_all(EARLY).await.expect("0-RTT write");
    connection.authenticated().await.expect("connected");
    assert_eq!(early.write_all(EARLY).await, Err(WriteError::ZeroRttRejected));

    let mut fresh = connection.open_uni().await.expect("1-RTT open uni");
    assert_eq!(fresh.id(), early.id());
    fresh.write_all(PART1).await.expect("first write");
    let _ = early.set_priority(7);
    assert_eq!(fresh.priority(), Ok(0), "the priority of a fresh stream was changed through the rejected 0-RTT stream's handle");
    assert!(early.priority().is_err(), "a rejected 0-RTT stream reports the priority of the fresh stream that reuses its id");
    assert!(early.finish().is_err(), "finishing a rejected 0-RTT stream was reported as done");
    fresh.write_all(PART2).await.expect("fresh stream was finished through the rejected 0-RTT stream's handle");
    fresh.finish().unwrap();
    fresh.stopped().await.expect("stopped");
    connection.close(0u32.into(), b"");
    let received = server.await.unwrap();
    assert_eq!(received, vec![[PART1, PART2].concat()]);
    endpoint.wait_idle().await;
}

/// Replay body for `e2_quinn_stopped_wakes_writers` (C11): a writer parked on an exhausted stream window when
/// the peer's STOP_SENDING arrives is woken and reports the stop code; no credit will ever arrive for it.
#[tokio::test]
async fn stopped_wakes_blocked_writer() {
    let _guard = subscribe();
    let mut cfg = TransportConfig::default();
    cfg.stream_receive_window(64u32.into());
    let endpoint = endpoint_with_config(cfg);
    let (client, server) = tokio::join!(endpoint.connect(endpoint.local_addr().unwrap(), "localhost").unwrap(), async { endpoint.accept().await.unwrap().await });
    let client = client.unwrap();
    let server = server.unwrap();
    const CODE: VarInt = VarInt::from_u32(42);
    let mut send = client.open_uni().await.unwrap();
    let writer = tokio::spawn(async move {
        let data = vec![0x5au8; 4096];
        let result = send.write_all(&data).await;
        (send, result)
    });
    let mut recv = server.accept_uni().await.unwrap();
    sleep(Duration::from_millis(100)).await;
    assert!(!writer.is_finished(), "the writer must be blocked by now");
    recv.stop(CODE).unwrap();
    let (mut send, written) = timeout(Duration::from_secs(3), writer).await.expect("the blocked writer was never told that the stream was stopped").unwrap();
    assert_eq!(written, Err(WriteError::Stopped(CODE)));
    assert_eq!(send.write(b"x").await, Err(WriteError::Stopped(CODE)));
    assert_eq!(send.stopped().await, Ok(Some(CODE)));
}

/// Replay body for `e2_quinn_read_reset_remembered` (C11): once a read has reported the peer's reset, asking
/// again through `received_reset` agrees with it (proto has freed the stream by then: the wrapper is the only
/// place that still knows how the half ended).
#[tokio::test]
async fn reset_seen_by_read_is_remembered() {
    let _guard = subscribe();
    let endpoint = endpoint();
    let (client, server) = tokio::join!(endpoint.connect(endpoint.local_addr().unwrap(), "localhost").unwrap(), async { endpoint.accept().await.unwrap().await });
    let client = client.unwrap();
    let server = server.unwrap();
    const CODE: VarInt = VarInt::from_u32(7);
    let work = async {
        let mut send = client.open_uni().await.unwrap();
        send.write_all(b"hi").await.unwrap();
        let mut recv = server.accept_uni().await.unwrap();
        let mut buf = [0u8; 2];
        recv.read_exact(&mut buf).await.unwrap();
        send.reset(CODE).unwrap();
        let mut buf = [0u8; 16];
        assert_eq!(recv.read(&mut buf).await, Err(ReadError::Reset(CODE)));
        assert_eq!(recv.received_reset().await, Ok(Some(CODE)), "a reset reported by read is not what received_reset reports");
        assert_eq!(recv.received_reset().await, Ok(Some(CODE)));
    };
    timeout(Duration::from_secs(5), work).await.expect("timed out");
}
