// harness bodies compiled inside quinn-udp/src/cmsg/unix.rs (feature __verif-hooks)
