#[cfg(unix)]
pub use super::imp::verif as imp;
