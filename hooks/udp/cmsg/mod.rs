#[cfg(unix)]
pub use super::imp::verif as imp;

// Harness bodies for quinn-udp/src/cmsg/mod.rs (control message encoder / iterator).

#[cfg(any(target_os = "linux", target_os = "android"))]
mod bodies {
    use super::super::*;

    fn space<T>() -> usize {
        <libc::cmsghdr as CMsgHdr>::cmsg_space(core::mem::size_of::<T>())
    }

    /// C19.a: `Encoder::{new,push,finish}` followed by `Iter` / `decode`, for every subset of the
    /// control messages `prepare_msg` emits, in the order it emits them, with arbitrary values:
    /// every write stays inside the `cmsg::LEN`-byte aligned control buffer (Kani's pointer checks),
    /// `msg_controllen` ends up as the sum of CMSG_SPACE of what was pushed, iterating yields
    /// exactly the same (level, type, value) sequence and then ends.
    pub fn encode_iter_roundtrip(v6: bool, use_tos: bool, tos: i32, use_seg: bool, seg: u16, use_pktinfo: bool, addr4: u32, addr6: [u8; 16], ifindex: u32) -> u32 {
        let mut ctrl = Aligned([0u8; LEN]);
        let mut hdr: libc::msghdr = unsafe { core::mem::zeroed() };
        hdr.msg_control = ctrl.0.as_mut_ptr() as _;
        hdr.msg_controllen = LEN as _;
        let mut want = 0usize;
        {
            let mut enc = unsafe { Encoder::new(&mut hdr) };
            if use_tos {
                if v6 {
                    enc.push(libc::IPPROTO_IPV6, libc::IPV6_TCLASS, tos);
                } else {
                    enc.push(libc::IPPROTO_IP, libc::IP_TOS, tos);
                }
                want += space::<libc::c_int>();
            }
            if use_seg {
                enc.push(libc::SOL_UDP, libc::UDP_SEGMENT, seg);
                want += space::<u16>();
            }
            if use_pktinfo {
                if v6 {
                    enc.push(libc::IPPROTO_IPV6, libc::IPV6_PKTINFO, libc::in6_pktinfo { ipi6_ifindex: ifindex as _, ipi6_addr: libc::in6_addr { s6_addr: addr6 } });
                    want += space::<libc::in6_pktinfo>();
                } else {
                    enc.push(libc::IPPROTO_IP, libc::IP_PKTINFO, libc::in_pktinfo { ipi_ifindex: ifindex as _, ipi_spec_dst: libc::in_addr { s_addr: addr4 }, ipi_addr: libc::in_addr { s_addr: 0 } });
                    want += space::<libc::in_pktinfo>();
                }
            }
            enc.finish();
        }
        assert!(hdr.msg_controllen as usize == want);
        assert!(want <= LEN);
        if want == 0 {
            assert!(hdr.msg_control.is_null());
        }
        let mut it = unsafe { Iter::new(&hdr) };
        let mut f = 1u32;
        if use_tos {
            let c = it.next().expect("TOS/TCLASS message missing");
            assert!(c.cmsg_level == if v6 { libc::IPPROTO_IPV6 } else { libc::IPPROTO_IP });
            assert!(c.cmsg_type == if v6 { libc::IPV6_TCLASS } else { libc::IP_TOS });
            assert!(c.len() == <libc::cmsghdr as CMsgHdr>::cmsg_len(4));
            assert!(unsafe { decode::<libc::c_int, libc::cmsghdr>(c) } == tos);
            f |= 2;
        }
        if use_seg {
            let c = it.next().expect("UDP_SEGMENT message missing");
            assert!(c.cmsg_level == libc::SOL_UDP && c.cmsg_type == libc::UDP_SEGMENT);
            assert!(unsafe { decode::<u16, libc::cmsghdr>(c) } == seg);
            f |= 4;
        }
        if use_pktinfo {
            let c = it.next().expect("PKTINFO message missing");
            if v6 {
                assert!(c.cmsg_level == libc::IPPROTO_IPV6 && c.cmsg_type == libc::IPV6_PKTINFO);
                let p = unsafe { decode::<libc::in6_pktinfo, libc::cmsghdr>(c) };
                assert!(p.ipi6_addr.s6_addr == addr6 && p.ipi6_ifindex as u32 == ifindex);
            } else {
                assert!(c.cmsg_level == libc::IPPROTO_IP && c.cmsg_type == libc::IP_PKTINFO);
                let p = unsafe { decode::<libc::in_pktinfo, libc::cmsghdr>(c) };
                assert!(p.ipi_spec_dst.s_addr == addr4 && p.ipi_ifindex as u32 == ifindex);
            }
            f |= 8;
        }
        assert!(it.next().is_none());
        f
    }
}

#[cfg(any(target_os = "linux", target_os = "android"))]
pub use bodies::*;
