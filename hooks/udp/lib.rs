#[cfg(unix)]
pub use crate::cmsg::verif as cmsg;
#[cfg(unix)]
pub use crate::imp::verif as unix;
