#[cfg(unix)]
pub use crate::cmsg::verif as cmsg;
#[cfg(unix)]
pub use crate::imp::verif as unix;

/// C19: `Transmit::effective_segment_size`: segmentation offload is requested only when the
/// contents really span more than one segment (a segment size >= the payload means a plain send).
pub fn effective_segment_size(len: u16, has_seg: bool, seg: usize) -> u32 {
    static ZEROS: [u8; 65536] = [0; 65536];
    let t = Transmit {
        destination: SocketAddr::new(IpAddr::V6(Ipv6Addr::LOCALHOST), 1),
        ecn: None,
        contents: &ZEROS[..len as usize],
        segment_size: if has_seg { Some(seg) } else { None },
        src_ip: None,
    };
    let r = t.effective_segment_size();
    let want = if has_seg && seg < len as usize { Some(seg) } else { None };
    assert!(r == want);
    if r.is_some() { 2 } else { 1 }
}
