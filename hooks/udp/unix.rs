// Harness bodies for quinn-udp/src/unix.rs.

/// C19.b: `decode_recv` on a control block holding (optionally) a TOS/TCLASS byte, a UDP_GRO
/// stride and an IPv4 PKTINFO: the ECN codepoint is the low two bits of the traffic class, the
/// stride is the GRO value (or the datagram length without one), the destination address and
/// interface index are those of the PKTINFO, and the source address comes from `msg_name`.
#[cfg(any(target_os = "linux", target_os = "android"))]
pub fn decode_recv_meta(len: u16, use_tos: bool, tos: u8, use_gro: bool, gro: u16, use_pktinfo: bool, dst: u32, ifindex: u32, port: u16, src: u32) -> u32 {
    let mut ctrl = cmsg::Aligned([0u8; cmsg::LEN]);
    let mut hdr: libc::msghdr = unsafe { core::mem::zeroed() };
    hdr.msg_control = ctrl.0.as_mut_ptr() as _;
    hdr.msg_controllen = cmsg::LEN as _;
    {
        let mut enc = unsafe { cmsg::Encoder::new(&mut hdr) };
        if use_tos {
            enc.push(libc::IPPROTO_IP, libc::IP_TOS, tos);
        }
        if use_gro {
            enc.push(libc::SOL_UDP, libc::UDP_GRO, gro as libc::c_int);
        }
        if use_pktinfo {
            enc.push(libc::IPPROTO_IP, libc::IP_PKTINFO, libc::in_pktinfo { ipi_ifindex: ifindex as _, ipi_spec_dst: libc::in_addr { s_addr: 0 }, ipi_addr: libc::in_addr { s_addr: dst } });
        }
        enc.finish();
    }
    let mut name = MaybeUninit::<libc::sockaddr_storage>::zeroed();
    unsafe {
        let sin = name.as_mut_ptr() as *mut libc::sockaddr_in;
        (*sin).sin_family = libc::AF_INET as _;
        (*sin).sin_port = port.to_be();
        (*sin).sin_addr = libc::in_addr { s_addr: src };
    }
    let Ok(meta) = decode_recv(&name, &hdr, len as usize) else { panic!("AF_INET source address must decode") };
    assert!(meta.len == len as usize);
    assert!(meta.stride == if use_gro { gro as usize } else { len as usize });
    let want_ecn = if use_tos { EcnCodepoint::from_bits(tos) } else { None };
    assert!(meta.ecn == want_ecn);
    if use_tos {
        match tos & 0b11 {
            0b10 => assert!(meta.ecn == Some(EcnCodepoint::Ect0)),
            0b01 => assert!(meta.ecn == Some(EcnCodepoint::Ect1)),
            0b11 => assert!(meta.ecn == Some(EcnCodepoint::Ce)),
            _ => assert!(meta.ecn.is_none()),
        }
    }
    if use_pktinfo {
        assert!(meta.dst_ip == Some(IpAddr::V4(Ipv4Addr::from(dst.to_ne_bytes()))));
        assert!(meta.interface_index == Some(ifindex));
    } else {
        assert!(meta.dst_ip.is_none() && meta.interface_index.is_none());
    }
    assert!(meta.addr == SocketAddr::V4(std::net::SocketAddrV4::new(Ipv4Addr::from(src.to_ne_bytes()), port)));
    1 | (if use_tos { 2 } else { 0 }) | (if use_gro { 4 } else { 0 }) | (if use_pktinfo { 8 } else { 0 })
}

/// C19 ("the source and destination addresses ... are conveyed"): `decode_socket_addr` - which fills
/// `RecvMeta::addr` - reproduces every field of the kernel's `sockaddr_in6` / `sockaddr_in`: address,
/// port (network byte order), IPv6 flow label and IPv6 scope id (without which a link-local peer cannot be
/// answered).
pub fn decode_socket_addr_fields(v6: bool, a6: [u8; 16], a4: [u8; 4], port: u16, flowinfo: u32, scope: u32) -> u32 {
    let mut name = MaybeUninit::<libc::sockaddr_storage>::zeroed();
    if v6 {
        unsafe {
            let sin6 = name.as_mut_ptr() as *mut libc::sockaddr_in6;
            (*sin6).sin6_family = libc::AF_INET6 as _;
            (*sin6).sin6_port = port.to_be();
            (*sin6).sin6_flowinfo = flowinfo;
            (*sin6).sin6_addr = libc::in6_addr { s6_addr: a6 };
            (*sin6).sin6_scope_id = scope;
        }
        let name = unsafe { name.assume_init() };
        let Ok(SocketAddr::V6(got)) = decode_socket_addr(&name) else { panic!("AF_INET6 must decode to an IPv6 socket address") };
        assert!(got.ip().octets() == a6);
        assert!(got.port() == port);
        assert!(got.scope_id() == scope);
        assert!(got.flowinfo() == flowinfo);
        1
    } else {
        unsafe {
            let sin = name.as_mut_ptr() as *mut libc::sockaddr_in;
            (*sin).sin_family = libc::AF_INET as _;
            (*sin).sin_port = port.to_be();
            (*sin).sin_addr = libc::in_addr { s_addr: u32::from_ne_bytes(a4) };
        }
        let name = unsafe { name.assume_init() };
        let Ok(SocketAddr::V4(got)) = decode_socket_addr(&name) else { panic!("AF_INET must decode to an IPv4 socket address") };
        assert!(got.ip().octets() == a4);
        assert!(got.port() == port);
        2
    }
}

/// C19 ("the ECN codepoint ... conveyed", "control-message sizing"): the receive path hands the kernel
/// a control buffer of `cmsg::LEN` bytes.  For the options `UdpSocketState::new` enables on Linux
/// (SO_TIMESTAMPNS, UDP_GRO, IP_PKTINFO / IPV6_RECVPKTINFO, IP_RECVTOS / IPV6_RECVTCLASS) the kernel
/// attaches, in this order, a timestamp, the GRO segment size (coalesced batches only), the packet
/// info and the TOS / traffic class.  Every such set must fit - what does not fit is silently cut
/// off (MSG_CTRUNC), and the last message is the one that carries the ECN codepoint.  The set is
/// written with the crate's own `Encoder` (whose capacity assertion is the obligation) and read
/// back with `decode_recv`.
#[cfg(any(target_os = "linux", target_os = "android"))]
pub fn recv_ctrl_capacity(v6: bool, ts: bool, secs: i64, nsecs: u32, gro: bool, seg: u16, tos: u8, ifindex: u32, dst4: u32, port: u16, src: u32) -> u32 {
    if nsecs >= 1_000_000_000 || secs < 0 {
        return 0;
    }
    let mut ctrl = cmsg::Aligned([0u8; cmsg::LEN]);
    let mut hdr: libc::msghdr = unsafe { core::mem::zeroed() };
    hdr.msg_control = ctrl.0.as_mut_ptr() as _;
    hdr.msg_controllen = cmsg::LEN as _;
    {
        let mut enc = unsafe { cmsg::Encoder::new(&mut hdr) };
        if ts {
            enc.push(libc::SOL_SOCKET, libc::SCM_TIMESTAMPNS, libc::timespec { tv_sec: secs as _, tv_nsec: nsecs as _ });
        }
        if gro {
            enc.push(libc::SOL_UDP, libc::UDP_GRO, seg as libc::c_int);
        }
        if v6 {
            enc.push(libc::IPPROTO_IPV6, libc::IPV6_PKTINFO, libc::in6_pktinfo { ipi6_ifindex: ifindex as _, ipi6_addr: libc::in6_addr { s6_addr: [0; 16] } });
            enc.push(libc::IPPROTO_IPV6, libc::IPV6_TCLASS, tos as libc::c_int);
        } else {
            enc.push(libc::IPPROTO_IP, libc::IP_PKTINFO, libc::in_pktinfo { ipi_ifindex: ifindex as _, ipi_spec_dst: libc::in_addr { s_addr: 0 }, ipi_addr: libc::in_addr { s_addr: dst4 } });
            enc.push(libc::IPPROTO_IP, libc::IP_TOS, tos);
        }
        enc.finish();
    }
    let mut name = MaybeUninit::<libc::sockaddr_storage>::zeroed();
    unsafe {
        let sin = name.as_mut_ptr() as *mut libc::sockaddr_in;
        (*sin).sin_family = libc::AF_INET as _;
        (*sin).sin_port = port.to_be();
        (*sin).sin_addr = libc::in_addr { s_addr: src };
    }
    let Ok(meta) = decode_recv(&name, &hdr, 1200) else { panic!("AF_INET source address must decode") };
    assert!(meta.ecn == EcnCodepoint::from_bits(tos));
    assert!(meta.stride == if gro { seg as usize } else { 1200 });
    assert!(meta.timestamp.is_some() == ts);
    (if v6 { 1 } else { 2 }) | (if gro { 4 } else { 0 }) | (if ts { 8 } else { 0 })
}

static PAYLOAD: [u8; 64] = [0x5a; 64];

/// C19 ("whatever a transmit request describes ..."): the real `prepare_msg` on an arbitrary
/// `Transmit` (destination family, IPv4-mapped or not, ECN codepoint or none, payload of 1..=64 bytes,
/// any segment size, explicit IPv4 / IPv6 source address or none), read back with the crate's own
/// `cmsg::Iter` / `decode`: the message header names the destination and the payload, the traffic
/// class carries exactly the ECN bits, UDP_SEGMENT is present exactly when the payload is longer than
/// the segment size, and the packet info asks the kernel for exactly the requested source address
/// (`ipi_spec_dst` - the field Linux uses for source selection on send - resp. `ipi6_addr`).
#[cfg(any(target_os = "linux", target_os = "android"))]
pub fn prepare_msg_encoding(dst_v6: bool, mapped: bool, dst: [u8; 4], port: u16, ecn: u8, len: usize, has_seg: bool, seg: usize, src_kind: u8, src4: [u8; 4], src6: [u8; 16], einval: bool) -> u32 {
    if len == 0 || len > 64 || ecn > 3 || src_kind > 2 {
        return 0;
    }
    let destination = if !dst_v6 {
        SocketAddr::new(IpAddr::V4(std::net::Ipv4Addr::from(dst)), port)
    } else if mapped {
        SocketAddr::new(IpAddr::V6(std::net::Ipv4Addr::from(dst).to_ipv6_mapped()), port)
    } else {
        SocketAddr::new(IpAddr::V6(std::net::Ipv6Addr::new(0x2001, 0xdb8, 0, 0, 0, 0, dst[0] as u16, dst[1] as u16)), port)
    };
    let ecn_cp = match ecn { 0 => None, 1 => Some(EcnCodepoint::Ect1), 2 => Some(EcnCodepoint::Ect0), _ => Some(EcnCodepoint::Ce) };
    let src_ip = match src_kind { 0 => None, 1 => Some(IpAddr::V4(std::net::Ipv4Addr::from(src4))), _ => Some(IpAddr::V6(std::net::Ipv6Addr::from(src6))) };
    let transmit = Transmit { destination, ecn: ecn_cp, contents: &PAYLOAD[..len], segment_size: if has_seg { Some(seg) } else { None }, src_ip };
    let dst_addr = socket2::SockAddr::from(destination);
    let mut hdr: libc::msghdr = unsafe { core::mem::zeroed() };
    let mut iov: libc::iovec = unsafe { core::mem::zeroed() };
    let mut ctrl = cmsg::Aligned([0u8; cmsg::LEN]);
    prepare_msg(&transmit, &dst_addr, &mut hdr, &mut iov, &mut ctrl, true, einval);
    assert!(hdr.msg_name as *const u8 == dst_addr.as_ptr() as *const u8 && hdr.msg_namelen == dst_addr.len());
    assert!(hdr.msg_iovlen == 1 && iov.iov_len == len && iov.iov_base as *const u8 == PAYLOAD.as_ptr());
    let is_v4 = !dst_v6 || mapped;
    let want_tos = !(is_v4 && einval);
    let want_seg = has_seg && seg < len;
    let mut w = 1u32;
    let mut it = unsafe { cmsg::Iter::new(&hdr) };
    if want_tos {
        let c = it.next().expect("traffic class / TOS message missing");
        let v = if is_v4 {
            assert!(c.cmsg_level == libc::IPPROTO_IP && c.cmsg_type == libc::IP_TOS);
            unsafe { cmsg::decode::<IpTosTy, libc::cmsghdr>(c) as u8 }
        } else {
            assert!(c.cmsg_level == libc::IPPROTO_IPV6 && c.cmsg_type == libc::IPV6_TCLASS);
            unsafe { cmsg::decode::<libc::c_int, libc::cmsghdr>(c) as u8 }
        };
        assert!(EcnCodepoint::from_bits(v) == ecn_cp && v & !3 == 0);
        w |= 2;
    }
    if want_seg {
        let c = it.next().expect("UDP_SEGMENT message missing");
        assert!(c.cmsg_level == libc::SOL_UDP && c.cmsg_type == libc::UDP_SEGMENT);
        assert!(unsafe { cmsg::decode::<u16, libc::cmsghdr>(c) } as usize == seg);
        w |= 4;
    }
    match src_kind {
        1 => {
            let c = it.next().expect("IP_PKTINFO message missing");
            assert!(c.cmsg_level == libc::IPPROTO_IP && c.cmsg_type == libc::IP_PKTINFO);
            let p = unsafe { cmsg::decode::<libc::in_pktinfo, libc::cmsghdr>(c) };
            assert!(p.ipi_spec_dst.s_addr == u32::from_ne_bytes(src4), "requested IPv4 source address not in ipi_spec_dst");
            assert!(p.ipi_ifindex == 0);
            w |= 8;
        }
        2 => {
            let c = it.next().expect("IPV6_PKTINFO message missing");
            assert!(c.cmsg_level == libc::IPPROTO_IPV6 && c.cmsg_type == libc::IPV6_PKTINFO);
            let p = unsafe { cmsg::decode::<libc::in6_pktinfo, libc::cmsghdr>(c) };
            assert!(p.ipi6_addr.s6_addr == src6 && p.ipi6_ifindex == 0);
            w |= 16;
        }
        _ => {}
    }
    assert!(it.next().is_none());
    w
}

/// Native replay body of E2 query `e2_gso_probe_leaves_socket_clean` (C19): after a socket has been
/// set up (which probes for GSO support), the socket-wide UDP_SEGMENT option is off, so a transmit
/// without a UDP_SEGMENT control message is never cut into segments by the kernel.  Real socket.
#[cfg(any(target_os = "linux", target_os = "android"))]
pub fn gso_probe_native(_x: u8) -> u32 {
    use std::os::fd::AsRawFd;
    let sock = std::net::UdpSocket::bind("127.0.0.1:0").expect("loopback socket");
    let state = UdpSocketState::new((&sock).into()).expect("socket state");
    let mut val: libc::c_int = -1;
    let mut len = core::mem::size_of::<libc::c_int>() as libc::socklen_t;
    let rc = unsafe { libc::getsockopt(sock.as_raw_fd(), libc::SOL_UDP, libc::UDP_SEGMENT, &mut val as *mut _ as *mut _, &mut len) };
    if rc != 0 {
        // kernel without UDP_SEGMENT: nothing can have been left behind
        assert!(state.max_gso_segments() == 1);
        return 2;
    }
    assert!(val == 0, "socket-wide UDP_SEGMENT left at {} after the GSO probe", val);
    1
}
