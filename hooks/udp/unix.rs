// harness bodies compiled inside quinn-udp/src/unix.rs (feature __verif-hooks)
