// harness bodies compiled inside quinn-proto/src/transport_error.rs (feature __verif-hooks)
