// harness bodies compiled inside quinn-proto/src/token_memory_cache.rs (feature __verif-hooks)
