// harness bodies compiled inside quinn-proto/src/token_memory_cache.rs (feature __verif-hooks)

/// Native replay body for the E2 query `e2_token_cache_take` (C14), through the public `TokenStore`
/// interface of the real `TokenMemoryCache`: `n` tokens stored for one server come out at most once each,
/// oldest first, and then nothing; tokens of another server are not touched.
pub fn token_cache_take_native(n: u8) -> u32 {
    use crate::TokenStore;
    let cache = crate::TokenMemoryCache::new(4, 8);
    let n = n.min(8);
    for i in 0..n {
        cache.insert("a.example", Bytes::from(vec![i, 1, 2, 3]));
    }
    cache.insert("b.example", Bytes::from_static(b"other"));
    let mut seen: Vec<Bytes> = Vec::new();
    for i in 0..n {
        let t = cache.take("a.example").expect("a stored token is available");
        assert!(!seen.contains(&t), "the token store handed out the same token twice");
        assert!(t[0] == i, "tokens come out oldest first");
        seen.push(t);
    }
    assert!(cache.take("a.example").is_none(), "the token store handed out more tokens than were stored");
    assert!(cache.take("b.example").as_deref() == Some(&b"other"[..]));
    assert!(cache.take("b.example").is_none(), "the token store handed out the same token twice");
    1
}
