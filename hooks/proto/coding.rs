// harness bodies compiled inside quinn-proto/src/coding.rs (feature __verif-hooks)
