// Harness bodies for quinn-proto/src/shared.rs (ConnectionId).

/// C10: ConnectionId long-header form round-trip for every length 0..=20 and every content.
pub fn cid_long_roundtrip(bytes: [u8; 20], len: usize) -> u32 {
    if len > MAX_CID_SIZE {
        return 0;
    }
    let cid = ConnectionId::new(&bytes[..len]);
    assert!(cid.len() == len);
    let mut buf = [0u8; 21];
    let mut w = &mut buf[..];
    cid.encode_long(&mut w);
    let written = 21 - w.len();
    assert!(written == len + 1);
    assert!(buf[0] as usize == len);
    let mut r = &buf[..written];
    let Some(dec) = ConnectionId::decode_long(&mut r) else { panic!("decode_long failed") };
    assert!(r.is_empty());
    assert!(dec.len() == len);
    let mut i = 0;
    while i < len {
        assert!(dec[i] == bytes[i]);
        i += 1;
    }
    assert!(dec == cid);
    // truncated encodings are rejected
    if len > 0 {
        let mut r = &buf[..written - 1];
        assert!(ConnectionId::decode_long(&mut r).is_none());
    }
    1 | (if len == 0 { 2 } else { 0 }) | (if len == 20 { 4 } else { 0 })
}

/// C03/C10: decode_long is total on arbitrary bytes; Some only for an announced length <= 20
/// that is fully present, consuming exactly 1 + len bytes.
pub fn cid_decode_long_total(buf: [u8; 22], n: usize) -> u32 {
    if n > 22 {
        return 0;
    }
    let mut r = &buf[..n];
    match ConnectionId::decode_long(&mut r) {
        Some(c) => {
            assert!(n >= 1 && buf[0] as usize <= MAX_CID_SIZE && n >= 1 + buf[0] as usize);
            assert!(c.len() == buf[0] as usize);
            assert!(r.len() == n - 1 - c.len());
            1
        }
        None => {
            assert!(n == 0 || buf[0] as usize > MAX_CID_SIZE || n < 1 + buf[0] as usize);
            2
        }
    }
}
