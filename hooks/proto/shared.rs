// harness bodies compiled inside quinn-proto/src/shared.rs (feature __verif-hooks)
