// Harness bodies for quinn-proto/src/frame.rs.

const V62: u64 = 1 << 62;

static mut WIRE: [u8; 64] = [0; 64];

/// Wire bytes as a `Bytes` backed by static storage: no allocation, no reference counting, so
/// `frame::Iter` (which insists on `Bytes`) stays within reach of the SAT back end.
fn wire(buf: &[u8]) -> Bytes {
    assert!(buf.len() <= 64);
    unsafe {
        let w = &mut *core::ptr::addr_of_mut!(WIRE);
        w[..buf.len()].copy_from_slice(buf);
        Bytes::from_static(&w[..buf.len()])
    }
}

fn vi(x: u64) -> VarInt {
    unsafe { VarInt::from_u64_unchecked(x) }
}

/// C03.b: `scan_ack_blocks` + `AckIter` on arbitrary bytes: no panic for any buffer (<= 12 bytes),
/// any `largest` < 2^62 and up to 3 announced extra blocks; when the scan accepts, iterating the
/// accepted bytes cannot underflow, yields exactly n+1 descending, disjoint, non-adjacent ranges
/// at or below `largest`, and then ends.
pub fn ack_scan_and_iter(buf: [u8; 12], len: usize, largest: u64, n: u8, small: bool) -> u32 {
    if len > 12 || largest >= V62 || n > 3 {
        return 0;
    }
    if small {
        // one-byte varints only (every field < 64): all field positions are concrete.
        // (written without a loop: the harness unwind bound stays small, which matters because
        // every `Buf::copy_to_slice` in the decoders is a loop that CBMC unwinds to the bound)
        let b = &buf;
        if (b[0] | b[1] | b[2] | b[3] | b[4] | b[5] | b[6] | b[7] | b[8] | b[9] | b[10] | b[11]) >= 0x40 {
            return 0;
        }
    }
    let data = &buf[..len];
    let Ok(used) = scan_ack_blocks(data, largest, n as usize) else { return 2 };
    assert!(used <= len && used >= 1 + 2 * n as usize);
    let mut it = AckIter::new(largest, &data[..used]);
    let mut prev_start: Option<u64> = None;
    let mut count = 0u8;
    let mut k = 0;
    while k < 5 {
        k += 1;
        let Some(r) = it.next() else { break };
        let (s, e) = (*r.start(), *r.end());
        assert!(s <= e && e <= largest);
        if let Some(p) = prev_start {
            // gap of at least one unacknowledged packet between consecutive ranges
            assert!(e + 2 <= p);
        } else {
            assert!(e == largest);
        }
        prev_start = Some(s);
        count += 1;
    }
    assert!(count == n + 1);
    assert!(it.next().is_none());
    1 | (if n > 0 { 4 } else { 0 })
}

/// C10: ACK ranges written with the encoder's arithmetic (first block, then (gap, block) pairs)
/// are read back identically by scan_ack_blocks + AckIter, for up to 3 ranges anywhere below 2^62.
pub fn ack_blocks_roundtrip(largest: u64, first_len: u64, gap1: u64, len1: u64, gap2: u64, len2: u64, n: u8) -> u32 {
    if n > 2 || largest >= V62 || first_len >= V62 || gap1 >= V62 || len1 >= V62 || gap2 >= V62 || len2 >= V62 {
        return 0;
    }
    // ranges: [s0, largest], [s1, e1], [s2, e2] (inclusive), descending
    if first_len > largest {
        return 0;
    }
    let s0 = largest - first_len;
    let mut buf = [0u8; 48];
    let mut w = &mut buf[..];
    w.write_var(first_len);
    let mut expect = [(s0, largest), (0, 0), (0, 0)];
    let mut low = s0;
    if n >= 1 {
        if gap1 + 2 > low || len1 > low - gap1 - 2 {
            return 0;
        }
        let e1 = low - gap1 - 2;
        let s1 = e1 - len1;
        w.write_var(gap1);
        w.write_var(len1);
        expect[1] = (s1, e1);
        low = s1;
    }
    if n >= 2 {
        if gap2 + 2 > low || len2 > low - gap2 - 2 {
            return 0;
        }
        let e2 = low - gap2 - 2;
        let s2 = e2 - len2;
        w.write_var(gap2);
        w.write_var(len2);
        expect[2] = (s2, e2);
    }
    let written = 48 - w.len();
    let Ok(used) = scan_ack_blocks(&buf[..written], largest, n as usize) else { panic!("encoder output rejected by scan_ack_blocks") };
    assert!(used == written);
    let mut it = AckIter::new(largest, &buf[..used]);
    let mut i = 0;
    while i <= n as usize {
        let Some(r) = it.next() else { panic!("too few ranges") };
        assert!((*r.start(), *r.end()) == expect[i]);
        i += 1;
    }
    assert!(it.next().is_none());
    1 << n
}

/// Frame-type / flag packing.
pub fn stream_type_bits(ty: u64) -> u32 {
    let t = FrameType(ty);
    match (t.stream(), t.datagram()) {
        (Some(s), None) => {
            assert!((0x08..=0x0f).contains(&ty));
            assert!(s.fin() == (ty & 1 != 0) && s.len() == (ty & 2 != 0) && s.off() == (ty & 4 != 0));
            1
        }
        (None, Some(d)) => {
            assert!(ty == 0x30 || ty == 0x31);
            assert!(d.len() == (ty & 1 != 0));
            2
        }
        (None, None) => {
            assert!(!(0x08..=0x0f).contains(&ty) && ty != 0x30 && ty != 0x31);
            4
        }
        _ => panic!("a type cannot be both STREAM and DATAGRAM"),
    }
}

fn finish_one(mut it: Iter) {
    // nothing is left: the frame consumed exactly its encoding
    assert!(it.next().is_none());
    core::mem::forget(it);
}

/// C10: fixed-field frames: encode (with the real encoder where one exists, with the same
/// primitives the sender uses otherwise) -> `frame::Iter` yields the same frame and consumes
/// exactly the encoding.  `kind` is enumerated by the harness table (one obligation per frame type).
pub fn fixed_frame_roundtrip(kind: u8, a: u64, b: u64, c: u64, d: u64, small: bool) -> u32 {
    if a >= V62 || b >= V62 || c >= V62 || d >= V62 {
        return 0;
    }
    if small && (a >= 64 || b >= 64 || c >= 64 || d >= 64) {
        // one-byte varints only: all field positions are concrete
        return 0;
    }
    let mut buf = [0u8; 40];
    let mut w = &mut buf[..];
    match kind {
        0 => ResetStream { id: StreamId(a), error_code: vi(b), final_offset: vi(c) }.encode(&mut w),
        1 => StopSending { id: StreamId(a), error_code: vi(b) }.encode(&mut w),
        2 => { w.write(FrameType::MAX_DATA); w.write(vi(a)); }
        3 => { w.write(FrameType::MAX_STREAM_DATA); w.write(StreamId(a)); w.write_var(b); }
        4 => { w.write(if a & 1 == 0 { FrameType::MAX_STREAMS_BIDI } else { FrameType::MAX_STREAMS_UNI }); w.write_var(b); }
        5 => { w.write(FrameType::DATA_BLOCKED); w.write_var(a); }
        6 => { w.write(FrameType::STREAM_DATA_BLOCKED); w.write(StreamId(a)); w.write_var(b); }
        7 => { w.write(if a & 1 == 0 { FrameType::STREAMS_BLOCKED_BIDI } else { FrameType::STREAMS_BLOCKED_UNI }); w.write_var(b); }
        8 => { w.write(FrameType::RETIRE_CONNECTION_ID); w.write_var(a); }
        9 => { w.write(if b & 1 == 0 { FrameType::PATH_CHALLENGE } else { FrameType::PATH_RESPONSE }); w.write(a | (c << 62)); }
        10 => AckFrequency { sequence: vi(a), ack_eliciting_threshold: vi(b), request_max_ack_delay: vi(c), reordering_threshold: vi(d) }.encode(&mut w),
        11 => { w.write(match a % 4 { 0 => FrameType::PADDING, 1 => FrameType::PING, 2 => FrameType::IMMEDIATE_ACK, _ => FrameType::HANDSHAKE_DONE }); }
        _ => return 0,
    }
    let n = 40 - w.len();
    let Ok(mut it) = Iter::new(wire(&buf[..n])) else { panic!("non-empty payload rejected") };
    let Some(Ok(fr)) = it.next() else { panic!("encoder output rejected by frame::Iter") };
    let ok = match (kind, &fr) {
        (0, Frame::ResetStream(x)) => x.id == StreamId(a) && x.error_code == vi(b) && x.final_offset == vi(c),
        (1, Frame::StopSending(x)) => x.id == StreamId(a) && x.error_code == vi(b),
        (2, Frame::MaxData(x)) => *x == vi(a),
        (3, Frame::MaxStreamData { id, offset }) => *id == StreamId(a) && *offset == b,
        (4, Frame::MaxStreams { dir, count }) => (*dir == if a & 1 == 0 { Dir::Bi } else { Dir::Uni }) && *count == b,
        (5, Frame::DataBlocked { offset }) => *offset == a,
        (6, Frame::StreamDataBlocked { id, offset }) => *id == StreamId(a) && *offset == b,
        (7, Frame::StreamsBlocked { dir, limit }) => (*dir == if a & 1 == 0 { Dir::Bi } else { Dir::Uni }) && *limit == b,
        (8, Frame::RetireConnectionId { sequence }) => *sequence == a,
        (9, Frame::PathChallenge(x)) => b & 1 == 0 && *x == a | (c << 62),
        (9, Frame::PathResponse(x)) => b & 1 == 1 && *x == a | (c << 62),
        (10, Frame::AckFrequency(x)) => x.sequence == vi(a) && x.ack_eliciting_threshold == vi(b) && x.request_max_ack_delay == vi(c) && x.reordering_threshold == vi(d),
        (11, Frame::Padding) => a % 4 == 0,
        (11, Frame::Ping) => a % 4 == 1,
        (11, Frame::ImmediateAck) => a % 4 == 2,
        (11, Frame::HandshakeDone) => a % 4 == 3,
        _ => false,
    };
    assert!(ok);
    // the frame type reported for the decoded frame is the one on the wire
    assert!(fr.ty().0 == buf[0] as u64 || kind == 10);
    core::mem::forget(fr);
    finish_one(it);
    1
}

/// Native replay body of E2 query e2_frame_field_order: the round trip above for every fixed-layout
/// frame kind over a handful of field values with pairwise distinct fields (loops: native only).
pub fn fixed_frame_roundtrip_sweep(salt: u64) -> u32 {
    let s = salt & 0xf;
    for kind in 0..12u8 {
        for (a, b) in [(0x11u64, 0x22u64), (0x10, 0x23), (0x02, 0x01), (0x03, 0x00)] {
            fixed_frame_roundtrip(kind, a ^ (s & 0xe), b, if kind == 9 { 1 } else { 0x33 }, 0x3c, true);
        }
        fixed_frame_roundtrip(kind, 0x3f_ffff_ff11, 0x1234 + s, if kind == 9 { 1 } else { 0x7 }, 0x3f00_0000_0000_0001, false);
    }
    1
}

/// C10 / C03.g: NEW_CONNECTION_ID round-trip for every CID length 1..=20 and every content.
pub fn new_cid_roundtrip(sequence: u64, retire_prior_to: u64, cid: [u8; 20], len: usize, token: [u8; 16]) -> u32 {
    if sequence >= V62 || retire_prior_to > sequence || len == 0 || len > 20 {
        return 0;
    }
    let f = NewConnectionId { sequence, retire_prior_to, id: ConnectionId::new(&cid[..len]), reset_token: ResetToken::from(token) };
    let mut buf = [0u8; 64];
    let mut w = &mut buf[..];
    f.encode(&mut w);
    let n = 64 - w.len();
    assert!(n <= NewConnectionId::SIZE_BOUND);
    let Ok(mut it) = Iter::new(wire(&buf[..n])) else { panic!("rejected") };
    let Some(Ok(Frame::NewConnectionId(g))) = it.next() else { panic!("NEW_CONNECTION_ID did not round-trip") };
    assert!(g.sequence == sequence && g.retire_prior_to == retire_prior_to);
    assert!(g.id.len() == len);
    let mut i = 0;
    while i < len {
        assert!(g.id[i] == cid[i]);
        i += 1;
    }
    let mut i = 0;
    while i < 16 {
        assert!(g.reset_token[i] == token[i]);
        i += 1;
    }
    finish_one(it);
    1 | (if len == 20 { 2 } else { 0 })
}

/// C10 / C01.f: STREAM frame metadata round-trip: `StreamMeta::encode` + payload -> `frame::Iter`
/// for every (id, offset, fin), both length modes, payload <= 4 bytes.
pub fn stream_roundtrip(id: u64, offset: u64, fin: bool, length: bool, data: [u8; 4], len: usize) -> u32 {
    if id >= V62 || offset >= V62 - 4 || len > 4 {
        return 0;
    }
    let meta = StreamMeta { id: StreamId(id), offsets: offset..offset + len as u64, fin };
    let mut buf = [0u8; 40];
    let mut w = &mut buf[..];
    meta.encode(length, &mut w);
    w.put_slice(&data[..len]);
    let n = 40 - w.len();
    assert!(n <= Stream::SIZE_BOUND + len);
    let Ok(mut it) = Iter::new(wire(&buf[..n])) else { panic!("rejected") };
    let Some(Ok(Frame::Stream(s))) = it.next() else { panic!("STREAM did not round-trip") };
    assert!(s.id == StreamId(id) && s.offset == offset && s.fin == fin);
    assert!(s.data.len() == len);
    let mut i = 0;
    while i < len {
        assert!(s.data[i] == data[i]);
        i += 1;
    }
    // frame type bits agree with the content
    let ty = Frame::Stream(Stream { id: s.id, offset: s.offset, fin: s.fin, data: Bytes::new() }).ty().0;
    assert!(ty & 1 == fin as u64 && (ty & 4 != 0) == (offset != 0));
    core::mem::forget(s);
    finish_one(it);
    1 | (if length { 2 } else { 4 }) | (if offset == 0 { 8 } else { 0 })
}

/// C03.c: one step of `frame::Iter` on ARBITRARY bytes after a fixed first byte (frame type):
/// never panics, always yields Some, and strictly fewer bytes remain afterwards (so iterating any
/// payload terminates); after an error nothing remains.
pub fn iter_step_total(first: u8, rest: [u8; 11], len: usize, small: bool) -> u32 {
    if len == 0 || len > 12 {
        return 0;
    }
    if small {
        // every following varint is a one-byte varint (< 64): field positions are concrete
        let b = &rest;
        if (b[0] | b[1] | b[2] | b[3] | b[4] | b[5] | b[6] | b[7] | b[8] | b[9] | b[10]) >= 0x40 {
            return 0;
        }
    }
    let mut buf = [0u8; 12];
    buf[0] = first;
    buf[1..].copy_from_slice(&rest);
    let Ok(mut it) = Iter::new(wire(&buf[..len])) else { panic!("non-empty payload rejected") };
    let before = it.bytes.len();
    let r = it.next();
    let Some(r) = r else { panic!("Iter::next returned None on a non-empty payload") };
    let after = it.bytes.len();
    assert!(after < before);
    let f = match &r {
        Ok(fr) => {
            let _ = fr.is_ack_eliciting();
            1
        }
        Err(_) => {
            assert!(after == 0);
            assert!(it.next().is_none());
            2
        }
    };
    core::mem::forget(r);
    core::mem::forget(it);
    f
}

// NOTE: a Kani obligation over ApplicationClose / ConnectionClose::encode with symbolic reason length and room did not
// finish within the quick cap (Vec + Bytes with symbolic lengths); the budget arithmetic is decided by the E2 query
// e2_application_close_encode_budget over the MIR instead.

/// Native replay body for the E2 query `e2_application_close_encode_budget` (C13 / C10): the real
/// `ApplicationClose::encode` with an error code, a reason of `reason_len` bytes and `max_len` bytes of room
/// (at least 26, as at the call site in `poll_transmit`) writes at most `max_len` bytes, and what it writes
/// decodes to the same code and a prefix of the reason.
pub fn close_encode_budget_native(code: u64, reason_len: u16, max_len: u16) -> u32 {
    if code >= V62 || max_len < 26 {
        return 0;
    }
    let reason = Bytes::from(vec![0x61u8; reason_len as usize]);
    let mut out: Vec<u8> = Vec::new();
    ApplicationClose { error_code: vi(code), reason: reason.clone() }.encode(&mut out, max_len as usize);
    assert!(out.len() <= max_len as usize, "APPLICATION_CLOSE of {} bytes written into {} bytes of room", out.len(), max_len);
    let mut it = Iter::new(Bytes::from(out)).ok().expect("non-empty payload");
    match it.next() {
        Some(Ok(Frame::Close(Close::Application(x)))) => {
            assert!(x.error_code == vi(code), "error code changed in transit");
            assert!(x.reason.len() <= reason.len() && x.reason[..] == reason[..x.reason.len()], "reason is not a prefix of the original");
        }
        _ => panic!("the encoder's own output does not decode as APPLICATION_CLOSE"),
    }
    1
}
