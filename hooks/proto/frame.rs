// harness bodies compiled inside quinn-proto/src/frame.rs (feature __verif-hooks)
