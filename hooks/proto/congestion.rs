pub use super::bbr::verif as bbr;
pub use super::cubic::verif as cubic;
pub use super::new_reno::verif as new_reno;
