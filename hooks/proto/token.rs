// Harness bodies for quinn-proto/src/token.rs.

use std::sync::Arc;

/// Identity-plus-tag AEAD stand-in: `seal` appends one tag byte derived from the nonce, `open`
/// accepts exactly what `seal` produced under the same nonce (the AEAD authenticity assumption).
struct TagKey(u8);

impl crate::crypto::AeadKey for TagKey {
    fn seal(&self, data: &mut Vec<u8>, _aad: &[u8]) -> Result<(), crate::crypto::CryptoError> {
        data.push(self.0 ^ 0xa5);
        Ok(())
    }
    fn open<'a>(&self, data: &'a mut [u8], _aad: &[u8]) -> Result<&'a mut [u8], crate::crypto::CryptoError> {
        let n = data.len();
        if n == 0 || data[n - 1] != self.0 ^ 0xa5 {
            return Err(crate::crypto::CryptoError);
        }
        Ok(&mut data[..n - 1])
    }
}

pub struct TagTokenKey;

impl HandshakeTokenKey for TagTokenKey {
    fn aead_from_hkdf(&self, random_bytes: &[u8]) -> Box<dyn crate::crypto::AeadKey> {
        Box::new(TagKey(random_bytes.first().copied().unwrap_or(0)))
    }
}

struct NoCrypto;

impl crate::crypto::ServerConfig for NoCrypto {
    fn initial_keys(&self, _: u32, _: ConnectionId) -> Result<crate::crypto::Keys, crate::crypto::UnsupportedVersion> {
        Err(crate::crypto::UnsupportedVersion)
    }
    fn retry_tag(&self, _: u32, _: ConnectionId, _: &[u8]) -> [u8; 16] {
        [0; 16]
    }
    fn start_session(self: Arc<Self>, _: u32, _: &crate::transport_parameters::TransportParameters) -> Box<dyn crate::crypto::Session> {
        unimplemented!()
    }
}

pub struct FixedTime(pub SystemTime);

impl crate::TimeSource for FixedTime {
    fn now(&self) -> SystemTime {
        self.0
    }
}

struct FixedLog(bool, std::sync::Mutex<Vec<(u128, SystemTime, Duration)>>);

impl TokenLog for FixedLog {
    fn check_and_insert(&self, nonce: u128, issued: SystemTime, lifetime: Duration) -> Result<(), TokenReuseError> {
        self.1.lock().unwrap().push((nonce, issued, lifetime));
        if self.0 { Ok(()) } else { Err(TokenReuseError) }
    }
}

/// Native replay body for the E2 query `e2_token_from_header` (C14): a genuine token (sealed with
/// the server's key) presented from `same_addr`/`same_port` at `age` seconds after issue with
/// the given lifetimes and reuse-log verdict.  `validated` must hold exactly when the token binds
/// this address (and port for Retry tokens), is within its lifetime and - NEW_TOKEN tokens - the
/// log accepted it; a stale or misplaced Retry token is an error; anything else is "no token".
pub fn from_header_native(retry: bool, same_ip: bool, same_port: bool, age: u16, lifetime: u16, log_ok: bool, corrupt: bool) -> u32 {
    let issued = UNIX_EPOCH + Duration::from_secs(1_000_000);
    let issue_addr: SocketAddr = "10.0.0.1:4433".parse().unwrap();
    let present_addr: SocketAddr = match (same_ip, same_port) {
        (true, true) => issue_addr,
        (true, false) => "10.0.0.1:5555".parse().unwrap(),
        (false, true) => "10.0.0.2:4433".parse().unwrap(),
        (false, false) => "10.0.0.2:5555".parse().unwrap(),
    };
    let odcid = ConnectionId::new(&[9; 8]);
    let payload = if retry {
        TokenPayload::Retry { address: issue_addr, orig_dst_cid: odcid, issued }
    } else {
        TokenPayload::Validation { ip: issue_addr.ip(), issued }
    };
    let token = Token { payload, nonce: 0x1234_5678_9abc_def0_1122_3344_5566_7788 };
    let mut bytes = token.encode(&TagTokenKey);
    if corrupt {
        let n = bytes.len();
        bytes[n - 17] ^= 1; // the tag byte
    }
    let mut cfg = ServerConfig::new(Arc::new(NoCrypto), Arc::new(TagTokenKey));
    cfg.retry_token_lifetime = Duration::from_secs(if retry { lifetime as u64 } else { 1 << 30 });
    cfg.validation_token.lifetime = Duration::from_secs(if retry { 1 << 30 } else { lifetime as u64 });
    let log = Arc::new(FixedLog(log_ok, std::sync::Mutex::new(Vec::new())));
    cfg.validation_token.log = log.clone();
    cfg.time_source = Arc::new(FixedTime(issued + Duration::from_secs(age as u64)));
    let dst_cid = ConnectionId::new(&[4; 8]);
    let header = InitialHeader { dst_cid, src_cid: ConnectionId::new(&[5; 8]), token: Bytes::from(bytes), number: crate::packet::PacketNumber::U8(0), version: 1 };
    let r = IncomingToken::from_header(&header, &cfg, present_addr);
    let fresh = age <= lifetime;
    if corrupt {
        let Ok(t) = r else { panic!("an unauthentic token must be treated as absent, not as an error") };
        assert!(!t.validated && t.retry_src_cid.is_none() && t.orig_dst_cid == dst_cid);
        return 8;
    }
    if retry {
        if same_ip && same_port && fresh {
            let Ok(t) = r else { panic!("valid retry token rejected") };
            assert!(t.validated && t.retry_src_cid == Some(dst_cid) && t.orig_dst_cid == odcid);
            1
        } else {
            assert!(r.is_err(), "stale or misplaced Retry token must end the attempt with INVALID_TOKEN");
            2
        }
    } else {
        let Ok(t) = r else { panic!("NEW_TOKEN tokens never produce an error") };
        // the reuse log is keyed by the token's own nonce, issue time and the configured lifetime
        for q in log.1.lock().unwrap().iter() {
            assert!(q.0 == 0x1234_5678_9abc_def0_1122_3344_5566_7788, "reuse log consulted with a nonce that is not the token's");
            assert!(q.1 == issued, "reuse log consulted with a time that is not the token's issue time");
            assert!(q.2 == Duration::from_secs(lifetime as u64), "reuse log consulted with a lifetime that is not the configured one");
        }
        assert!(t.validated == (same_ip && fresh && log_ok), "validated must mean: issued to this IP, within lifetime, not used before");
        assert!(t.retry_src_cid.is_none() && t.orig_dst_cid == dst_cid);
        4
    }
}

/// Native replay body for the E2 query `e2_bloom_filter_check_and_insert` (C14), through the public
/// `TokenLog` interface of the real `BloomTokenLog` with a small memory budget (so that the hash set is
/// converted to a bloom filter after a few dozen tokens): `n` distinct tokens expiring in one period are
/// presented once, then every one of them a second time.  No token may be accepted twice (a bloom filter
/// has false positives, never false negatives).  Only built when quinn-proto's `bloom` feature is on (the
/// replay workspace turns it on; the Kani workspace does not use this body).
pub fn bloom_replay_native(n: u16, budget: u16) -> u32 {
    #[cfg(feature = "bloom")]
    {
        let log = crate::BloomTokenLog::new_expected_items(budget as usize, 100);
        let issued = UNIX_EPOCH + Duration::from_secs(1_000_000);
        let lifetime = Duration::from_secs(3600);
        let nonce = |i: u16| 0x9e37_79b9_7f4a_7c15_u128.wrapping_mul(i as u128 + 1);
        let mut accepted = Vec::new();
        for i in 0..n {
            if log.check_and_insert(nonce(i), issued, lifetime).is_ok() {
                accepted.push(i);
            }
        }
        assert!(n == 0 || !accepted.is_empty(), "no token at all was accepted");
        let again = accepted.iter().filter(|&&i| log.check_and_insert(nonce(i), issued, lifetime).is_ok()).count();
        assert!(again == 0, "{} of {} already-used tokens were accepted a second time", again, accepted.len());
        1
    }
    #[cfg(not(feature = "bloom"))]
    {
        let _ = (n, budget);
        0
    }
}

/// Native replay body for the E2 query `e2_bloom_period_index` (C14), through the public `TokenLog` interface of
/// the real `BloomTokenLog` with a token lifetime that is not a whole number of seconds (2.5 s): token A (issued
/// at t0) is used, token B (issued 4 s later) is used, then B is presented again - and must be refused, as must
/// every replay in a longer mixed history.
pub fn bloom_fractional_lifetime_native(_x: u8) -> u32 {
    #[cfg(feature = "bloom")]
    {
        let lifetime = Duration::from_millis(2500);
        let t0 = UNIX_EPOCH + Duration::from_secs(1_000_000);
        let log = crate::BloomTokenLog::default();
        assert!(log.check_and_insert(1, t0, lifetime).is_ok());
        assert!(log.check_and_insert(2, t0 + Duration::from_secs(4), lifetime).is_ok());
        assert!(log.check_and_insert(2, t0 + Duration::from_secs(4), lifetime).is_err(), "a token was accepted a second time (lifetime 2.5 s)");
        // a longer history on a monotone clock: every accepted nonce is refused when it comes back while still valid
        let log = crate::BloomTokenLog::default();
        let mut accepted: Vec<(u128, SystemTime)> = Vec::new();
        for i in 0..200u64 {
            let issued = t0 + Duration::from_millis(700 * i);
            let nonce = 1000 + i as u128;
            if log.check_and_insert(nonce, issued, lifetime).is_ok() {
                accepted.push((nonce, issued));
            }
            // replay the most recent accepted tokens that have not expired relative to this token's issue time
            for (n, at) in accepted.iter().rev().take(3) {
                if *at + lifetime > issued {
                    assert!(log.check_and_insert(*n, *at, lifetime).is_err(), "token {} accepted twice", n);
                }
            }
        }
        1
    }
    #[cfg(not(feature = "bloom"))]
    {
        0
    }
}

/// C10 / C14: the address inside a token survives encoding: `decode_ip(encode_ip(ip)) == ip` for every IPv4
/// and IPv6 address - IPv4-mapped IPv6 addresses included, which a dual-stack server sees for IPv4 clients and
/// compares with `==` when the token comes back.
pub fn ip_roundtrip(v6: bool, bytes: [u8; 16]) -> u32 {
    let ip = if v6 { IpAddr::V6(std::net::Ipv6Addr::from(bytes)) } else { IpAddr::V4(std::net::Ipv4Addr::new(bytes[0], bytes[1], bytes[2], bytes[3])) };
    let mut buf: Vec<u8> = Vec::with_capacity(32);
    encode_ip(&mut buf, ip);
    let mut r = &buf[..];
    let back = decode_ip(&mut r);
    assert!(back == Some(ip), "the address read back from a token is not the address written into it");
    assert!(r.is_empty());
    core::mem::forget(buf);
    if v6 { 2 } else { 1 }
}
