// harness bodies compiled inside quinn-proto/src/token.rs (feature __verif-hooks)
