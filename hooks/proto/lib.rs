// Re-export chain: makes every per-module `verif` hook reachable as
// `quinn_proto::verif::<module>` from the harness and replay crates.
pub use crate::cid_generator::verif as cid_generator;
pub use crate::cid_queue::verif as cid_queue;
pub use crate::coding::verif as coding;
pub use crate::config::verif as config;
pub use crate::congestion::verif as congestion;
pub use crate::connection::verif as connection;
pub use crate::constant_time::verif as constant_time;
pub use crate::endpoint::verif as endpoint;
pub use crate::frame::verif as frame;
pub use crate::packet::verif as packet;
pub use crate::range_set::verif as range_set;
pub use crate::shared::verif as shared;
pub use crate::token::verif as token;
pub use crate::token_memory_cache::verif as token_memory_cache;
pub use crate::transport_error::verif as transport_error;
pub use crate::transport_parameters::verif as transport_parameters;
pub use crate::varint::verif as varint;

/// Symbolic `Instant`: the harness passes (secs, nanos) and the body rebuilds the
/// `Instant` the same way under Kani and natively.  On Linux `Instant` is a
/// `Timespec { tv_sec: i64, tv_nsec: u32 (niche: < 1_000_000_000) }`.
pub fn mk_instant(secs: u32, nanos: u32) -> Option<Instant> {
    if nanos >= 1_000_000_000 {
        return None;
    }
    // Base chosen so that base + any u32 seconds never overflows and subtraction of
    // any Duration < 2^33 s stays representable.
    let base: (i64, u32) = (1i64 << 40, 0);
    let t: (i64, u32) = (base.0 + secs as i64, nanos);
    // SAFETY: layout of std::time::Instant on unix is Timespec{tv_sec:i64,tv_nsec:Nanoseconds(u32)}
    // (16 bytes, tv_sec first); nanos < 1e9 keeps the niche invariant.
    const _: () = assert!(core::mem::size_of::<Instant>() == 16);
    Some(unsafe { core::mem::transmute::<(i64, u32), Instant>(t) })
}
