// Harness bodies for quinn-proto/src/congestion/cubic.rs.

const V62: u64 = 1 << 62;

/// C12.a: Cubic loss / spurious-loss / MTU events and slow-start acks from any state with
/// window >= 2 * mtu (and the saved pre-congestion state, if any, likewise): afterwards
/// window() >= 2 * current_mtu.  The congestion-avoidance branch of on_ack (f64 cbrt / powi) is
/// outside the claim; it can only grow the window.
pub fn step(window: u64, ssthresh: u64, cwnd_inc: u64, mtu: u16, has_rec: bool, recovery_secs: u32, w_max_q: u32,
            has_prior: bool, prior_window: u64, op: u8, now_secs: u32, sent_secs: u32, bytes: u32, persistent: bool, ecn: bool, new_mtu: u16) -> u32 {
    if mtu < 1200 || new_mtu < 1200 || window >= 1 << 40 || window < 2 * mtu as u64 || cwnd_inc >= 1 << 40 || op > 3 {
        return 0;
    }
    // a saved state was a live state when it was saved (its mtu was not larger than the current one
    // unless the window was raised with it): reachable saved windows satisfy the same bound
    if has_prior && (prior_window >= 1 << 40 || prior_window < 2 * 1200) {
        return 0;
    }
    let (Some(now), Some(sent), Some(rec)) = (crate::verif::mk_instant(now_secs, 0), crate::verif::mk_instant(sent_secs, 0), crate::verif::mk_instant(recovery_secs, 0)) else { return 0 };
    let mk = |w: u64| State { k: 0.0, w_max: w_max_q as f64, cwnd_inc, window: w, ssthresh, recovery_start_time: if has_rec { Some(rec) } else { None } };
    let mut c = Cubic {
        config: Arc::new(CubicConfig::default()),
        current_mtu: mtu as u64,
        state: mk(window),
        pre_congestion_state: if has_prior { Some(mk(prior_window)) } else { None },
    };
    let rtt = RttEstimator::new(Duration::from_millis(100));
    let f;
    match op {
        0 => {
            // slow start only
            if !(window < ssthresh) {
                core::mem::forget(c);
                return 0;
            }
            c.on_ack(now, sent, bytes as u64, false, &rtt);
            assert!(c.state.window >= window);
            f = 1;
        }
        1 => {
            c.on_congestion_event(now, sent, persistent, ecn, bytes as u64);
            let ignored = has_rec && sent_secs <= recovery_secs;
            if ignored {
                assert!(c.state.window == window);
            } else {
                assert!(c.state.window <= window);
                assert!(c.state.ssthresh >= 2 * mtu as u64);
                if persistent {
                    assert!(c.state.window == 2 * mtu as u64);
                }
                if !ecn {
                    assert!(matches!(&c.pre_congestion_state, Some(p) if p.window == window));
                }
            }
            f = 2;
        }
        2 => {
            c.on_mtu_update(new_mtu);
            assert!(c.state.window == window.max(2 * new_mtu as u64));
            f = 4;
        }
        _ => {
            c.on_spurious_congestion_event();
            assert!(c.pre_congestion_state.is_none());
            assert!(c.state.window >= window);
            if has_prior && prior_window > window {
                assert!(c.state.window == prior_window);
            }
            f = 8;
        }
    }
    assert!(c.window() >= 2 * c.current_mtu);
    core::mem::forget(c);
    f
}
