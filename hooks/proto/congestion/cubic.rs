// harness bodies compiled inside quinn-proto/src/congestion/cubic.rs (feature __verif-hooks)
