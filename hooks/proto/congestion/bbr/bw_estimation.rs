// harness bodies compiled inside quinn-proto/src/congestion/bbr/bw_estimation.rs (feature __verif-hooks)
