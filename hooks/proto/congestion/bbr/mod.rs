pub use super::bw_estimation::verif as bw_estimation;
pub use super::min_max::verif as min_max;

/// Bbr with arbitrary window bookkeeping (bandwidth filters empty).
fn mk_bbr(initial_window: u64, mtu: u16, mode: u8, rec: u8, cwnd: u64, recovery_window: u64) -> Bbr {
    let current_mtu = mtu as u64;
    Bbr {
        config: Arc::new(BbrConfig { initial_window }),
        current_mtu,
        max_bandwidth: BandwidthEstimation::default(),
        acked_bytes: 0,
        mode: match mode { 0 => Mode::Startup, 1 => Mode::Drain, _ => Mode::ProbeBw },
        loss_state: Default::default(),
        recovery_state: match rec { 0 => RecoveryState::NotInRecovery, 1 => RecoveryState::Conservation, _ => RecoveryState::Growth },
        recovery_window,
        is_at_full_bandwidth: mode != 0,
        pacing_gain: K_DEFAULT_HIGH_GAIN,
        high_gain: K_DEFAULT_HIGH_GAIN,
        drain_gain: 1.0 / K_DEFAULT_HIGH_GAIN,
        cwnd_gain: K_DEFAULT_HIGH_GAIN,
        high_cwnd_gain: K_DEFAULT_HIGH_GAIN,
        last_cycle_start: None,
        current_cycle_offset: 0,
        init_cwnd: initial_window.max(calculate_min_window(current_mtu)),
        min_cwnd: calculate_min_window(current_mtu),
        prev_in_flight_count: 0,
        exit_probe_rtt_at: None,
        probe_rtt_last_started_at: None,
        min_rtt: Default::default(),
        exiting_quiescence: false,
        pacing_rate: 0,
        max_acked_packet_number: 0,
        max_sent_packet_number: 0,
        end_recovery_at_packet_number: 0,
        cwnd,
        current_round_trip_end_packet_number: 0,
        round_count: 0,
        bw_at_last_round: 0,
        round_wo_bw_gain: 0,
        ack_aggregation: AckAggregationState::default(),
        random_number_generator: Pcg32::new(1, 1),
    }
}

/// Invariant of Bbr between controller calls: cwnd >= min_cwnd = 4 * mtu, and while in recovery
/// the recovery window has been initialised (>= min_cwnd) by the same `on_end_acks` that entered it.
fn bbr_inv(mtu: u16, rec: u8, cwnd: u64, recovery_window: u64) -> bool {
    mtu >= 1200 && cwnd >= 4 * mtu as u64 && (rec == 0 || recovery_window >= 4 * mtu as u64)
}

/// C12.a: Bbr window lower bound across an MTU update and a recovery-window recalculation, from
/// any state (modes Startup / Drain / ProbeBw) satisfying the invariant.
/// op 0: on_mtu_update(new_mtu)   op 1: calculate_recovery_window(acked, lost, in_flight)
pub fn window_step(initial_window: u64, mtu: u16, mode: u8, rec: u8, cwnd: u64, recovery_window: u64, op: u8, new_mtu: u16, acked: u32, lost: u32, in_flight: u32) -> u32 {
    if !bbr_inv(mtu, rec, cwnd, recovery_window) || cwnd >= 1 << 62 || recovery_window >= 1 << 62 || mode > 2 || rec > 2 || op > 1 || new_mtu < 1200 || initial_window >= 1 << 62 {
        return 0;
    }
    let mut b = mk_bbr(initial_window, mtu, mode, rec, cwnd, recovery_window);
    assert!(b.window() >= 2 * b.current_mtu);
    let f;
    if op == 0 {
        b.on_mtu_update(new_mtu);
        assert!(b.current_mtu == new_mtu as u64 && b.min_cwnd == 4 * new_mtu as u64);
        assert!(b.cwnd >= b.min_cwnd);
        f = 1 | (if rec != 0 && mode != 0 { 4 } else { 0 });
    } else {
        b.calculate_recovery_window(acked as u64, lost as u64, in_flight as u64);
        if rec != 0 {
            assert!(b.recovery_window >= b.min_cwnd);
            assert!(b.recovery_window >= in_flight as u64 + acked as u64);
        } else {
            assert!(b.recovery_window == recovery_window);
        }
        f = 2;
    }
    // the property: never report less than two datagrams
    assert!(b.window() >= 2 * b.current_mtu);
    // and the invariant is re-established for the next call
    assert!(bbr_inv(b.current_mtu as u16, rec, b.cwnd, b.recovery_window));
    core::mem::forget(b);
    f
}

/// C12 history demonstration through the `Controller` trait only (native replay; `Bbr::new` uses
/// the thread-local RNG, which Kani cannot compile): start a transfer, lose a packet while still
/// in Startup, finish the round without bandwidth growth so that Bbr leaves Startup while in
/// recovery, then let MTU discovery confirm a much larger MTU.  Returns
/// (window reported, 2 * mtu) right after `on_mtu_update`.
pub fn history_recovery_then_mtu_update(new_mtu: u16) -> (u64, u64, bool) {
    let t0 = crate::verif::mk_instant(10, 0).unwrap();
    let ms = |n: u64| t0 + Duration::from_millis(n);
    let mut b = Bbr::new(Arc::new(BbrConfig::default()), 1200);
    let c: &mut dyn Controller = &mut b;
    let rtt = RttEstimator::new(Duration::from_millis(50));
    let mut pn = 0u64;
    let mut acked = 0u64;
    let mut now_ms = 0u64;
    // a few lossless rounds
    for _ in 0..3 {
        for _ in 0..10 {
            c.on_sent(ms(now_ms), 1200, pn);
            pn += 1;
            now_ms += 1;
        }
        now_ms += 50;
        for _ in 0..10 {
            c.on_ack(ms(now_ms), ms(now_ms - 50), 1200, false, &rtt);
            now_ms += 1;
        }
        acked = pn - 1;
        c.on_end_acks(ms(now_ms), 0, false, Some(acked));
    }
    // rounds with a loss each and no bandwidth growth
    for _ in 0..4 {
        for _ in 0..10 {
            c.on_sent(ms(now_ms), 1200, pn);
            pn += 1;
            now_ms += 1;
        }
        now_ms += 50;
        // heavy loss: nine of ten packets lost, one acknowledged, nothing left in flight
        c.on_congestion_event(ms(now_ms), ms(now_ms - 50), false, false, 9 * 1200);
        c.on_ack(ms(now_ms), ms(now_ms - 50), 1200, false, &rtt);
        now_ms += 1;
        acked = pn - 1;
        c.on_end_acks(ms(now_ms), 0, false, Some(acked));
    }
    let _ = acked;
    let before_ok = c.window() >= 2 * 1200;
    c.on_mtu_update(new_mtu);
    let w = c.window();
    let limited_by_recovery = b.recovery_state.in_recovery() && b.mode != Mode::Startup && b.mode != Mode::ProbeRtt;
    assert!(before_ok);
    (w, 2 * new_mtu as u64, limited_by_recovery)
}

/// Native replay body for the E2 query `e2_bbr_new_window_floor` (C12): a real `Bbr` controller built through
/// the public configuration API with the given initial window and MTU reports at least two datagrams at once.
pub fn new_window_native(initial_window: u32, mtu: u16) -> u32 {
    let mut cfg = BbrConfig::default();
    cfg.initial_window(initial_window as u64);
    let c = Bbr::new(Arc::new(cfg), mtu.max(1200));
    let w = c.window();
    assert!(w >= 2 * mtu.max(1200) as u64, "a new Bbr controller reports a window of {} bytes with an MTU of {}", w, mtu.max(1200));
    1
}
