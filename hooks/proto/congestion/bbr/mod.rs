pub use super::bw_estimation::verif as bw_estimation;
pub use super::min_max::verif as min_max;
