// harness bodies compiled inside quinn-proto/src/congestion/bbr/min_max.rs (feature __verif-hooks)
