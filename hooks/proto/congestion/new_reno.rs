// Harness bodies for quinn-proto/src/congestion/new_reno.rs.

const V62: u64 = 1 << 62;

/// C12.a: one controller event from ANY NewReno state with window >= 2 * mtu: afterwards
/// window() >= 2 * current_mtu, no overflow (window, ssthresh-independent, bytes <= 2^32).
/// op 0 on_ack, 1 on_congestion_event, 2 on_mtu_update, 3 on_spurious_congestion_event (default no-op)
pub fn step(window: u64, ssthresh: u64, bytes_acked: u64, mtu: u16, recovery_secs: u32, op: u8,
            now_secs: u32, sent_secs: u32, bytes: u32, app_limited: bool, persistent: bool, ecn: bool, new_mtu: u16, factor_q: u8) -> u32 {
    if mtu < 1200 || new_mtu < 1200 || window >= V62 || window < 2 * mtu as u64 || bytes_acked >= V62 || op > 3 {
        return 0;
    }
    let (Some(now), Some(sent), Some(rec)) = (crate::verif::mk_instant(now_secs, 0), crate::verif::mk_instant(sent_secs, 0), crate::verif::mk_instant(recovery_secs, 0)) else { return 0 };
    // loss_reduction_factor in {0, 1/4, 1/2, 3/4, 1}: exactly representable, keeps the f32 product tractable
    if factor_q > 4 {
        return 0;
    }
    let mut cfg = NewRenoConfig::default();
    cfg.loss_reduction_factor(factor_q as f32 / 4.0);
    let mut c = NewReno { config: Arc::new(cfg), current_mtu: mtu as u64, window, ssthresh, recovery_start_time: rec, bytes_acked };
    let rtt = RttEstimator::new(crate::Duration::from_millis(100));
    let f;
    match op {
        0 => {
            c.on_ack(now, sent, bytes as u64, app_limited, &rtt);
            assert!(c.window >= window);
            if app_limited || sent_secs <= recovery_secs {
                assert!(c.window == window && c.bytes_acked == bytes_acked);
            }
            f = 1;
        }
        1 => {
            c.on_congestion_event(now, sent, persistent, ecn, bytes as u64);
            if sent_secs <= recovery_secs {
                assert!(c.window == window && c.ssthresh == ssthresh);
            } else {
                // (no upper-bound oracle: `window as f32` rounds for windows above 2^24)
                assert!(c.ssthresh >= 2 * mtu as u64);
                if !persistent {
                    assert!(c.ssthresh == c.window);
                }
                if persistent {
                    assert!(c.window == 2 * mtu as u64);
                }
            }
            f = 2;
        }
        2 => {
            c.on_mtu_update(new_mtu);
            assert!(c.window == window.max(2 * new_mtu as u64));
            f = 4;
        }
        _ => {
            c.on_spurious_congestion_event();
            assert!(c.window == window);
            f = 8;
        }
    }
    // the property: never below two datagrams
    assert!(c.window() >= 2 * c.current_mtu);
    assert!(c.window() == c.window);
    core::mem::forget(c);
    f
}

/// C12.a (base case of the one-step obligations): a freshly constructed controller - NewReno or Cubic (Bbr::new trips an
/// internal error of the Kani compiler and is covered by the E2 query e2_bbr_new_window_floor), any configured initial
/// window, any initial MTU - already reports a window of at least two datagrams.
pub fn new_window_floor(kind: u8, initial_window: u64, mtu: u16) -> u32 {
    if mtu < 1200 || initial_window >= V62 {
        return 0;
    }
    let Some(now) = crate::verif::mk_instant(1, 0) else { return 0 };
    let w = match kind {
        0 => {
            let mut cfg = NewRenoConfig::default();
            cfg.initial_window(initial_window);
            let c = NewReno::new(Arc::new(cfg), now, mtu);
            let w = c.window();
            core::mem::forget(c);
            w
        }
        1 => {
            let mut cfg = crate::congestion::CubicConfig::default();
            cfg.initial_window(initial_window);
            let c = crate::congestion::Cubic::new(Arc::new(cfg), now, mtu);
            let w = c.window();
            core::mem::forget(c);
            w
        }
        _ => return 0,
    };
    assert!(w >= 2 * mtu as u64, "a new controller reports a window below two datagrams");
    1 << kind
}
