// harness bodies compiled inside quinn-proto/src/congestion/new_reno.rs (feature __verif-hooks)
