// harness bodies compiled inside quinn-proto/src/cid_generator.rs (feature __verif-hooks)
