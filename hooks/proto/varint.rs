// Harness bodies for quinn-proto/src/varint.rs.
//
// Convention for every body in /verif/hooks: plain function over plain scalar /
// array arguments (the harness wrapper makes them symbolic, the replay crate
// passes the solver's values), `return 0` where a precondition does not hold
// (= kani::assume), ordinary `assert!` for the obligations, and a bit mask of
// reached witnesses as the result (the wrapper turns each bit into kani::cover!).

/// C10/C03.a: encode -> decode identity, size() agrees with the bytes written,
/// for every x < 2^62.
pub fn roundtrip(x: u64) -> u32 {
    let Ok(v) = VarInt::from_u64(x) else {
        assert!(x >= 1 << 62);
        return 0;
    };
    assert!(x < 1 << 62);
    let mut buf = [0u8; 8];
    let mut w = &mut buf[..];
    v.encode(&mut w);
    let written = 8 - w.len();
    assert!(written == v.size());
    let want = if x < 1 << 6 { 1 } else if x < 1 << 14 { 2 } else if x < 1 << 30 { 4 } else { 8 };
    assert!(written == want);
    let mut r = &buf[..written];
    let d = VarInt::decode(&mut r);
    assert!(matches!(d, Ok(y) if y == v));
    assert!(r.is_empty());
    // a truncated encoding is rejected, never mis-decoded
    if written > 1 {
        let mut r = &buf[..written - 1];
        assert!(VarInt::decode(&mut r).is_err());
    }
    1 | (if written == 8 { 2 } else { 0 }) | (if written == 1 { 4 } else { 0 })
}

/// C03.a/C10: decode is total on any buffer of <= 9 bytes; Ok consumes exactly
/// the length announced by the two top bits and yields the big-endian value.
pub fn decode_total(bytes: [u8; 9], len: usize) -> u32 {
    if len > 9 {
        return 0;
    }
    let mut r = &bytes[..len];
    match VarInt::decode(&mut r) {
        Ok(v) => {
            let n = 1usize << (bytes[0] >> 6);
            assert!(len >= n);
            assert!(r.len() == len - n);
            let mut x: u64 = (bytes[0] & 0x3f) as u64;
            let mut i = 1;
            while i < n {
                x = (x << 8) | bytes[i] as u64;
                i += 1;
            }
            assert!(v.into_inner() == x);
            1
        }
        Err(_) => {
            assert!(len == 0 || len < (1usize << (bytes[0] >> 6)));
            2
        }
    }
}
