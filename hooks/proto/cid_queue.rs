// harness bodies compiled inside quinn-proto/src/cid_queue.rs (feature __verif-hooks)
