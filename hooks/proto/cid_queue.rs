// Harness bodies for quinn-proto/src/cid_queue.rs (remote connection IDs).

const V62: u64 = 1 << 62;

fn cid_of(tag: u8) -> ConnectionId {
    ConnectionId::new(&[tag; 8])
}

fn tok_of(tag: u8) -> ResetToken {
    ResetToken::from([tag; crate::RESET_TOKEN_SIZE])
}

/// Abstract ring content: slot `s` (counted from the cursor) holds sequence number offset + s.
#[derive(Clone, Copy)]
struct Abs {
    occ: [bool; 5],
    tag: [u8; 5],
    has_tok: [bool; 5],
}

fn build(cursor: usize, offset: u64, a: &Abs) -> CidQueue {
    let mut buffer: [Option<CidData>; 5] = [None; 5];
    let mut s = 0;
    while s < 5 {
        if a.occ[s] {
            buffer[(cursor + s) % 5] = Some((cid_of(a.tag[s]), if a.has_tok[s] { Some(tok_of(a.tag[s])) } else { None }));
        }
        s += 1;
    }
    CidQueue { buffer, cursor, offset }
}

/// Representation invariant: the active slot is occupied; only the initial CID (sequence 0, active)
/// lacks a reset token; sequence numbers stay in the varint domain.
fn inv(cursor: usize, offset: u64, a: &Abs) -> bool {
    if cursor >= 5 || offset >= V62 - 8 || !a.occ[0] {
        return false;
    }
    let mut s = 0;
    while s < 5 {
        if a.occ[s] && !a.has_tok[s] && !(s == 0 && offset == 0) {
            return false;
        }
        s += 1;
    }
    true
}

fn inv_q(q: &CidQueue) -> bool {
    if q.cursor >= 5 || q.buffer[q.cursor].is_none() {
        return false;
    }
    let mut s = 0;
    while s < 5 {
        if let Some((_, None)) = q.buffer[(q.cursor + s) % 5] {
            if !(s == 0 && q.offset == 0) {
                return false;
            }
        }
        s += 1;
    }
    true
}

/// Looks up what the queue stores for sequence number `seq`.
fn lookup(q: &CidQueue, seq: u64) -> Option<CidData> {
    if seq < q.offset || seq - q.offset >= 5 {
        return None;
    }
    q.buffer[(q.cursor + (seq - q.offset) as usize) % 5]
}

/// C03.g / C09: one `CidQueue::insert` (NEW_CONNECTION_ID) from ANY ring state satisfying the
/// invariant, for every (sequence, retire_prior_to <= sequence) < 2^62: no unwrap/expect fires;
/// too-old sequence numbers => Retired, numbers beyond the window => ExceedsLimit, both without
/// touching the state; otherwise the new CID is stored under its sequence number, every CID the
/// peer asked to retire is gone, every other stored CID is still there, the active CID is the
/// smallest remaining one (>= retire_prior_to), the reported retired range starts at the old
/// active sequence, is non-empty and at most 5 long, and the invariant is preserved.
pub fn insert_step(cursor: u8, offset: u32, occ: [bool; 5], tag: [u8; 5], has_tok: [bool; 5], sequence: u32, retire_prior_to: u32, new_tag: u8, probe: u8) -> u32 {
    // (u32 inputs: the ring index is a 64-bit `% 5` in the real code; keeping the upper bits
    // constant is what makes the divider circuit tractable for the SAT back end)
    let (offset, sequence, retire_prior_to) = (offset as u64, sequence as u64, retire_prior_to as u64);
    let a = Abs { occ, tag, has_tok };
    let cursor = cursor as usize;
    if !inv(cursor, offset, &a) || sequence >= V62 || retire_prior_to > sequence || probe >= 5 {
        return 0;
    }
    let mut q = build(cursor, offset, &a);
    let r = q.insert(NewConnectionId { sequence, retire_prior_to, id: cid_of(new_tag), reset_token: tok_of(new_tag) });
    let retired_count = retire_prior_to.saturating_sub(offset);
    let was_err = r.is_err();
    let f;
    if sequence < offset {
        assert!(matches!(r, Err(InsertError::Retired)));
        f = 2;
    } else if sequence - offset >= 5 + retired_count {
        assert!(matches!(r, Err(InsertError::ExceedsLimit)));
        f = 4;
    } else {
        let Ok(res) = r else { panic!("in-window NEW_CONNECTION_ID must be accepted") };
        // the new CID is stored under its sequence number
        assert!(matches!(lookup(&q, sequence), Some((c, Some(t))) if c.len() == 8 && c[0] == new_tag && c[7] == new_tag && t[0] == new_tag && t[15] == new_tag));
        match res {
            None => {
                assert!(retired_count == 0);
                assert!(q.offset == offset && q.cursor == cursor);
                f = 1;
            }
            Some((range, token)) => {
                assert!(retired_count > 0);
                assert!(range.start == offset && range.end > range.start && range.end - range.start <= 5);
                assert!(q.offset >= retire_prior_to && q.offset <= sequence && q.offset > offset);
                assert!(range.end == q.offset.min(offset + 5));
                // the token handed back belongs to the new active CID
                assert!(matches!(q.buffer[q.cursor], Some((_, Some(t))) if t[0] == token[0]));
                assert!(token[0] == if q.offset == sequence { new_tag } else { a.tag[(q.offset - offset) as usize % 5] });
                f = 8;
            }
        }
        // every previously stored CID that was not retired (and not replaced) is still there
        let pseq = offset + probe as u64;
        if a.occ[probe as usize] && pseq >= retire_prior_to && pseq != sequence {
            assert!(matches!(lookup(&q, pseq), Some((c, _)) if c[0] == a.tag[probe as usize]));
        }
        // nothing below retire_prior_to / below the active sequence survives
        assert!(q.active_seq() >= retire_prior_to.min(sequence) || retired_count == 0);
        // the active CID is the smallest stored one
        assert!(q.active()[0] == q.buffer[q.cursor].unwrap().0[0]);
    }
    if was_err {
        assert!(q.offset == offset && q.cursor == cursor);
        assert!(lookup(&q, offset + probe as u64).is_some() == a.occ[probe as usize]);
    }
    assert!(inv_q(&q));
    assert!(q.offset >= offset);
    f
}

/// C03.g / C09: one `CidQueue::next` (switch to the next remote CID): None iff no other CID is
/// stored (state unchanged); otherwise the active CID is dropped, the next stored one becomes
/// active, its token is returned with the non-empty range of sequence numbers to retire.
pub fn next_step(cursor: u8, offset: u64, occ: [bool; 5], tag: [u8; 5], has_tok: [bool; 5]) -> u32 {
    let a = Abs { occ, tag, has_tok };
    let cursor = cursor as usize;
    if !inv(cursor, offset, &a) {
        return 0;
    }
    let mut q = build(cursor, offset, &a);
    let active0 = q.active();
    assert!(active0 == cid_of(tag[0]) && q.active_seq() == offset);
    // first occupied slot after the active one
    let mut nxt = 0usize;
    let mut s = 1;
    while s < 5 {
        if occ[s] && nxt == 0 {
            nxt = s;
        }
        s += 1;
    }
    let r = q.next();
    let f;
    match r {
        None => {
            assert!(nxt == 0);
            assert!(q.offset == offset && q.cursor == cursor && q.active() == active0);
            f = 2;
        }
        Some((token, range)) => {
            assert!(nxt != 0);
            assert!(range.start == offset && range.end == offset + nxt as u64);
            assert!(q.offset == range.end && q.cursor == (cursor + nxt) % 5);
            assert!(q.active() == cid_of(tag[nxt]) && token == tok_of(tag[nxt]));
            // the previously active CID is no longer stored anywhere
            assert!(lookup(&q, offset).is_none());
            f = 1;
        }
    }
    assert!(inv_q(&q));
    f
}

/// Base case: `CidQueue::new` satisfies the invariant; `update_initial_cid` replaces the active CID.
pub fn new_is_valid(t0: u8, t1: u8) -> u32 {
    let mut q = CidQueue::new(cid_of(t0));
    assert!(inv_q(&q) && q.active() == cid_of(t0) && q.active_seq() == 0);
    assert!(q.next().is_none());
    q.update_initial_cid(cid_of(t1));
    assert!(inv_q(&q) && q.active() == cid_of(t1) && q.active_seq() == 0);
    1
}

/// Native probe for a failed unwinding assertion of `cidq_insert_step` (C03: bounded step count per input): one
/// NEW_CONNECTION_ID with `sequence = retire_prior_to = retire_prior_to` against a fresh queue, run on a helper
/// thread.  The ring has 5 slots; whatever the peer writes into the frame, the insertion is a handful of steps.
pub fn insert_step_count_native(retire_prior_to: u64) -> u32 {
    let (tx, rx) = std::sync::mpsc::channel();
    std::thread::spawn(move || {
        let mut q = CidQueue::new(cid_of(1));
        let r = q.insert(NewConnectionId { sequence: retire_prior_to, retire_prior_to, id: cid_of(2), reset_token: tok_of(2) });
        let _ = tx.send(r.is_ok());
    });
    match rx.recv_timeout(std::time::Duration::from_secs(10)) {
        Ok(_) => 1,
        Err(_) => panic!("CidQueue::insert did not return within 10 s for retire_prior_to = {}: its step count is controlled by the peer", retire_prior_to),
    }
}
