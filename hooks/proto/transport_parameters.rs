// Harness bodies for quinn-proto/src/transport_parameters.rs.

const V62: u64 = 1 << 62;

fn vi(x: u64) -> VarInt {
    unsafe { VarInt::from_u64_unchecked(x) }
}

/// C10: `write` -> `read` round-trip of the integer transport parameters.  Every parameter gets a
/// symbolic value from a range in which its varint size is fixed (so that field positions are
/// concrete) and which differs from the default (so that it is written): two-byte values
/// 64..16383 (max_udp_payload_size: 1200..16383, ack_delay_exponent: 4..20 one byte,
/// active_connection_id_limit: 64.., max_ack_delay: 64..16383).  The decoded struct equals the
/// original, for both peers' `read` side.
pub fn roundtrip_ints(v: [u16; 11], server: bool) -> u32 {
    let mut i = 0;
    while i < 11 {
        if v[i] < 64 || v[i] >= 16384 {
            return 0;
        }
        i += 1;
    }
    if v[1] < 1200 || v[8] > 20 + 64 {
        return 0;
    }
    let mut p = TransportParameters::default();
    p.max_idle_timeout = vi(v[0] as u64);
    p.max_udp_payload_size = vi(v[1] as u64);
    p.initial_max_data = vi(v[2] as u64);
    p.initial_max_stream_data_bidi_local = vi(v[3] as u64);
    p.initial_max_stream_data_bidi_remote = vi(v[4] as u64);
    p.initial_max_stream_data_uni = vi(v[5] as u64);
    p.initial_max_streams_bidi = vi(v[6] as u64);
    p.initial_max_streams_uni = vi(v[7] as u64);
    p.ack_delay_exponent = vi(v[8] as u64 - 64 + 4 - 4); // 0..=20, one byte
    p.max_ack_delay = vi(v[9] as u64);
    p.active_connection_id_limit = vi(v[10] as u64);
    if p.ack_delay_exponent.0 == 3 {
        return 0; // the default is not written; keeps positions concrete
    }
    let mut buf = [0u8; 64];
    let mut w = &mut buf[..];
    p.write(&mut w);
    let n = 64 - w.len();
    // 10 two-byte values with 1-byte id and 1-byte length + one one-byte value
    assert!(n == 10 * 4 + 3);
    let mut r = &buf[..n];
    let side = if server { Side::Server } else { Side::Client };
    let Ok(q) = TransportParameters::read(side, &mut r) else { panic!("own encoding rejected") };
    assert!(r.is_empty());
    assert!(q == p);
    1
}

/// C10 / C03.e: one integer parameter on the wire (id and declared length enumerated by the table,
/// value bytes symbolic, buffer holds exactly the declared bytes): `read` never panics; Ok means the
/// declared length equals the varint's size, the value landed in the right field (all other fields
/// keep their defaults) and passed the semantic validation of RFC 9000 / the ack-frequency draft;
/// a value outside the validated ranges is rejected.
pub fn read_one_int(id: u8, len: u8, value: [u8; 8], server: bool) -> u32 {
    if len > 8 {
        return 0;
    }
    let mut buf = [0u8; 10];
    buf[0] = id;
    buf[1] = len;
    buf[2..].copy_from_slice(&value);
    let n = 2 + len as usize;
    let mut r = &buf[..n];
    let side = if server { Side::Server } else { Side::Client };
    let res = TransportParameters::read(side, &mut r);
    let d = TransportParameters::default();
    let size = 1usize << (value[0] >> 6);
    // big-endian value of the varint (written without a loop: keeps the unwind bound small)
    let b = |k: usize| value[k] as u64;
    let x: u64 = match size {
        1 => b(0) & 0x3f,
        2 => ((b(0) & 0x3f) << 8) | b(1),
        4 => ((b(0) & 0x3f) << 24) | (b(1) << 16) | (b(2) << 8) | b(3),
        _ => ((b(0) & 0x3f) << 56) | (b(1) << 48) | (b(2) << 40) | (b(3) << 32) | (b(4) << 24) | (b(5) << 16) | (b(6) << 8) | b(7),
    };
    let in_range = match id {
        0x03 => x >= 1200,
        0x08 | 0x09 => x <= MAX_STREAM_COUNT,
        0x0a => x <= 20,
        0x0b => x < 1 << 14,
        0x0e => x >= 2,
        _ => true,
    };
    match res {
        Err(_) => {
            // rejected iff the declared length is not the varint's size or the value is out of range
            assert!(len as usize != size || !in_range);
            2
        }
        Ok(q) => {
            assert!(len as usize == size && in_range);
            let mut e = d;
            match id {
                0x01 => e.max_idle_timeout = vi(x),
                0x03 => e.max_udp_payload_size = vi(x),
                0x04 => e.initial_max_data = vi(x),
                0x05 => e.initial_max_stream_data_bidi_local = vi(x),
                0x06 => e.initial_max_stream_data_bidi_remote = vi(x),
                0x07 => e.initial_max_stream_data_uni = vi(x),
                0x08 => e.initial_max_streams_bidi = vi(x),
                0x09 => e.initial_max_streams_uni = vi(x),
                0x0a => e.ack_delay_exponent = vi(x),
                0x0b => e.max_ack_delay = vi(x),
                0x0e => e.active_connection_id_limit = vi(x),
                _ => return 0,
            }
            assert!(q == e);
            1
        }
    }
}

/// C03.e / C17: `validate_resumption_from`: accepted iff no remembered limit shrank.
pub fn resumption(a: [u64; 8], b: [u64; 8], ga: bool, gb: bool, da: bool, db: bool) -> u32 {
    let mut i = 0;
    while i < 8 {
        if a[i] >= V62 || b[i] >= V62 {
            return 0;
        }
        i += 1;
    }
    let mk = |v: &[u64; 8], g: bool, dg: bool| {
        let mut p = TransportParameters::default();
        p.active_connection_id_limit = vi(v[0]);
        p.initial_max_data = vi(v[1]);
        p.initial_max_stream_data_bidi_local = vi(v[2]);
        p.initial_max_stream_data_bidi_remote = vi(v[3]);
        p.initial_max_stream_data_uni = vi(v[4]);
        p.initial_max_streams_bidi = vi(v[5]);
        p.initial_max_streams_uni = vi(v[6]);
        p.max_datagram_frame_size = if dg { Some(vi(v[7])) } else { None };
        p.grease_quic_bit = g;
        p
    };
    let new = mk(&a, ga, da);
    let cached = mk(&b, gb, db);
    let r = new.validate_resumption_from(&cached);
    let mut shrank = false;
    let mut i = 0;
    while i < 7 {
        if b[i] > a[i] {
            shrank = true;
        }
        i += 1;
    }
    // Option<VarInt> ordering: None < Some(_)
    let dg_shrank = match (db, da) {
        (true, false) => true,
        (true, true) => b[7] > a[7],
        _ => false,
    };
    let want_err = shrank || dg_shrank || (gb && !ga);
    assert!(r.is_err() == want_err);
    core::mem::forget(r);
    if want_err { 2 } else { 1 }
}
