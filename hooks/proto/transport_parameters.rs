// harness bodies compiled inside quinn-proto/src/transport_parameters.rs (feature __verif-hooks)
