// Harness bodies for quinn-proto/src/transport_parameters.rs.

const V62: u64 = 1 << 62;

fn vi(x: u64) -> VarInt {
    unsafe { VarInt::from_u64_unchecked(x) }
}

/// C10: `write` -> `read` round-trip of the integer transport parameters.  Every parameter gets a
/// symbolic value from a range in which its varint size is fixed (so that field positions are
/// concrete) and which differs from the default (so that it is written): two-byte values
/// 64..16383 (max_udp_payload_size: 1200..16383, ack_delay_exponent: 4..20 one byte,
/// active_connection_id_limit: 64.., max_ack_delay: 64..16383).  The decoded struct equals the
/// original, for both peers' `read` side.
pub fn roundtrip_ints(v: [u16; 11], server: bool) -> u32 {
    let mut i = 0;
    while i < 11 {
        if v[i] < 64 || v[i] >= 16384 {
            return 0;
        }
        i += 1;
    }
    if v[1] < 1200 || v[8] > 20 + 64 {
        return 0;
    }
    let mut p = TransportParameters::default();
    p.max_idle_timeout = vi(v[0] as u64);
    p.max_udp_payload_size = vi(v[1] as u64);
    p.initial_max_data = vi(v[2] as u64);
    p.initial_max_stream_data_bidi_local = vi(v[3] as u64);
    p.initial_max_stream_data_bidi_remote = vi(v[4] as u64);
    p.initial_max_stream_data_uni = vi(v[5] as u64);
    p.initial_max_streams_bidi = vi(v[6] as u64);
    p.initial_max_streams_uni = vi(v[7] as u64);
    p.ack_delay_exponent = vi(v[8] as u64 - 64 + 4 - 4); // 0..=20, one byte
    p.max_ack_delay = vi(v[9] as u64);
    p.active_connection_id_limit = vi(v[10] as u64);
    if p.ack_delay_exponent.0 == 3 {
        return 0; // the default is not written; keeps positions concrete
    }
    let mut buf = [0u8; 64];
    let mut w = &mut buf[..];
    p.write(&mut w);
    let n = 64 - w.len();
    // 10 two-byte values with 1-byte id and 1-byte length + one one-byte value
    assert!(n == 10 * 4 + 3);
    let mut r = &buf[..n];
    let side = if server { Side::Server } else { Side::Client };
    let Ok(q) = TransportParameters::read(side, &mut r) else { panic!("own encoding rejected") };
    assert!(r.is_empty());
    assert!(q == p);
    1
}

/// C10 / C03.e: one integer parameter on the wire (id and declared length enumerated by the table,
/// value bytes symbolic, buffer holds exactly the declared bytes): `read` never panics; Ok means the
/// declared length equals the varint's size, the value landed in the right field (all other fields
/// keep their defaults) and passed the semantic validation of RFC 9000 / the ack-frequency draft;
/// a value outside the validated ranges is rejected.
pub fn read_one_int(id: u8, len: u8, value: [u8; 8], server: bool) -> u32 {
    if len > 8 {
        return 0;
    }
    let mut buf = [0u8; 10];
    buf[0] = id;
    buf[1] = len;
    buf[2..].copy_from_slice(&value);
    let n = 2 + len as usize;
    let mut r = &buf[..n];
    let side = if server { Side::Server } else { Side::Client };
    let res = TransportParameters::read(side, &mut r);
    let d = TransportParameters::default();
    let size = 1usize << (value[0] >> 6);
    // big-endian value of the varint (written without a loop: keeps the unwind bound small)
    let b = |k: usize| value[k] as u64;
    let x: u64 = match size {
        1 => b(0) & 0x3f,
        2 => ((b(0) & 0x3f) << 8) | b(1),
        4 => ((b(0) & 0x3f) << 24) | (b(1) << 16) | (b(2) << 8) | b(3),
        _ => ((b(0) & 0x3f) << 56) | (b(1) << 48) | (b(2) << 40) | (b(3) << 32) | (b(4) << 24) | (b(5) << 16) | (b(6) << 8) | b(7),
    };
    let in_range = match id {
        0x03 => x >= 1200,
        0x08 | 0x09 => x <= MAX_STREAM_COUNT,
        0x0a => x <= 20,
        0x0b => x < 1 << 14,
        0x0e => x >= 2,
        _ => true,
    };
    match res {
        Err(_) => {
            // rejected iff the declared length is not the varint's size or the value is out of range
            assert!(len as usize != size || !in_range);
            2
        }
        Ok(q) => {
            assert!(len as usize == size && in_range);
            let mut e = d;
            match id {
                0x01 => e.max_idle_timeout = vi(x),
                0x03 => e.max_udp_payload_size = vi(x),
                0x04 => e.initial_max_data = vi(x),
                0x05 => e.initial_max_stream_data_bidi_local = vi(x),
                0x06 => e.initial_max_stream_data_bidi_remote = vi(x),
                0x07 => e.initial_max_stream_data_uni = vi(x),
                0x08 => e.initial_max_streams_bidi = vi(x),
                0x09 => e.initial_max_streams_uni = vi(x),
                0x0a => e.ack_delay_exponent = vi(x),
                0x0b => e.max_ack_delay = vi(x),
                0x0e => e.active_connection_id_limit = vi(x),
                _ => return 0,
            }
            assert!(q == e);
            1
        }
    }
}

/// C03.e / C17: `validate_resumption_from`: accepted iff no remembered limit shrank.
pub fn resumption(a: [u64; 8], b: [u64; 8], ga: bool, gb: bool, da: bool, db: bool) -> u32 {
    let mut i = 0;
    while i < 8 {
        if a[i] >= V62 || b[i] >= V62 {
            return 0;
        }
        i += 1;
    }
    let mk = |v: &[u64; 8], g: bool, dg: bool| {
        let mut p = TransportParameters::default();
        p.active_connection_id_limit = vi(v[0]);
        p.initial_max_data = vi(v[1]);
        p.initial_max_stream_data_bidi_local = vi(v[2]);
        p.initial_max_stream_data_bidi_remote = vi(v[3]);
        p.initial_max_stream_data_uni = vi(v[4]);
        p.initial_max_streams_bidi = vi(v[5]);
        p.initial_max_streams_uni = vi(v[6]);
        p.max_datagram_frame_size = if dg { Some(vi(v[7])) } else { None };
        p.grease_quic_bit = g;
        p
    };
    let new = mk(&a, ga, da);
    let cached = mk(&b, gb, db);
    let r = new.validate_resumption_from(&cached);
    let mut shrank = false;
    let mut i = 0;
    while i < 7 {
        if b[i] > a[i] {
            shrank = true;
        }
        i += 1;
    }
    // Option<VarInt> ordering: None < Some(_)
    let dg_shrank = match (db, da) {
        (true, false) => true,
        (true, true) => b[7] > a[7],
        _ => false,
    };
    let want_err = shrank || dg_shrank || (gb && !ga);
    assert!(r.is_err() == want_err);
    core::mem::forget(r);
    if want_err { 2 } else { 1 }
}

/// C10 / C03: `PreferredAddress::read` on an arbitrary buffer of `len` <= 64 bytes against the layout
/// of RFC 9000 §18.2 (IPv4 4 + port 2 + IPv6 16 + port 2 + CID length 1 + CID 0..=20 + token 16), and
/// `write` of the decoded value reproducing exactly the bytes consumed.
pub fn preferred_address_read(buf: [u8; 64], len: usize) -> u32 {
    if len > 64 {
        return 0;
    }
    let mut r = &buf[..len];
    let res = PreferredAddress::read(&mut r);
    let cid_len = buf[24] as usize;
    let well_formed = len >= 25 && cid_len <= MAX_CID_SIZE && len >= 25 + cid_len + 16;
    let v4_absent = buf[0] == 0 && buf[1] == 0 && buf[2] == 0 && buf[3] == 0 && buf[4] == 0 && buf[5] == 0;
    let mut v6_absent = buf[22] == 0 && buf[23] == 0;
    let mut i = 6;
    while i < 22 {
        v6_absent &= buf[i] == 0;
        i += 1;
    }
    match res {
        Err(e) => {
            assert!(!well_formed || (v4_absent && v6_absent));
            if well_formed {
                assert!(matches!(e, Error::IllegalValue));
                8
            } else {
                assert!(matches!(e, Error::Malformed));
                4
            }
        }
        Ok(p) => {
            assert!(well_formed && !(v4_absent && v6_absent));
            assert!(r.len() == len - (41 + cid_len));
            assert!(p.wire_size() as usize == 41 + cid_len);
            assert!(p.connection_id.len() == cid_len);
            if cid_len > 0 {
                assert!(p.connection_id[0] == buf[25] && p.connection_id[cid_len - 1] == buf[25 + cid_len - 1]);
            }
            assert!(p.stateless_reset_token[0] == buf[25 + cid_len] && p.stateless_reset_token[15] == buf[25 + cid_len + 15]);
            assert!(p.address_v4.is_none() == v4_absent && p.address_v6.is_none() == v6_absent);
            if let Some(a) = p.address_v4 {
                assert!(a.ip().octets() == [buf[0], buf[1], buf[2], buf[3]] && a.port() == u16::from_be_bytes([buf[4], buf[5]]));
            }
            if let Some(a) = p.address_v6 {
                assert!(a.ip().octets()[0] == buf[6] && a.ip().octets()[15] == buf[21] && a.port() == u16::from_be_bytes([buf[22], buf[23]]));
            }
            // write reproduces the consumed bytes
            let mut out = [0u8; 64];
            let mut w = &mut out[..];
            p.write(&mut w);
            let n = 64 - w.len();
            assert!(n == 41 + cid_len);
            assert!(out[24] == buf[24] && out[0] == buf[0] && out[5] == buf[5] && out[6] == buf[6] && out[23] == buf[23]);
            assert!(out[n - 1] == buf[n - 1] && out[25 + cid_len] == buf[25 + cid_len]);
            if cid_len == MAX_CID_SIZE { 3 } else { 1 }
        }
    }
}
