// harness bodies compiled inside quinn-proto/src/constant_time.rs (feature __verif-hooks)
