// Harness bodies for quinn-proto/src/constant_time.rs.

/// C04 / C14: constant-time comparison is exactly byte-string equality, for all 16-byte pairs
/// (the stateless-reset-token size) and for slices of different lengths.
pub fn eq_is_equality(a: [u8; 16], b: [u8; 16], la: usize, lb: usize) -> u32 {
    if la > 16 || lb > 16 {
        return 0;
    }
    let got = eq(&a[..la], &b[..lb]);
    let mut same = la == lb;
    let mut i = 0;
    while i < 16 {
        if i < la && i < lb && a[i] != b[i] {
            same = false;
        }
        i += 1;
    }
    assert!(got == same);
    // ResetToken equality goes through the same primitive
    let ta = crate::token::ResetToken::from(a);
    let tb = crate::token::ResetToken::from(b);
    let mut all = true;
    let mut i = 0;
    while i < 16 {
        if a[i] != b[i] {
            all = false;
        }
        i += 1;
    }
    assert!((ta == tb) == all);
    if got { 1 } else { 2 }
}
