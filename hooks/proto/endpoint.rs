// harness bodies compiled inside quinn-proto/src/endpoint.rs (feature __verif-hooks)
