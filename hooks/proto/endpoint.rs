// Harness bodies for quinn-proto/src/endpoint.rs.

struct NullHmac;

impl crate::crypto::HmacKey for NullHmac {
    fn sign(&self, data: &[u8], out: &mut [u8]) {
        for (i, b) in out.iter_mut().enumerate() {
            *b = data.get(i % data.len().max(1)).copied().unwrap_or(0) ^ 0x5a;
        }
    }
    fn signature_len(&self) -> usize {
        32
    }
    fn verify(&self, _: &[u8], _: &[u8]) -> Result<(), crate::crypto::CryptoError> {
        Ok(())
    }
}

/// Native replay body for the E2 query `e2_stateless_reset` (builds a real Endpoint; never run
/// under Kani).  A datagram for an unknown connection is either ignored or answered with a
/// stateless reset that is STRICTLY smaller than the datagram, for every datagram length; the
/// call never panics.
pub fn stateless_reset_native(inciting_len: u16) -> u32 {
    let mut cfg = EndpointConfig::new(Arc::new(NullHmac));
    cfg.rng_seed(Some([7; 32]));
    let mut ep = Endpoint::new(Arc::new(cfg), None, true);
    let now = crate::verif::mk_instant(100, 0).unwrap();
    let addresses = FourTuple { remote: "10.0.0.1:4433".parse().unwrap(), local_ip: None };
    let mut buf = Vec::new();
    let r = ep.stateless_reset(now, inciting_len as usize, addresses, ConnectionId::new(&[3; 8]), &mut buf);
    match r {
        None => {
            assert!(inciting_len as usize <= 16 + 5, "a datagram large enough for a reset was ignored");
            2
        }
        Some(t) => {
            assert!(t.size == buf.len());
            assert!(t.size < inciting_len as usize, "stateless reset not smaller than the inciting datagram");
            assert!(t.size >= 5 + 16);
            // an immediate second one is rate limited
            let mut buf2 = Vec::new();
            assert!(ep.stateless_reset(now, inciting_len as usize, addresses, ConnectionId::new(&[3; 8]), &mut buf2).is_none());
            1
        }
    }
}

/// Native replay body for the E2 query `e2_endpoint_reset_token_event` (C08 / C09): when a
/// connection reports a new (address, reset token) pair, the entry it replaces is removed from the
/// reset-token routing table under the address it was STORED under, so that after the connection
/// drains no (address, token) pair routes to its handle any more - also across an address change.
pub fn reset_token_event_native(same_addr: bool) -> u32 {
    let mut cfg = EndpointConfig::new(Arc::new(NullHmac));
    cfg.rng_seed(Some([7; 32]));
    let mut ep = Endpoint::new(Arc::new(cfg), None, true);
    let a: SocketAddr = "10.0.0.1:4433".parse().unwrap();
    let b: SocketAddr = if same_addr { a } else { "10.0.0.9:5555".parse().unwrap() };
    let (t1, t2) = (ResetToken::from([1u8; 16]), ResetToken::from([2u8; 16]));
    let id = ep.connections.insert(ConnectionMeta {
        init_cid: ConnectionId::new(&[1; 8]),
        cids_issued: 0,
        loc_cids: Default::default(),
        addresses: FourTuple { remote: a, local_ip: None },
        side: Side::Server,
        reset_token: None,
    });
    let ch = ConnectionHandle(id);
    ep.index.connection_ids_initial.insert(ConnectionId::new(&[1; 8]), RouteDatagramTo::Connection(ch));
    assert!(ep.handle_event(ch, EndpointEvent(EndpointEventInner::ResetToken(a, t1))).is_none());
    assert!(ep.index.connection_reset_tokens.get(a, &[1u8; 16]) == Some(&ch));
    assert!(ep.handle_event(ch, EndpointEvent(EndpointEventInner::ResetToken(b, t2))).is_none());
    assert!(ep.index.connection_reset_tokens.get(b, &[2u8; 16]) == Some(&ch));
    assert!(ep.index.connection_reset_tokens.get(a, &[1u8; 16]).is_none(), "replaced reset token still routes to the connection");
    assert!(ep.handle_event(ch, EndpointEvent(EndpointEventInner::Drained)).is_none());
    assert!(ep.index.connection_reset_tokens.get(a, &[1u8; 16]).is_none(), "a drained connection is still reachable through an old reset token");
    assert!(ep.index.connection_reset_tokens.get(b, &[2u8; 16]).is_none());
    assert!(ep.open_connections() == 0);
    1
}

/// Native replay body for the E2 query `e2_endpoint_accept_routing` (C09 / C08): an Initial whose
/// payload fails authentication at `accept` (the null packet key rejects everything) must leave no
/// route behind - a retransmission with the same destination CID starts a fresh attempt instead of
/// being routed to the buffer slot of the abandoned one.
pub fn accept_auth_failure_native(_x: u8) -> u32 {
    use crate::connection::verif::nullcrypto;
    let mut cfg = EndpointConfig::new(Arc::new(NullHmac));
    cfg.rng_seed(Some([7; 32]));
    let server = ServerConfig::new(Arc::new(nullcrypto::NullServerCrypto), Arc::new(nullcrypto::NullTokenKey));
    let mut ep = Endpoint::new(Arc::new(cfg), Some(Arc::new(server)), true);
    let now = crate::verif::mk_instant(100, 0).unwrap();
    let remote: SocketAddr = "10.0.0.1:4433".parse().unwrap();
    // long header, Initial, version 1, 8-byte DCID, empty SCID, no token, length, 1-byte packet number, padding to 1200
    let mk = || {
        let mut v = vec![0xc0u8, 0, 0, 0, 1, 8, 9, 9, 9, 9, 9, 9, 9, 9, 0, 0];
        let rest = 1200 - v.len() - 2;
        v.extend_from_slice(&[0x40 | (rest >> 8) as u8, rest as u8]);
        v.resize(1200, 0);
        BytesMut::from(&v[..])
    };
    let mut buf = Vec::new();
    let Some(DatagramEvent::NewConnection(incoming)) = ep.handle(now, remote, None, None, mk(), &mut buf) else { panic!("first Initial must start a connection attempt") };
    assert!(ep.accept(incoming, now, &mut buf, None).is_err(), "an unauthentic Initial was accepted");
    assert!(ep.incoming_buffer_bytes() == 0);
    // the client's retransmission: same destination CID
    match ep.handle(now, remote, None, None, mk(), &mut buf) {
        Some(DatagramEvent::NewConnection(again)) => {
            ep.ignore(again);
            1
        }
        _ => panic!("retransmitted Initial was not treated as a new attempt (stale route)"),
    }
}

/// Native replay body for the E2 queries `e2_clean_up_incoming`, `e2_endpoint_refuse_cleans_up`,
/// `e2_endpoint_ignore_cleans_up` (C09 / C08): after an attempt has been ignored or refused, a
/// retransmitted Initial with the same destination CID starts a fresh attempt and no buffered bytes
/// stay accounted.
pub fn dispose_incoming_native(refuse: bool) -> u32 {
    use crate::connection::verif::nullcrypto;
    let mut cfg = EndpointConfig::new(Arc::new(NullHmac));
    cfg.rng_seed(Some([7; 32]));
    let server = ServerConfig::new(Arc::new(nullcrypto::NullServerCrypto), Arc::new(nullcrypto::NullTokenKey));
    let mut ep = Endpoint::new(Arc::new(cfg), Some(Arc::new(server)), true);
    let now = crate::verif::mk_instant(100, 0).unwrap();
    let remote: SocketAddr = "10.0.0.1:4433".parse().unwrap();
    let mk = || {
        let mut v = vec![0xc0u8, 0, 0, 0, 1, 8, 9, 9, 9, 9, 9, 9, 9, 9, 0, 0];
        let rest = 1200 - v.len() - 2;
        v.extend_from_slice(&[0x40 | (rest >> 8) as u8, rest as u8]);
        v.resize(1200, 0);
        BytesMut::from(&v[..])
    };
    let mut buf = Vec::new();
    let Some(DatagramEvent::NewConnection(incoming)) = ep.handle(now, remote, None, None, mk(), &mut buf) else { panic!("first Initial must start a connection attempt") };
    // a second datagram for the pending attempt is buffered
    assert!(ep.handle(now, remote, None, None, mk(), &mut buf).is_none());
    assert!(ep.incoming_buffer_bytes() > 0);
    if refuse {
        let _ = ep.refuse(incoming, &mut buf);
    } else {
        ep.ignore(incoming);
    }
    assert!(ep.incoming_buffer_bytes() == 0, "buffered bytes of a disposed attempt still accounted");
    match ep.handle(now, remote, None, None, mk(), &mut buf) {
        Some(DatagramEvent::NewConnection(again)) => {
            ep.ignore(again);
            1
        }
        _ => panic!("retransmitted Initial was not treated as a new attempt (stale route)"),
    }
}

/// Native replay body for the E2 query `e2_endpoint_retry_token` (C14): the token inside the Retry that
/// answers an Initial validates exactly the address (IP and port) the Initial came from, names the
/// Initial's destination CID as the original one, and the Retry is sent back to that address.
pub fn retry_token_native(_x: u8) -> u32 {
    use crate::connection::verif::nullcrypto;
    use crate::token::verif::{FixedTime, TagTokenKey};
    let mut cfg = EndpointConfig::new(Arc::new(NullHmac));
    cfg.rng_seed(Some([7; 32]));
    let issued = std::time::UNIX_EPOCH + Duration::from_secs(1_000_000);
    let mut server = ServerConfig::new(Arc::new(nullcrypto::NullServerCrypto), Arc::new(TagTokenKey));
    server.time_source = Arc::new(FixedTime(issued));
    let server = Arc::new(server);
    let mut ep = Endpoint::new(Arc::new(cfg), Some(server.clone()), true);
    let now = crate::verif::mk_instant(100, 0).unwrap();
    let remote: SocketAddr = "10.0.0.1:4433".parse().unwrap();
    let mut v = vec![0xc0u8, 0, 0, 0, 1, 8, 9, 9, 9, 9, 9, 9, 9, 9, 4, 6, 6, 6, 6, 0];
    let rest = 1200 - v.len() - 2;
    v.extend_from_slice(&[0x40 | (rest >> 8) as u8, rest as u8]);
    v.resize(1200, 0);
    let mut buf = Vec::new();
    let Some(DatagramEvent::NewConnection(incoming)) = ep.handle(now, remote, None, None, BytesMut::from(&v[..]), &mut buf) else { panic!("first Initial must start a connection attempt") };
    assert!(incoming.may_retry());
    let t = ep.retry(incoming, &mut buf).ok().expect("a first Initial may be answered with a Retry");
    assert!(t.destination == remote, "Retry sent to {} instead of the Initial's source", t.destination);
    // parse the Retry: long header 0xf?, version, DCID = client's SCID, SCID = new CID, token, 16-byte tag
    let pkt = &buf[..t.size];
    assert!(pkt[0] & 0xf0 == 0xf0 && pkt[5] == 4 && pkt[6..10] == [6, 6, 6, 6]);
    let scid_len = pkt[10] as usize;
    let new_dst = ConnectionId::new(&pkt[11..11 + scid_len]);
    let token = &pkt[11 + scid_len..pkt.len() - 16];
    // present the token: from the same address it validates, names the original DCID ...
    let hdr = |tok: &[u8]| InitialHeader { dst_cid: new_dst, src_cid: ConnectionId::new(&[6; 4]), token: Bytes::copy_from_slice(tok), number: crate::packet::PacketNumber::U8(0), version: 1 };
    let ok = crate::token::IncomingToken::from_header(&hdr(token), &server, remote).ok().expect("genuine retry token rejected");
    assert!(ok.validated && ok.orig_dst_cid == ConnectionId::new(&[9; 8]) && ok.retry_src_cid == Some(new_dst), "retry token does not name the first Initial's destination CID");
    // ... from another port or another IP it is an error (INVALID_TOKEN)
    assert!(crate::token::IncomingToken::from_header(&hdr(token), &server, "10.0.0.1:4434".parse().unwrap()).is_err(), "retry token accepted from another port");
    assert!(crate::token::IncomingToken::from_header(&hdr(token), &server, "10.0.0.2:4433".parse().unwrap()).is_err(), "retry token accepted from another address");
    // ... and it carries the time of the server's OWN clock: once that clock has passed issue time + lifetime the token is stale
    let mut later = ServerConfig::new(Arc::new(nullcrypto::NullServerCrypto), Arc::new(TagTokenKey));
    later.time_source = Arc::new(FixedTime(issued + later.retry_token_lifetime + Duration::from_secs(1)));
    assert!(crate::token::IncomingToken::from_header(&hdr(token), &later, remote).is_err(), "a Retry token older than its lifetime on the server's clock was accepted (issued with another clock?)");
    let mut just = ServerConfig::new(Arc::new(nullcrypto::NullServerCrypto), Arc::new(TagTokenKey));
    just.time_source = Arc::new(FixedTime(issued + just.retry_token_lifetime - Duration::from_secs(1)));
    assert!(crate::token::IncomingToken::from_header(&hdr(token), &just, remote).is_ok(), "a Retry token within its lifetime was refused");
    1
}

/// Native replay body for the E2 query `e2_endpoint_first_initial` (C07 / C14 / C09): an Initial in a
/// datagram shorter than 1200 bytes gets no response and leaves no state behind; a full-size one starts
/// an attempt.
pub fn first_initial_native(len_: u16, dcid_len: u8) -> u32 {
    use crate::connection::verif::nullcrypto;
    let mut cfg = EndpointConfig::new(Arc::new(NullHmac));
    cfg.rng_seed(Some([7; 32]));
    let server = ServerConfig::new(Arc::new(nullcrypto::NullServerCrypto), Arc::new(nullcrypto::NullTokenKey));
    let mut ep = Endpoint::new(Arc::new(cfg), Some(Arc::new(server)), true);
    let now = crate::verif::mk_instant(100, 0).unwrap();
    let remote: SocketAddr = "10.0.0.1:4433".parse().unwrap();
    let len_ = (len_ as usize).max(40);
    // destination CID of `dcid_len` bytes (a client-chosen Initial DCID shorter than 8 bytes is invalid and is
    // normally answered with a CONNECTION_CLOSE - but not when the datagram is too short to be an Initial at all)
    let dcid_len = (dcid_len as usize).min(20);
    let mut v = vec![0xc0u8, 0, 0, 0, 1, dcid_len as u8];
    v.extend(core::iter::repeat(9).take(dcid_len));
    v.extend_from_slice(&[0, 0]);
    let hdr = v.len();
    let rest = len_ - hdr - 2;
    v.extend_from_slice(&[0x40 | (rest >> 8) as u8, rest as u8]);
    v.resize(len_, 0);
    let mut buf = Vec::new();
    let r = ep.handle(now, remote, None, None, BytesMut::from(&v[..]), &mut buf);
    if len_ < 1200 && dcid_len != 8 {
        assert!(r.is_none(), "an Initial in a {}-byte datagram was answered ({} bytes)", len_, buf.len());
        assert!(buf.is_empty() && ep.incoming_buffer_bytes() == 0 && ep.open_connections() == 0);
        return 3;
    }
    if dcid_len != 8 {
        // full-size datagram, invalid DCID length: refused (a response is fine), no state
        assert!(!matches!(r, Some(DatagramEvent::NewConnection(_))));
        return 4;
    }
    if len_ < 1200 {
        assert!(r.is_none(), "an Initial in a {}-byte datagram caused a reaction", len_);
        assert!(buf.is_empty() && ep.incoming_buffer_bytes() == 0 && ep.open_connections() == 0);
        // and it left no route: a proper retransmission is a fresh attempt
        v.resize(1200, 0);
        let rest = 1200 - hdr - 2;
        v[hdr] = 0x40 | (rest >> 8) as u8;
        v[hdr + 1] = rest as u8;
        assert!(matches!(ep.handle(now, remote, None, None, BytesMut::from(&v[..]), &mut buf), Some(DatagramEvent::NewConnection(_))));
        2
    } else {
        let Some(DatagramEvent::NewConnection(inc)) = r else { panic!("a full-size Initial did not start a connection attempt") };
        ep.ignore(inc);
        1
    }
}

/// Native replay body for the E2 query `e2_endpoint_new_cid_no_overwrite` (C09): a CID generator that
/// repeats itself (X, X, Y).  The second connection must end up with Y and packets for X must still
/// reach the first connection.
pub fn new_cid_collision_native(_x: u8) -> u32 {
    struct Repeating(u8);
    impl crate::ConnectionIdGenerator for Repeating {
        fn generate_cid(&mut self) -> ConnectionId {
            self.0 += 1;
            ConnectionId::new(&[if self.0 <= 2 { 0xaa } else { 0xbb }; 8])
        }
        fn cid_len(&self) -> usize { 8 }
        fn cid_lifetime(&self) -> Option<Duration> { None }
    }
    let mut cfg = EndpointConfig::new(Arc::new(NullHmac));
    cfg.rng_seed(Some([7; 32]));
    cfg.cid_generator(Arc::new(|| Box::new(Repeating(0))));
    let mut ep = Endpoint::new(Arc::new(cfg), None, true);
    let (ch1, ch2) = (ConnectionHandle(0), ConnectionHandle(1));
    let a = ep.new_cid(ch1);
    let b = ep.new_cid(ch2);
    assert!(a != b, "two connections were given the same CID");
    assert!(ep.index.connection_ids.get(&a) == Some(&ch1), "a colliding CID re-pointed the first connection's route");
    assert!(ep.index.connection_ids.get(&b) == Some(&ch2));
    1
}

/// Native replay body for the E2 query `e2_endpoint_retire_and_drained_events` (C09 / C08), on a real
/// `Endpoint` holding two connections: identifiers are issued to connection A (`NeedIdentifiers`), the
/// peer retires one (`RetireConnectionId`, with or without permission to replace it), and A drains.
/// Exactly the retired CID of exactly A stops routing, exactly one replacement is issued when allowed,
/// B is never disturbed, and after `Drained` none of A's CIDs route anywhere while B's still do.
pub fn retire_and_drained_native(allow_more: bool) -> u32 {
    let mut cfg = EndpointConfig::new(Arc::new(NullHmac));
    cfg.rng_seed(Some([7; 32]));
    let mut ep = Endpoint::new(Arc::new(cfg), None, true);
    let now = crate::verif::mk_instant(50, 0).unwrap();
    let mut mk = |ep: &mut Endpoint, last: u8| {
        let remote: SocketAddr = SocketAddr::new(std::net::IpAddr::V4(std::net::Ipv4Addr::new(10, 0, 0, last)), 4433);
        ConnectionHandle(ep.connections.insert(ConnectionMeta {
            init_cid: ConnectionId::new(&[last; 8]),
            cids_issued: 0,
            loc_cids: Default::default(),
            addresses: FourTuple { remote, local_ip: None },
            side: Side::Server,
            reset_token: None,
        }))
    };
    let (a, b) = (mk(&mut ep, 1), mk(&mut ep, 2));
    ep.index.connection_ids_initial.insert(ConnectionId::new(&[1; 8]), RouteDatagramTo::Connection(a));
    ep.index.connection_ids_initial.insert(ConnectionId::new(&[2; 8]), RouteDatagramTo::Connection(b));
    let issued = |ev: Option<ConnectionEvent>| match ev {
        Some(ConnectionEvent(ConnectionEventInner::NewIdentifiers(ids, _))) => ids,
        _ => panic!("identifiers were requested but none were issued"),
    };
    let ids_a = issued(ep.handle_event(a, EndpointEvent(EndpointEventInner::NeedIdentifiers(now, 3))));
    let ids_b = issued(ep.handle_event(b, EndpointEvent(EndpointEventInner::NeedIdentifiers(now, 2))));
    assert!(ids_a.len() == 3 && ids_b.len() == 2, "the number of identifiers issued differs from the number requested");
    for i in &ids_a {
        assert!(ep.index.connection_ids.get(&i.id) == Some(&a));
    }
    // the peer retires A's sequence number 1
    let r = ep.handle_event(a, EndpointEvent(EndpointEventInner::RetireConnectionId(now, 1, allow_more)));
    assert!(ep.index.connection_ids.get(&ids_a[1].id).is_none(), "a retired CID still routes to the connection");
    assert!(ep.index.connection_ids.get(&ids_a[0].id) == Some(&a) && ep.index.connection_ids.get(&ids_a[2].id) == Some(&a), "retiring one CID un-routed another");
    for i in &ids_b {
        assert!(ep.index.connection_ids.get(&i.id) == Some(&b), "retiring a CID of one connection disturbed another connection");
    }
    let mut all_a: Vec<ConnectionId> = ids_a.iter().map(|i| i.id).collect();
    if allow_more {
        let more = issued(r);
        assert!(more.len() == 1 && more[0].sequence == 3, "exactly one replacement CID is issued for a retired one");
        all_a.push(more[0].id);
    } else {
        assert!(r.is_none(), "a replacement CID was issued although the connection did not allow it");
    }
    // retiring a sequence number that is not active changes nothing
    assert!(ep.handle_event(a, EndpointEvent(EndpointEventInner::RetireConnectionId(now, 77, true))).is_none());
    // A drains
    assert!(ep.handle_event(a, EndpointEvent(EndpointEventInner::Drained)).is_none());
    for cid in &all_a {
        assert!(ep.index.connection_ids.get(cid).is_none(), "a CID of a drained connection still routes");
    }
    for i in &ids_b {
        assert!(ep.index.connection_ids.get(&i.id) == Some(&b), "draining one connection un-routed another");
    }
    assert!(ep.open_connections() == 1);
    1 + allow_more as u32
}

/// Native replay body for the E2 slice query `e2_endpoint_add_connection_cids_slice` (C09 / C08), through
/// the real `Endpoint::add_connection` for a server connection with (`pref`) or without a preferred-address
/// CID: the CIDs recorded at creation survive the first batch of newly issued identifiers (no sequence number
/// is reused), every recorded CID routes to the connection, and after `Drained` none of them routes anywhere.
pub fn add_connection_cids_native(pref: bool) -> u32 {
    use crate::connection::verif::nullcrypto;
    let mut cfg = EndpointConfig::new(Arc::new(NullHmac));
    cfg.rng_seed(Some([7; 32]));
    let mut ep = Endpoint::new(Arc::new(cfg), None, true);
    let now = crate::verif::mk_instant(50, 0).unwrap();
    let server_config = Arc::new(ServerConfig::new(Arc::new(nullcrypto::NullServerCrypto), Arc::new(nullcrypto::NullTokenKey)));
    let ch = ConnectionHandle(ep.connections.vacant_key());
    let loc_cid = ep.new_cid(ch);
    let pref_cid = if pref { Some(ep.new_cid(ch)) } else { None };
    let addresses = FourTuple { remote: "10.0.0.1:4433".parse().unwrap(), local_ip: None };
    let _conn = ep.add_connection(
        ch,
        1,
        ConnectionId::new(&[1; 8]),
        loc_cid,
        ConnectionId::new(&[3; 8]),
        addresses,
        now,
        Box::new(nullcrypto::NullSession),
        Arc::new(TransportConfig::default()),
        SideArgs::Server { server_config, pref_addr_cid: pref_cid, path_validated: true },
    );
    ep.index.insert_initial(ConnectionId::new(&[1; 8]), ch);
    let at_creation: Vec<ConnectionId> = ep.connections[ch].loc_cids.values().copied().collect();
    assert!(at_creation.len() == 1 + pref as usize);
    let ev = ep.handle_event(ch, EndpointEvent(EndpointEventInner::NeedIdentifiers(now, 3)));
    let Some(ConnectionEvent(ConnectionEventInner::NewIdentifiers(ids, _))) = ev else { panic!("no identifiers issued") };
    let mut all = at_creation.clone();
    all.extend(ids.iter().map(|i| i.id));
    for cid in &at_creation {
        assert!(ep.connections[ch].loc_cids.values().any(|c| c == cid), "a CID recorded at creation was overwritten by a newly issued one (sequence number reused)");
    }
    assert!(ep.connections[ch].loc_cids.len() == all.len());
    for cid in &all {
        assert!(ep.index.connection_ids.get(cid) == Some(&ch));
    }
    assert!(ep.handle_event(ch, EndpointEvent(EndpointEventInner::Drained)).is_none());
    for cid in &all {
        assert!(ep.index.connection_ids.get(cid).is_none(), "a CID of a drained connection still routes");
    }
    1 + pref as u32
}

/// Native replay body for the E2 query `e2_endpoint_connect_cid_leak` (C09), and demonstration for finding
/// 16: `Endpoint::connect` with a crypto configuration that refuses the server name (as rustls does for a
/// malformed name).  The failed attempt must leave nothing in the routing table: the CID generated for it was
/// routed to the handle of the connection that was never created - the handle the NEXT connection gets.
pub fn connect_failure_native(_x: u8) -> u32 {
    use crate::connection::verif::nullcrypto;
    struct Picky;
    impl crate::crypto::ClientConfig for Picky {
        fn start_session(self: Arc<Self>, _: u32, server_name: &str, _: &TransportParameters) -> Result<Box<dyn crate::crypto::Session>, ConnectError> {
            if server_name.contains(' ') {
                return Err(ConnectError::InvalidServerName(server_name.into()));
            }
            Ok(Box::new(nullcrypto::NullSession))
        }
    }
    let mut cfg = EndpointConfig::new(Arc::new(NullHmac));
    cfg.rng_seed(Some([7; 32]));
    let mut ep = Endpoint::new(Arc::new(cfg), None, true);
    let now = crate::verif::mk_instant(50, 0).unwrap();
    let remote: SocketAddr = "10.0.0.1:4433".parse().unwrap();
    for _ in 0..3 {
        let r = ep.connect(now, ClientConfig::new(Arc::new(Picky)), remote, "not a name");
        assert!(matches!(r, Err(ConnectError::InvalidServerName(_))));
    }
    assert!(ep.index.connection_ids.is_empty(), "{} connection IDs of connections that were never created are still routed", ep.index.connection_ids.len());
    // a successful attempt afterwards owns exactly its own CID
    let (ch, _conn) = ep.connect(now, ClientConfig::new(Arc::new(Picky)), remote, "example.com").ok().expect("valid name");
    assert!(ep.index.connection_ids.len() == 1 && ep.index.connection_ids.values().all(|h| *h == ch));
    1
}
