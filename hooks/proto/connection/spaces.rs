// harness bodies compiled inside quinn-proto/src/connection/spaces.rs (feature __verif-hooks)
