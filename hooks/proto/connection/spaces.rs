// Harness bodies for quinn-proto/src/connection/spaces.rs (Dedup, PendingAcks, PacketSpace, PacketNumberFilter).

const V62: u64 = 1 << 62;

/// Abstract set of "already authenticated" packet numbers represented by (window, next):
/// everything left of the window counts as seen (conservative), `next-1` is the highest seen.
fn dedup_member(window: u128, next: u64, x: u64) -> bool {
    if x >= next {
        return false;
    }
    let d = next - 1 - x;
    if d == 0 {
        true
    } else if d > 128 {
        true
    } else {
        window & (1u128 << (d - 1)) != 0
    }
}

/// C01.a / C04: one step of `Dedup::insert` from an ARBITRARY (window, next) state.
/// insert(p) reports "duplicate" exactly when p is in the abstract set; afterwards p is in the
/// set, every previously seen q is still in the set (monotone: no packet number is ever accepted
/// twice, in any history of any length), and no unseen q inside the new window becomes "seen"
/// (a fresh packet is never mistaken for a duplicate because of somebody else's arrival).
pub fn dedup_insert_step(window: u128, next: u64, p: u64, q: u64) -> u32 {
    if next > V62 || p >= V62 || q >= V62 {
        return 0;
    }
    let mut d = Dedup { window, next };
    let was_p = dedup_member(window, next, p);
    let was_q = dedup_member(window, next, q);
    let dup = d.insert(p);
    assert!(dup == was_p);
    assert!(dedup_member(d.window, d.next, p));
    if was_q {
        assert!(dedup_member(d.window, d.next, q));
    }
    if !was_q && q != p && (q >= d.next || d.next - 1 - q <= 128) {
        // precision inside the (new) window
        assert!(!dedup_member(d.window, d.next, q));
    }
    assert!(d.next >= next && d.next <= V62);
    assert!(d.next == if p >= next { p + 1 } else { next });
    // second delivery of the same number is always flagged
    assert!(d.insert(p));
    let mut f = 1;
    if dup && p + 1 < next && next - 1 - p <= 128 {
        f |= 2; // duplicate found through the bitfield
    }
    if !dup && p < next {
        f |= 4; // late (reordered) but fresh packet accepted
    }
    if p >= next && p - next >= 128 {
        f |= 8; // jump beyond the window
    }
    if dup && next - 1 - p > 128 {
        f |= 16; // left of the window: conservatively a duplicate
    }
    f
}

/// `Dedup::new()` is the empty set.
pub fn dedup_new_is_empty(x: u64) -> u32 {
    let d = Dedup::new();
    assert!(!dedup_member(d.window, d.next, x));
    let mut d = d;
    assert!(!d.insert(x & (V62 - 1)));
    1
}

/// C03.f: `smallest_missing_in_interval` for every (window, next) and every interval the callers
/// can pass (lower <= upper <= highest): no panic / no shift overflow, and the answer is the
/// smallest unseen number strictly inside the interval (None iff there is none).
pub fn dedup_smallest_missing(window: u128, next: u64, lo: u64, hi: u64, y: u64) -> u32 {
    if next == 0 || next > V62 || lo > hi || hi > next - 1 {
        return 0;
    }
    let d = Dedup { window, next };
    let r = d.smallest_missing_in_interval(lo, hi);
    let inside = |x: u64| x > lo && x < hi;
    match r {
        Some(x) => {
            assert!(inside(x));
            assert!(!dedup_member(window, next, x));
            if inside(y) && y < x {
                assert!(dedup_member(window, next, y));
            }
            assert!(d.missing_in_interval(lo, hi));
            1
        }
        None => {
            if inside(y) {
                assert!(dedup_member(window, next, y));
            }
            assert!(!d.missing_in_interval(lo, hi));
            2
        }
    }
}

pub fn mk_pending_acks(
    immediate: bool,
    eliciting: u64,
    non_eliciting: u64,
    threshold: u64,
    reordering: u64,
    armed: bool,
    largest_eliciting: Option<u64>,
    largest_acked: Option<u64>,
    t0: Instant,
) -> PendingAcks {
    PendingAcks {
        immediate_ack_required: immediate,
        ack_eliciting_since_last_ack_sent: eliciting,
        non_ack_eliciting_since_last_ack_sent: non_eliciting,
        ack_eliciting_threshold: threshold,
        reordering_threshold: reordering,
        earliest_ack_eliciting_since_last_ack_sent: if armed { Some(t0) } else { None },
        ranges: ArrayRangeSet::default(),
        largest_packet: None,
        largest_ack_eliciting_packet: largest_eliciting,
        largest_acked,
    }
}

pub fn pending_acks_thresholds(pa: &PendingAcks) -> (u64, u64) {
    (pa.ack_eliciting_threshold, pa.reordering_threshold)
}

/// C03.f: `PendingAcks::packet_received` / `is_out_of_order` with ARBITRARY peer-chosen
/// ack-eliciting and reordering thresholds (any varint), arbitrary counters, and any dedup state
/// in which the packet has just been recorded: no panic, no overflow; counters step by one;
/// `immediate_ack_required` is sticky and is raised once the count exceeds the threshold and, for
/// reordering threshold 1, whenever the packet is older than the previous largest or a gap exists.
pub fn pending_acks_packet_received(
    window: u128,
    next: u64,
    pn: u64,
    ack_eliciting: bool,
    immediate: bool,
    eliciting: u64,
    non_eliciting: u64,
    threshold: u64,
    reordering: u64,
    armed: bool,
    has_le: bool,
    le: u64,
    has_la: bool,
    la: u64,
) -> u32 {
    let Some(now) = crate::verif::mk_instant(5, 0) else { return 0 };
    if next == 0 || next > V62 || pn > next - 1 {
        return 0;
    }
    if eliciting >= V62 || non_eliciting >= V62 || threshold >= V62 || reordering >= V62 {
        return 0;
    }
    // invariants of reachable states: every recorded number was inserted into dedup first;
    // `largest_acked` is a copy of an earlier `largest_ack_eliciting_packet`
    if has_le && le > next - 1 {
        return 0;
    }
    if has_la && (!has_le || la > le) {
        return 0;
    }
    let dedup = Dedup { window, next };
    // the packet being reported has been authenticated (inserted) already
    if !dedup_member(window, next, pn) {
        return 0;
    }
    let le_o = if has_le { Some(le) } else { None };
    let la_o = if has_la { Some(la) } else { None };
    let mut pa = mk_pending_acks(immediate, eliciting, non_eliciting, threshold, reordering, armed, le_o, la_o, now);
    let arm = pa.packet_received(now, pn, ack_eliciting, &dedup);
    let mut f = 1;
    if !ack_eliciting {
        assert!(!arm);
        assert!(pa.non_ack_eliciting_since_last_ack_sent == non_eliciting + 1);
        assert!(pa.ack_eliciting_since_last_ack_sent == eliciting);
        assert!(pa.immediate_ack_required == immediate);
        assert!(pa.largest_ack_eliciting_packet == le_o);
        return f | 2;
    }
    assert!(pa.ack_eliciting_since_last_ack_sent == eliciting + 1);
    assert!(pa.largest_ack_eliciting_packet == Some(if has_le && le > pn { le } else { pn }));
    if immediate {
        assert!(pa.immediate_ack_required);
    }
    if eliciting + 1 > threshold {
        assert!(pa.immediate_ack_required);
        f |= 4;
    }
    let prev = if has_le { le } else { 0 };
    if reordering == 1 && pn < prev {
        assert!(pa.immediate_ack_required);
        f |= 8;
    }
    if reordering == 0 && !immediate && eliciting + 1 <= threshold {
        assert!(!pa.immediate_ack_required);
        f |= 16;
    }
    // ranges are empty here, so nothing can be sent yet and the timer must be armed exactly once
    assert!(arm == !armed);
    assert!(pa.earliest_ack_eliciting_since_last_ack_sent.is_some());
    if reordering > 1 && pa.immediate_ack_required && !immediate && eliciting + 1 <= threshold {
        f |= 32; // ack-frequency-draft reordering rule fired
    }
    core::mem::forget(pa);
    f
}

/// `acks_sent` / `on_max_ack_delay_timeout` / `maybe_ack_non_eliciting` bookkeeping.
pub fn pending_acks_bookkeeping(
    immediate: bool,
    eliciting: u64,
    non_eliciting: u64,
    threshold: u64,
    has_le: bool,
    le: u64,
    which: u8,
) -> u32 {
    let Some(now) = crate::verif::mk_instant(5, 0) else { return 0 };
    let le_o = if has_le { Some(le) } else { None };
    let mut pa = mk_pending_acks(immediate, eliciting, non_eliciting, threshold, 1, true, le_o, None, now);
    let f;
    match which {
        0 => {
            pa.acks_sent();
            assert!(!pa.immediate_ack_required && !pa.can_send());
            assert!(pa.ack_eliciting_since_last_ack_sent == 0 && pa.non_ack_eliciting_since_last_ack_sent == 0);
            assert!(pa.earliest_ack_eliciting_since_last_ack_sent.is_none());
            assert!(pa.largest_acked == le_o);
            f = 1;
        }
        1 => {
            pa.on_max_ack_delay_timeout();
            assert!(pa.immediate_ack_required == (eliciting > 0));
            f = 2;
        }
        2 => {
            pa.maybe_ack_non_eliciting();
            assert!(pa.immediate_ack_required == (immediate || non_eliciting > 10));
            f = 4;
        }
        _ => return 0,
    }
    // an ACK is never sendable while there is nothing to acknowledge
    assert!(!pa.can_send());
    core::mem::forget(pa);
    f
}

/// C03: `PacketSpace::detect_ecn` with arbitrary peer-reported counters (< 2^62 each, the varint
/// domain) against arbitrary earlier feedback: no overflow; Ok only if no counter regressed, the
/// increase covers the newly acked packets and ECT(1) did not move; state updated only on Ok.
pub fn detect_ecn(newly_acked: u64, e0: u64, e1: u64, ce: u64, f0: u64, f1: u64, fce: u64) -> u32 {
    let Some(now) = crate::verif::mk_instant(5, 0) else { return 0 };
    if e0 >= V62 || e1 >= V62 || ce >= V62 || f0 >= V62 || f1 >= V62 || fce >= V62 {
        return 0;
    }
    let mut sp = PacketSpace::new(now);
    sp.ecn_feedback = frame::EcnCounts { ect0: f0, ect1: f1, ce: fce };
    let r = sp.detect_ecn(newly_acked, frame::EcnCounts { ect0: e0, ect1: e1, ce });
    let ok = e0 >= f0 && e1 >= f1 && ce >= fce && (e0 - f0) + (ce - fce) >= newly_acked && e1 == f1;
    let f;
    match r {
        Ok(congestion) => {
            assert!(ok);
            assert!(congestion == (ce > fce));
            assert!(sp.ecn_feedback.ect0 == e0 && sp.ecn_feedback.ect1 == e1 && sp.ecn_feedback.ce == ce);
            f = if congestion { 2 } else { 1 };
        }
        Err(_) => {
            assert!(!ok);
            assert!(sp.ecn_feedback.ect0 == f0 && sp.ecn_feedback.ect1 == f1 && sp.ecn_feedback.ce == fce);
            f = 4;
        }
    }
    core::mem::forget(sp);
    f
}

/// C03/C12: `PacketNumberFilter::check_ack` rejects exactly the ACK ranges (Data space) that
/// contain the most recently skipped packet number; `peek` never returns the skipped number.
pub fn pn_filter_check_ack(next_skipped: u64, has_prev: bool, prev: u64, exponent: u32, space: u8, lo: u64, hi: u64, next_pn: u64) -> u32 {
    let Some(now) = crate::verif::mk_instant(5, 0) else { return 0 };
    let sid = match space {
        0 => SpaceId::Initial,
        1 => SpaceId::Handshake,
        2 => SpaceId::Data,
        _ => return 0,
    };
    if next_pn >= V62 {
        return 0;
    }
    let f = PacketNumberFilter {
        next_skipped_packet_number: next_skipped,
        prev_skipped_packet_number: if has_prev { Some(prev) } else { None },
        exponent,
    };
    let r = f.check_ack(sid, lo..=hi);
    let bad = space == 2 && has_prev && lo <= prev && prev <= hi;
    assert!(r.is_err() == bad);
    let mut sp = PacketSpace::new(now);
    sp.next_packet_number = next_pn;
    let pk = f.peek(&sp);
    assert!(pk != next_skipped);
    assert!(pk == next_pn || pk == next_pn + 1);
    core::mem::forget(sp);
    if bad { 2 } else { 1 }
}

/// `PacketSpace::get_tx_number` hands out strictly increasing numbers and counts key usage.
pub fn get_tx_number(next_pn: u64, sent_with_keys: u64) -> u32 {
    let Some(now) = crate::verif::mk_instant(5, 0) else { return 0 };
    if next_pn >= V62 - 1 || sent_with_keys >= V62 {
        return 0;
    }
    let mut sp = PacketSpace::new(now);
    sp.next_packet_number = next_pn;
    sp.sent_with_keys = sent_with_keys;
    let a = sp.get_tx_number();
    let b = sp.get_tx_number();
    assert!(a == next_pn && b == next_pn + 1);
    assert!(sp.next_packet_number == next_pn + 2);
    assert!(sp.sent_with_keys == sent_with_keys + 2);
    core::mem::forget(sp);
    1
}

/// Native replay body for the E2 query `e2_packet_space_sent_tail_counter` (C03 / C12), on a real `PacketSpace`:
/// the peer makes us send `n` (> 1000) packets that nobody has to acknowledge (ACK-only), acknowledges none of
/// them for a long time and then all at once.  Tracking stays bounded (about 1000 packets), the counter of such
/// packets equals what is tracked, and taking every tracked packet out again - what the late ACK does - does
/// not underflow it.
pub fn sent_tail_native(n: u16) -> u32 {
    let now = crate::verif::mk_instant(50, 0).unwrap();
    let mut space = PacketSpace::new(now);
    let mk = |eliciting: bool| SentPacket { path_generation: 0, time_sent: now, size: 0, ack_eliciting: eliciting, largest_acked: None, retransmits: ThinRetransmits::default(), stream_frames: Default::default() };
    assert!(space.sent(0, mk(true)).is_none());
    for pn in 1..=n as u64 {
        let _ = space.sent(pn, mk(false));
        let tracked = (1..=pn).filter(|k| space.sent_packets.get(*k).is_some()).count() as u64;
        assert!(tracked <= 1002, "{} un-ackable packets are being tracked", tracked);
        assert!(space.unacked_non_ack_eliciting_tail == tracked, "counter says {} packets, {} are tracked", space.unacked_non_ack_eliciting_tail, tracked);
    }
    // the late ACK for everything
    for pn in 0..=n as u64 {
        let _ = space.take(pn);
    }
    assert!(space.unacked_non_ack_eliciting_tail == 0);
    1
}
