// Harness bodies for quinn-proto/src/connection/timer.rs.

/// C08.b (and the TimerTable facts C20 relies on): with three arbitrary timers armed at arbitrary
/// instants and one arbitrary timer stopped, `next_timeout` is the minimum armed instant (None iff
/// nothing is armed), `is_expired(t, now)` iff armed at or before `now`, and `stop` disarms only
/// its own timer.
pub fn table(i0: u8, s0: u32, i1: u8, s1: u32, i2: u8, s2: u32, n2: u32, stop: u8, q: u8, now_s: u32, now_n: u32) -> u32 {
    let (n0, n1) = (0, 999_999_999);
    if i0 > 8 || i1 > 8 || i2 > 8 || stop > 8 || q > 8 {
        return 0;
    }
    let (Some(t0), Some(t1), Some(t2), Some(now)) = (
        crate::verif::mk_instant(s0, n0), crate::verif::mk_instant(s1, n1), crate::verif::mk_instant(s2, n2), crate::verif::mk_instant(now_s, now_n),
    ) else { return 0 };
    let mut tt = TimerTable::default();
    assert!(tt.next_timeout().is_none());
    tt.set(Timer::VALUES[i0 as usize], t0);
    tt.set(Timer::VALUES[i1 as usize], t1);
    tt.set(Timer::VALUES[i2 as usize], t2);
    tt.stop(Timer::VALUES[stop as usize]);
    // reference model: last write per slot wins
    let mut model: [Option<Instant>; 9] = [None; 9];
    model[i0 as usize] = Some(t0);
    model[i1 as usize] = Some(t1);
    model[i2 as usize] = Some(t2);
    model[stop as usize] = None;
    let mut min: Option<Instant> = None;
    let mut k = 0;
    while k < 9 {
        assert!(tt.get(Timer::VALUES[k]) == model[k]);
        if let Some(t) = model[k] {
            min = Some(match min { Some(m) if m <= t => m, _ => t });
        }
        k += 1;
    }
    assert!(tt.next_timeout() == min);
    let qt = Timer::VALUES[q as usize];
    assert!(tt.is_expired(qt, now) == matches!(model[q as usize], Some(t) if t <= now));
    // the enum discriminants index the table one-to-one
    assert!(Timer::VALUES[q as usize] as usize == q as usize);
    // servicing: stopping an expired timer makes the next timeout move strictly past `now`
    // once all expired timers are stopped
    let mut k = 0;
    while k < 9 {
        if tt.is_expired(Timer::VALUES[k], now) {
            tt.stop(Timer::VALUES[k]);
        }
        k += 1;
    }
    assert!(!matches!(tt.next_timeout(), Some(t) if t <= now));
    let mut f = 1;
    if min.is_none() { f |= 2 }
    if i0 == i1 || i1 == i2 { f |= 4 }
    if matches!(min, Some(t) if t <= now) { f |= 8 }
    f
}
