// harness bodies compiled inside quinn-proto/src/connection/timer.rs (feature __verif-hooks)
