// harness bodies compiled inside quinn-proto/src/connection/stats.rs (feature __verif-hooks)
