// harness bodies compiled inside quinn-proto/src/connection/cid_state.rs (feature __verif-hooks)
