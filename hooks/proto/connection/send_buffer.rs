// harness bodies compiled inside quinn-proto/src/connection/send_buffer.rs (feature __verif-hooks)
