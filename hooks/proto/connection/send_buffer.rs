// Harness bodies for quinn-proto/src/connection/send_buffer.rs.

const V62: u64 = 1 << 62;

/// A SendBuffer whose scalar bookkeeping is arbitrary; segment storage and range sets are empty
/// (poll_transmit's new-data branch, offset(), is_fully_acked(), has_unsent_data() never look at them).
pub fn mk_send_buffer(offset: u64, unsent: u64, unacked_len: usize) -> SendBuffer {
    SendBuffer {
        unacked_segments: VecDeque::new(),
        unacked_len,
        offset,
        unsent,
        acks: RangeSet::new(),
        retransmits: RangeSet::new(),
    }
}

fn varint_len(x: u64) -> u64 {
    if x < 1 << 6 { 1 } else if x < 1 << 14 { 2 } else if x < 1 << 30 { 4 } else { 8 }
}

/// C01.c: `SendBuffer::poll_transmit`, new-data branch, from an arbitrary buffer state:
/// the range starts at `unsent`, never passes `offset`, makes progress whenever data is pending
/// and the caller supplied its guaranteed minimum (>= 17 bytes), fits in `max_len` together with
/// the STREAM offset and (if requested) length fields, fills the packet exactly when the length
/// is omitted, and the cursor advances to the end of the range (no byte skipped or sent twice).
pub fn poll_transmit_new(offset: u64, unsent: u64, unacked_len: usize, max_len: usize) -> u32 {
    if offset >= V62 || unsent > offset || (unacked_len as u64) > offset || unsent < offset - unacked_len as u64 {
        return 0;
    }
    if max_len < 16 || max_len > 1 << 20 {
        return 0;
    }
    let mut sb = mk_send_buffer(offset, unsent, unacked_len);
    let had_unsent = sb.has_unsent_data();
    assert!(had_unsent == (unsent != offset));
    let (r, encode_length) = sb.poll_transmit(max_len);
    assert!(r.start == unsent);
    assert!(r.end >= r.start && r.end <= offset);
    assert!(sb.unsent == r.end);
    assert!(sb.offset == offset && sb.unacked_len == unacked_len);
    let off_bytes = if unsent == 0 { 0 } else { varint_len(unsent) };
    let len_bytes = if encode_length { 8 } else { 0 };
    let n = r.end - r.start;
    assert!(n + off_bytes + len_bytes <= max_len as u64);
    if !encode_length {
        // frame without a length field extends to the end of the packet: must fill it exactly
        assert!(n + off_bytes == max_len as u64);
    } else {
        // length is encoded exactly when all remaining data fits with room to spare
        assert!(offset - unsent < max_len as u64 - off_bytes);
    }
    if max_len >= 17 && unsent < offset {
        assert!(n > 0);
    }
    if encode_length && n + off_bytes + len_bytes < max_len as u64 {
        // room left over only when everything pending was taken
        assert!(r.end == offset);
    }
    let mut f = 1;
    if encode_length { f |= 2 } else { f |= 4 }
    if r.end < offset { f |= 8 }
    if unsent >= 1 << 30 { f |= 16 }
    core::mem::forget(sb);
    f
}

/// Accessors agree with the bookkeeping for every state.
pub fn accessors(offset: u64, unsent: u64, unacked_len: usize) -> u32 {
    if unsent > offset || (unacked_len as u64) > offset {
        return 0;
    }
    let sb = mk_send_buffer(offset, unsent, unacked_len);
    assert!(sb.offset() == offset);
    assert!(sb.is_fully_acked() == (unacked_len == 0));
    assert!(sb.has_unsent_data() == (unsent != offset));
    assert!(sb.unacked() == unacked_len as u64);
    core::mem::forget(sb);
    1
}

/// C01.c (retransmit branch, thorough): with exactly one lost range queued, poll_transmit hands
/// out a prefix of that range, re-queues the remainder, and leaves the new-data cursor alone.
pub fn poll_transmit_retransmit(offset: u64, unsent: u64, lo: u64, hi: u64, max_len: usize) -> u32 {
    if offset >= V62 || unsent > offset || lo >= hi || hi > unsent {
        return 0;
    }
    if max_len < 17 || max_len > 1 << 16 {
        return 0;
    }
    let mut sb = mk_send_buffer(offset, unsent, offset as usize);
    sb.retransmit(lo..hi);
    assert!(sb.has_unsent_data());
    let (r, encode_length) = sb.poll_transmit(max_len);
    assert!(r.start == lo && r.end > lo && r.end <= hi);
    assert!(sb.unsent == unsent);
    let off_bytes = if lo == 0 { 0 } else { varint_len(lo) };
    let len_bytes = if encode_length { 8 } else { 0 };
    assert!((r.end - r.start) + off_bytes + len_bytes <= max_len as u64);
    if !encode_length {
        assert!((r.end - r.start) + off_bytes == max_len as u64);
    }
    let f;
    if r.end < hi {
        // remainder stays queued, and comes out next
        let (r2, _) = sb.poll_transmit(1 << 16);
        assert!(r2.start == r.end && r2.end <= hi);
        f = 2;
    } else {
        assert!(sb.has_unsent_data() == (unsent != offset));
        f = 1;
    }
    core::mem::forget(sb);
    f
}

/// Native replay body for the E2 query `e2_sendbuf_poll_transmit` (dispatches to the two bodies above).
pub fn poll_transmit_native(offset: u64, unsent: u64, max_len: usize, has_range: bool, lo: u64, hi: u64) -> u32 {
    if has_range {
        poll_transmit_retransmit(offset, unsent, lo, hi, max_len)
    } else {
        poll_transmit_new(offset, unsent, offset as usize, max_len)
    }
}

/// Native replay body for the E2 queries `e2_sendbuf_unacked_subtracts_acked` / `e2_sendbuf_unacked_range_term`
/// (C05), on a real `SendBuffer`: 100 bytes written and sent, bytes 40..70 and 80..90 acknowledged while 0..40 is
/// still outstanding.  60 bytes are unacknowledged; once the hole is acknowledged too, 20.
pub fn unacked_native(_x: u8) -> u32 {
    let mut sb = SendBuffer::new();
    sb.write(Bytes::from(vec![7u8; 100]));
    while sb.has_unsent_data() {
        let _ = sb.poll_transmit(64);
    }
    assert!(sb.unacked() == 100);
    sb.ack(40..70);
    assert!(sb.unacked() == 70, "30 of 100 bytes were acknowledged behind a hole, {} reported as unacknowledged", sb.unacked());
    sb.ack(80..90);
    assert!(sb.unacked() == 60, "40 of 100 bytes were acknowledged behind a hole, {} reported as unacknowledged", sb.unacked());
    sb.ack(0..40);
    assert!(sb.unacked() == 20, "{} reported as unacknowledged, 20 are", sb.unacked());
    1
}
