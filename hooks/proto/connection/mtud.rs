// Harness bodies for quinn-proto/src/connection/mtud.rs (path MTU discovery, black hole detection).

use crate::Duration;

/// Symbolic description of an `MtuDiscovery` (everything scalar).
#[derive(Clone, Copy)]
pub struct M {
    pub current: u16,
    pub min_mtu: u16,
    pub enabled: bool,
    pub phase: u8, // 0 Initial, 1 Searching, 2 Complete
    pub peer_max: u16,
    pub cfg_upper: u16,
    pub min_change: u16,
    pub lower: u16,
    pub upper: u16,
    pub last_probed: u16,
    pub in_flight: bool,
    pub in_flight_pn: u64,
    pub lost: u8,
    pub complete_secs: u32,
    pub interval_secs: u32,
    pub cooldown_secs: u32,
    /// ghost: smallest peer max_udp_payload_size ever received (MAX_UDP_PAYLOAD if none)
    pub ghost_min_peer: u16,
}

/// Representation invariant of every reachable `MtuDiscovery` (transport config validation
/// guarantees min_mtu >= 1200 and initial_mtu >= min_mtu; transport parameter validation
/// guarantees peer max_udp_payload_size >= 1200).
fn inv(m: &M) -> bool {
    if m.min_mtu < 1200 || m.min_mtu > crate::MAX_UDP_PAYLOAD || m.peer_max < 1200 || m.ghost_min_peer < 1200 || m.cfg_upper > crate::MAX_UDP_PAYLOAD {
        return false;
    }
    // bound: minimum_change = 0 is a degenerate configuration (the search never terminates)
    if m.min_change == 0 {
        return false;
    }
    // never below the smaller of the configured minimum and (every) peer limit received
    if m.current < m.min_mtu.min(m.ghost_min_peer) {
        return false;
    }
    if !m.enabled {
        // (`peer_max` is a ghost of the last value received: the disabled state does not store it)
        return m.phase == 0 && m.current <= m.peer_max;
    }
    if m.ghost_min_peer > m.peer_max || m.current > m.peer_max {
        return false;
    }
    match m.phase {
        0 | 2 => true,
        1 => {
            m.lower <= m.current
                && m.current <= m.last_probed
                && m.last_probed <= m.upper
                && m.upper <= m.peer_max
                && m.upper <= m.cfg_upper.max(m.lower)
                && m.lost <= 3
                && (!m.in_flight || m.lost <= 2)
                // the search's lower bound is the estimate, except right after a probe was acked
                && (m.lower == m.current || (m.current == m.last_probed && m.lost == 0 && !m.in_flight))
                // nothing in flight and nothing lost: the last probed size has been acked (or is the start)
                && (m.in_flight || m.lost > 0 || m.current == m.last_probed)
                // a probe that is in flight or was lost is strictly larger than the estimate
                && (!(m.in_flight || m.lost > 0) || m.last_probed > m.current)
        }
        _ => false,
    }
}

fn build(m: &M, bursts: &[u16], cur_burst: Option<(u16, u64)>, largest_post_loss: u64, acked_mtu: u16) -> Option<MtuDiscovery> {
    let t = crate::verif::mk_instant(m.complete_secs, 0)?;
    let config = MtuDiscoveryConfig {
        interval: Duration::from_secs(m.interval_secs as u64),
        upper_bound: m.cfg_upper,
        minimum_change: m.min_change,
        black_hole_cooldown: Duration::from_secs(m.cooldown_secs as u64),
    };
    let phase = match m.phase {
        0 => Phase::Initial,
        1 => Phase::Searching(SearchState {
            lower_bound: m.lower,
            upper_bound: m.upper,
            minimum_change: m.min_change,
            last_probed_mtu: m.last_probed,
            in_flight_probe: if m.in_flight { Some(m.in_flight_pn) } else { None },
            lost_probe_count: m.lost as usize,
        }),
        _ => Phase::Complete(t),
    };
    let mut det = BlackHoleDetector::new(m.min_mtu);
    for &b in bursts {
        det.suspicious_loss_bursts.push(LossBurst { smallest_packet_size: b });
    }
    det.current_loss_burst = cur_burst.map(|(s, pn)| CurrentLossBurst { smallest_packet_size: s, latest_non_probe: pn });
    det.largest_post_loss_packet = largest_post_loss;
    det.acked_mtu = acked_mtu;
    Some(MtuDiscovery {
        current_mtu: m.current,
        state: if m.enabled { Some(EnabledMtuDiscovery { phase, peer_max_udp_payload_size: m.peer_max, config }) } else { None },
        black_hole_detector: det,
    })
}

fn read_back(d: &MtuDiscovery, m0: &M) -> M {
    let mut m = *m0;
    m.current = d.current_mtu;
    m.min_mtu = d.black_hole_detector.min_mtu;
    m.in_flight = false;
    m.lost = 0;
    match &d.state {
        None => { m.enabled = false; m.phase = 0 }
        Some(s) => {
            m.enabled = true;
            m.peer_max = s.peer_max_udp_payload_size;
            m.cfg_upper = s.config.upper_bound;
            m.min_change = s.config.minimum_change;
            match s.phase {
                Phase::Initial => m.phase = 0,
                Phase::Complete(_) => m.phase = 2,
                Phase::Searching(ss) => {
                    m.phase = 1;
                    m.lower = ss.lower_bound;
                    m.upper = ss.upper_bound;
                    m.last_probed = ss.last_probed_mtu;
                    m.in_flight = ss.in_flight_probe.is_some();
                    m.in_flight_pn = ss.in_flight_probe.unwrap_or(0);
                    m.lost = ss.lost_probe_count as u8;
                    // the search copies the configured minimum change
                    assert!(ss.minimum_change == s.config.minimum_change || m0.phase == 1);
                }
            }
        }
    }
    m
}

/// C13.a: one step of the MTU search from ANY state satisfying the invariant.
/// op 0: poll_transmit(now, next_pn)   op 1: on_acked(space, pn, len)   op 2: on_probe_lost
/// op 3: on_peer_max_udp_payload_size_received (only before probing started, as in the connection)
/// op 4: reset(initial_mtu = `len`, min_mtu) as done by PathData::reset when the path changed
pub fn search_step(
    current: u16, min_mtu: u16, enabled: bool, phase: u8, peer_max: u16, cfg_upper: u16, min_change: u16,
    lower: u16, upper: u16, last_probed: u16, in_flight: bool, in_flight_pn: u64, lost: u8,
    complete_secs: u32, interval_secs: u32, cooldown_secs: u32, ghost_min_peer: u16,
    op: u8, now_secs: u32, pn: u64, len: u16, space: u8, new_peer_max: u16,
) -> u32 {
    let m = M { current, min_mtu, enabled, phase, peer_max, cfg_upper, min_change, lower, upper, last_probed, in_flight, in_flight_pn, lost, complete_secs, interval_secs, cooldown_secs, ghost_min_peer };
    if !inv(&m) || op > 4 || space > 2 {
        return 0;
    }
    let Some(now) = crate::verif::mk_instant(now_secs, 0) else { return 0 };
    let Some(mut d) = build(&m, &[], None, 0, min_mtu) else { return 0 };
    let searching = enabled && phase == 1;
    let mut f = 1u32;
    match op {
        0 => {
            let r = d.poll_transmit(now, pn);
            let n = read_back(&d, &m);
            assert!(n.current == current);
            match r {
                Some(size) => {
                    // only one probe at a time, and only while searching
                    assert!(enabled && !(searching && in_flight));
                    assert!(n.phase == 1 && n.in_flight && n.in_flight_pn == pn);
                    assert!(size == n.last_probed);
                    assert!(size <= n.peer_max);
                    assert!(size <= n.cfg_upper.max(current));
                    assert!(size >= current);
                    assert!(d.in_flight_mtu_probe() == Some(pn));
                    if searching && lost > 0 && lost < 3 {
                        // retransmission of the same size, at most MAX_PROBE_RETRANSMITS attempts
                        assert!(size == last_probed && n.lost == lost);
                        f |= 2;
                    } else {
                        assert!(n.lost == 0);
                        if searching && min_change >= 1 {
                            // a fresh size: strictly inside the remaining interval => the search terminates
                            assert!(size != last_probed);
                            if lost == 0 { assert!(size > last_probed && n.lower == last_probed) } else { assert!(size < last_probed && n.upper == last_probed - 1) }
                        }
                        f |= 4;
                    }
                }
                None => {
                    assert!(d.in_flight_mtu_probe() == if searching && in_flight { Some(in_flight_pn) } else { None });
                    if enabled && phase == 2 && now_secs < complete_secs {
                        assert!(n.phase == 2);
                    }
                    if !enabled { f |= 64 } else { f |= 8 }
                }
            }
            assert!(inv(&n));
        }
        1 => {
            let sid = match space { 0 => SpaceId::Initial, 1 => SpaceId::Handshake, _ => SpaceId::Data };
            let was_probe = d.on_acked(sid, pn, len);
            let n = read_back(&d, &m);
            let expect = space == 2 && searching && in_flight && in_flight_pn == pn;
            assert!(was_probe == expect);
            if expect {
                // the estimate rises only here, and exactly to the size that was probed and acked
                assert!(n.current == last_probed && n.current >= current);
                assert!(!n.in_flight && n.lost == 0);
                f |= 16;
            } else {
                assert!(n.current == current);
                assert!(n.in_flight == (searching && in_flight));
            }
            assert!(inv(&n));
        }
        2 => {
            // the connection reports loss of the in-flight probe only
            if !(searching && in_flight) {
                core::mem::forget(d);
                return 0;
            }
            d.on_probe_lost();
            let n = read_back(&d, &m);
            assert!(n.current == current);
            assert!(!n.in_flight && n.lost == lost + 1 && n.last_probed == last_probed);
            assert!(inv(&n));
            f |= 32;
        }
        4 => {
            // PathData::reset passes (config.get_initial_mtu(), config.min_mtu): initial >= min_mtu
            let initial = len;
            if initial < min_mtu || initial > crate::MAX_UDP_PAYLOAD {
                core::mem::forget(d);
                return 0;
            }
            d.reset(initial, min_mtu);
            let mut n = read_back(&d, &m);
            // a peer limit learned earlier keeps applying to the fresh search AND to the estimate
            if enabled {
                assert!(n.phase == 0 && n.peer_max == peer_max);
                assert!(n.current == initial.min(peer_max));
            } else {
                assert!(n.current == initial);
                n.peer_max = crate::MAX_UDP_PAYLOAD; // the disabled state never stored one
                n.ghost_min_peer = crate::MAX_UDP_PAYLOAD;
            }
            assert!(d.in_flight_mtu_probe().is_none());
            assert!(n.current >= min_mtu.min(n.peer_max));
            n.ghost_min_peer = n.ghost_min_peer.min(n.peer_max).max(1200);
            assert!(inv(&n));
            f |= 256;
        }
        _ => {
            if searching {
                core::mem::forget(d);
                return 0;
            }
            if new_peer_max < 1200 {
                core::mem::forget(d);
                return 0;
            }
            d.on_peer_max_udp_payload_size_received(new_peer_max);
            let mut n = read_back(&d, &m);
            n.peer_max = new_peer_max;
            n.ghost_min_peer = ghost_min_peer.min(new_peer_max);
            assert!(n.current == current.min(new_peer_max));
            if enabled {
                assert!(d.state.as_ref().unwrap().peer_max_udp_payload_size == new_peer_max);
            }
            // never above the peer limit, never below min(min_mtu, every peer limit received)
            assert!(n.current <= new_peer_max);
            assert!(inv(&n));
            if ghost_min_peer == crate::MAX_UDP_PAYLOAD {
                // first reception: exactly the property's bound
                assert!(n.current >= min_mtu.min(new_peer_max));
            }
            f |= 128;
        }
    }
    core::mem::forget(d);
    f
}

/// C13.a base case: `MtuDiscovery::new` / `disabled` establish the invariant for every validated
/// configuration, and the first probe respects all bounds.
pub fn new_establishes_inv(initial: u16, min_mtu: u16, has_peer: bool, peer_max: u16, cfg_upper: u16, min_change: u16, disabled: bool, pn: u64) -> u32 {
    if min_mtu < 1200 || initial < min_mtu || initial > crate::MAX_UDP_PAYLOAD || peer_max < 1200 || cfg_upper > crate::MAX_UDP_PAYLOAD || min_change == 0 {
        return 0;
    }
    let Some(now) = crate::verif::mk_instant(1, 0) else { return 0 };
    let config = MtuDiscoveryConfig { interval: Duration::from_secs(600), upper_bound: cfg_upper, minimum_change: min_change, black_hole_cooldown: Duration::from_secs(60) };
    let mut d = if disabled { MtuDiscovery::disabled(initial, min_mtu) } else { MtuDiscovery::new(initial, min_mtu, if has_peer { Some(peer_max) } else { None }, config) };
    let eff_peer = if has_peer && !disabled { peer_max } else { crate::MAX_UDP_PAYLOAD };
    let m0 = M { current: 0, min_mtu, enabled: !disabled, phase: 0, peer_max: eff_peer, cfg_upper, min_change, lower: 0, upper: 0, last_probed: 0, in_flight: false, in_flight_pn: 0, lost: 0, complete_secs: 0, interval_secs: 600, cooldown_secs: 60, ghost_min_peer: eff_peer };
    let n = read_back(&d, &m0);
    assert!(d.current_mtu() == initial.min(eff_peer));
    assert!(n.phase == 0 || disabled);
    assert!(inv(&n));
    let r = d.poll_transmit(now, pn);
    let n2 = read_back(&d, &m0);
    assert!(inv(&n2));
    let mut f = 1;
    if let Some(size) = r {
        assert!(!disabled);
        assert!(size <= eff_peer && size <= cfg_upper.max(d.current_mtu()) && size >= d.current_mtu());
        f |= 2;
    } else {
        f |= 4;
    }
    if disabled {
        assert!(r.is_none() && d.in_flight_mtu_probe().is_none());
        f |= 8;
    }
    core::mem::forget(d);
    f
}

/// C13.b: one step of the black hole detector from any state with 0..=4 stored bursts.
/// op 0: on_non_probe_lost(pn, len)  op 1: on_acked non-probe (pn, len)  op 2: black_hole_detected(now)
pub fn black_hole_step(
    current: u16, min_mtu: u16, nbursts: u8, b0: u16, b1: u16, b2: u16, b3: u16,
    has_cur: bool, cur_size: u16, cur_pn: u64, largest_post_loss: u64, acked_mtu: u16,
    enabled: bool, op: u8, pn: u64, len: u16, now_secs: u32, cooldown_secs: u32, peer_max: u16,
) -> u32 {
    if min_mtu < 1200 || peer_max < 1200 || current < min_mtu.min(peer_max) || current > peer_max || acked_mtu < min_mtu || nbursts > 4 || op > 2 {
        return 0;
    }
    // stored suspicious bursts are always larger than min_mtu; no packet was ever larger than the
    // estimate of its time, which never exceeds the peer's limit
    let bs = [b0, b1, b2, b3];
    let mut i = 0;
    while i < nbursts as usize {
        if bs[i] <= min_mtu || bs[i] > peer_max { return 0; }
        i += 1;
    }
    if (has_cur && cur_size > peer_max) || len > peer_max {
        return 0;
    }
    if op == 0 && has_cur && pn <= cur_pn {
        return 0; // losses are reported in increasing packet number order
    }
    let Some(now) = crate::verif::mk_instant(now_secs, 0) else { return 0 };
    let m = M { current, min_mtu, enabled, phase: 0, peer_max, cfg_upper: 1452, min_change: 20, lower: 0, upper: 0, last_probed: 0, in_flight: false, in_flight_pn: 0, lost: 0, complete_secs: 0, interval_secs: 600, cooldown_secs, ghost_min_peer: peer_max };
    let cur = if has_cur { Some((cur_size, cur_pn)) } else { None };
    let Some(mut d) = (match nbursts {
        0 => build(&m, &bs[..0], cur, largest_post_loss, acked_mtu),
        1 => build(&m, &bs[..1], cur, largest_post_loss, acked_mtu),
        2 => build(&m, &bs[..2], cur, largest_post_loss, acked_mtu),
        3 => build(&m, &bs[..3], cur, largest_post_loss, acked_mtu),
        _ => build(&m, &bs[..4], cur, largest_post_loss, acked_mtu),
    }) else { return 0 };
    let mut f = 1u32;
    match op {
        0 => {
            d.on_non_probe_lost(pn, len);
            assert!(d.current_mtu == current);
            let c = d.black_hole_detector.current_loss_burst.unwrap();
            assert!(c.latest_non_probe == pn);
            let contiguous = has_cur && pn - cur_pn == 1;
            assert!(c.smallest_packet_size == if contiguous { cur_size.min(len) } else { len });
            f |= if contiguous { 2 } else { 4 };
        }
        1 => {
            let was_probe = d.on_acked(SpaceId::Data, pn, len);
            assert!(!was_probe);
            assert!(d.current_mtu == current);
            assert!(d.black_hole_detector.acked_mtu == acked_mtu.max(len));
            // bursts that the acknowledged size explains are no longer suspicious
            let mut k = 0;
            while k < d.black_hole_detector.suspicious_loss_bursts.len() {
                assert!(d.black_hole_detector.suspicious_loss_bursts[k].smallest_packet_size > len.min(d.black_hole_detector.acked_mtu) || len <= acked_mtu);
                k += 1;
            }
            assert!(d.black_hole_detector.suspicious_loss_bursts.len() <= nbursts as usize);
            f |= 8;
        }
        _ => {
            let detected = d.black_hole_detected(now);
            let suspicious_new = has_cur && cur_size > min_mtu && !(cur_pn < largest_post_loss && cur_size <= acked_mtu);
            let total = nbursts as usize + usize::from(suspicious_new && nbursts <= 3);
            assert!(detected == (total > 3));
            assert!(d.black_hole_detector.current_loss_burst.is_none());
            if detected {
                // fall back to the guaranteed minimum and forget the evidence
                assert!(d.current_mtu == min_mtu);
                // ... which is within the peer's limit whenever the evidence could have been collected
                assert!(d.current_mtu <= peer_max);
                assert!(d.black_hole_detector.suspicious_loss_bursts.is_empty());
                if enabled {
                    assert!(matches!(d.state.as_ref().unwrap().phase, Phase::Complete(_)));
                }
                assert!(d.in_flight_mtu_probe().is_none());
                f |= 16;
            } else {
                assert!(d.current_mtu == current);
                f |= 32;
            }
        }
    }
    // bounded memory, estimates stay above the guaranteed minimum
    assert!(d.black_hole_detector.suspicious_loss_bursts.len() <= 4);
    assert!(d.black_hole_detector.acked_mtu >= min_mtu);
    assert!(d.current_mtu >= min_mtu.min(peer_max));
    core::mem::forget(d);
    f
}

/// C13 history demonstration (through the real API only, from `MtuDiscovery::new`): a path that
/// delivers nothing larger than `initial` and additionally loses every MTU probe.  Whatever the
/// search does, the estimate must never drop below min(min_mtu, peer limit) and every probe must
/// be strictly larger than the current estimate (probing a size already known to work could only
/// lower the estimate).
pub fn history_all_probes_lost(initial: u16, cfg_upper: u16, min_change: u16, ack_below: u16) -> u32 {
    if initial < 1200 || initial > 1300 || cfg_upper > 1500 || cfg_upper < initial || min_change == 0 || min_change > 32 {
        return 0;
    }
    let Some(now) = crate::verif::mk_instant(1, 0) else { return 0 };
    let config = MtuDiscoveryConfig { interval: Duration::from_secs(600), upper_bound: cfg_upper, minimum_change: min_change, black_hole_cooldown: Duration::from_secs(60) };
    let mut d = MtuDiscovery::new(initial, initial, Some(1500), config);
    let mut pn = 0u64;
    let mut f = 1u32;
    let mut round = 0;
    while round < 64 {
        round += 1;
        match d.poll_transmit(now, pn) {
            None => {
                f |= 8;
                break;
            }
            Some(size) => {
                assert!(size > d.current_mtu(), "probe not larger than the current estimate");
                assert!(size <= cfg_upper && size <= 1500);
                if size < ack_below {
                    // the network delivers it
                    assert!(d.on_acked(SpaceId::Data, pn, size));
                    assert!(d.current_mtu() == size);
                    f |= 2;
                } else {
                    d.on_probe_lost();
                    f |= 4;
                }
                assert!(d.current_mtu() >= initial, "estimate fell below the configured minimum");
                pn += 1;
            }
        }
    }
    f
}

/// An `MtuDiscovery` at 1452 bytes (search complete) whose black-hole detector needs just one more
/// suspicious loss burst - for native replay bodies outside this module.
pub fn mk_black_hole_ready() -> MtuDiscovery {
    let m = M {
        current: 1452, min_mtu: 1200, enabled: true, phase: 2, peer_max: 65527, cfg_upper: 1452, min_change: 20, lower: 1200, upper: 1452,
        last_probed: 1452, in_flight: false, in_flight_pn: 0, lost: 0, complete_secs: 40, interval_secs: 600, cooldown_secs: 60, ghost_min_peer: 65527,
    };
    build(&m, &[1400, 1400, 1400], None, 0, 1200).unwrap()
}

/// MTU discovery switched off at 1200 bytes - for native replay bodies outside this module.
pub fn mk_disabled() -> MtuDiscovery {
    let m = M {
        current: 1200, min_mtu: 1200, enabled: false, phase: 0, peer_max: 65527, cfg_upper: 1452, min_change: 20, lower: 1200, upper: 1452,
        last_probed: 1200, in_flight: false, in_flight_pn: 0, lost: 0, complete_secs: 40, interval_secs: 600, cooldown_secs: 60, ghost_min_peer: 65527,
    };
    build(&m, &[], None, 0, 1200).unwrap()
}
