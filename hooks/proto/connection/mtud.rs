// harness bodies compiled inside quinn-proto/src/connection/mtud.rs (feature __verif-hooks)
