// harness bodies compiled inside quinn-proto/src/connection/paths.rs (feature __verif-hooks)
