// Harness bodies for quinn-proto/src/connection/paths.rs.

const V62: u64 = 1 << 62;

fn mk_path(validated: bool, total_sent: u64, total_recvd: u64, generation: u64, in_bytes: u64, in_ack_eliciting: u64) -> Option<PathData> {
    let now = crate::verif::mk_instant(1, 0)?;
    let cfg = std::sync::Arc::new(congestion::NewRenoConfig::default());
    Some(PathData {
        remote: SocketAddr::new(std::net::IpAddr::V4(std::net::Ipv4Addr::new(10, 0, 0, 1)), 4433),
        rtt: RttEstimator::new(Duration::from_millis(100)),
        sending_ecn: true,
        congestion: Box::new(congestion::NewReno::new(cfg, now, 1200)),
        pacing: Pacer::new(Duration::from_millis(100), 12000, 1200, None, now),
        challenge: None,
        challenge_pending: false,
        validated,
        total_sent,
        total_recvd,
        mtud: MtuDiscovery::disabled(1200, 1200),
        first_packet_after_rtt_sample: None,
        in_flight: InFlight { bytes: in_bytes, ack_eliciting: in_ack_eliciting },
        first_packet: None,
        generation,
    })
}

/// C07.a: the anti-amplification predicate.  For all counters below 2^62: "not blocked" implies
/// the address is validated or total_sent + bytes_to_send <= 3 * total_recvd, and "blocked"
/// implies unvalidated and strictly over budget; no overflow in that domain.
pub fn anti_amplification(validated: bool, total_sent: u64, total_recvd: u64, bytes_to_send: u64) -> u32 {
    if total_sent >= V62 || total_recvd >= V62 || bytes_to_send >= V62 {
        return 0;
    }
    let Some(p) = mk_path(validated, total_sent, total_recvd, 0, 0, 0) else { return 0 };
    let blocked = p.anti_amplification_blocked(bytes_to_send);
    let over = (total_sent as u128 + bytes_to_send as u128) > 3 * total_recvd as u128;
    assert!(blocked == (!validated && over));
    let f = if blocked { 2 } else if validated { 4 } else { 1 };
    // monotone: receiving more never blocks, sending more never unblocks
    if !blocked && total_recvd + 1 < V62 {
        let Some(mut q) = mk_path(validated, total_sent, total_recvd + 1, 0, 0, 0) else { return 0 };
        assert!(!q.anti_amplification_blocked(bytes_to_send));
        q.total_recvd = total_recvd;
        core::mem::forget(q);
    }
    core::mem::forget(p);
    f
}

fn mk_sent_packet(generation: u64, size: u16, ack_eliciting: bool) -> Option<SentPacket> {
    Some(SentPacket {
        path_generation: generation,
        time_sent: crate::verif::mk_instant(1, 0)?,
        size,
        ack_eliciting,
        largest_acked: None,
        retransmits: Default::default(),
        stream_frames: Default::default(),
    })
}

/// C12.b: in-flight accounting: `remove_in_flight` is the exact inverse of the insert done by
/// `sent` for packets of this path generation, and leaves the counters untouched for packets of
/// another generation (sent on an earlier path).
pub fn in_flight_accounting(bytes: u64, ack_eliciting: u64, path_gen: u64, pkt_gen: u64, size: u16, eliciting: bool) -> u32 {
    if bytes >= V62 || ack_eliciting >= V62 {
        return 0;
    }
    let Some(mut p) = mk_path(true, 0, 0, path_gen, bytes, ack_eliciting) else { return 0 };
    let Some(pkt) = mk_sent_packet(pkt_gen, size, eliciting) else { return 0 };
    p.in_flight.insert(&pkt);
    assert!(p.in_flight.bytes == bytes + size as u64);
    assert!(p.in_flight.ack_eliciting == ack_eliciting + eliciting as u64);
    let removed = p.remove_in_flight(&pkt);
    let f;
    if pkt_gen == path_gen {
        assert!(removed);
        assert!(p.in_flight.bytes == bytes && p.in_flight.ack_eliciting == ack_eliciting);
        f = 1;
    } else {
        assert!(!removed);
        assert!(p.in_flight.bytes == bytes + size as u64);
        f = 2;
    }
    assert!(p.generation() == path_gen);
    core::mem::forget(p);
    core::mem::forget(pkt);
    f
}

/// C03: `PathResponses::push` is bounded (<= 16 entries), keeps one entry per remote and prefers
/// the challenge from the newest packet; pop_on_path / pop_off_path hand each response out once.
pub fn path_responses(p1: u64, t1: u64, port1: u16, p2: u64, t2: u64, port2: u16, on_port: u16) -> u32 {
    let addr = |port: u16| SocketAddr::new(std::net::IpAddr::V4(std::net::Ipv4Addr::new(10, 0, 0, 1)), port);
    let mut r = PathResponses::default();
    assert!(r.is_empty());
    r.push(p1, t1, addr(port1), 1200);
    r.push(p2, t2, addr(port2), 40);
    let mut f = 1;
    if port1 == port2 {
        assert!(r.pending.len() == 1);
        let want = if p1 <= p2 { t2 } else { t1 };
        assert!(r.pending[0].token == want);
        f |= 2;
    } else {
        assert!(r.pending.len() == 2);
    }
    let n0 = r.pending.len();
    let last = *r.pending.last().unwrap();
    let on = r.pop_on_path(addr(on_port));
    if last.remote == addr(on_port) {
        assert!(on == Some(last.token));
        assert!(r.pending.len() == n0 - 1);
        f |= 4;
    } else {
        assert!(on.is_none());
        let off = r.pop_off_path(addr(on_port));
        // the response comes with the size of the packet that carried ITS challenge
        assert!(off == Some((last.token, last.remote, last.received)));
        assert!(last.received == if last.token == t2 && (port1 != port2 || p1 <= p2) { 40 } else { 1200 } || t1 == t2);
        assert!(r.pending.len() == n0 - 1);
        f |= 8;
    }
    core::mem::forget(r);
    f
}

/// C03: RTT estimator update with arbitrary (peer-influenced) ack delay and samples below 2^32 s:
/// no Duration overflow; min <= latest; smoothed stays between the old smoothed value and the
/// adjusted sample.
pub fn rtt_update(latest_ms: u32, has_smoothed: bool, smoothed_ms: u32, var_ms: u32, min_ms: u32, ack_delay_ms: u32, rtt_ms: u32) -> u32 {
    let d = |ms: u32| Duration::from_millis(ms as u64);
    if min_ms > latest_ms {
        return 0;
    }
    let mut e = RttEstimator { latest: d(latest_ms), smoothed: if has_smoothed { Some(d(smoothed_ms)) } else { None }, var: d(var_ms), min: d(min_ms) };
    e.update(d(ack_delay_ms), d(rtt_ms));
    assert!(e.latest == d(rtt_ms));
    assert!(e.min <= e.latest);
    let f;
    if has_smoothed {
        assert!(e.min == d(min_ms.min(rtt_ms)));
        let adjusted = if min_ms.min(rtt_ms) as u64 + ack_delay_ms as u64 <= rtt_ms as u64 { rtt_ms - ack_delay_ms } else { rtt_ms };
        let lo = smoothed_ms.min(adjusted);
        let hi = smoothed_ms.max(adjusted);
        let s = e.smoothed.unwrap();
        assert!(s >= d(lo) && s <= d(hi));
        f = 1;
    } else {
        assert!(e.smoothed == Some(d(rtt_ms)) && e.min == d(rtt_ms));
        f = 2;
    }
    assert!(e.get() == e.smoothed.unwrap());
    assert!(e.conservative() >= e.get() && e.conservative() >= e.latest);
    assert!(e.pto_base() >= e.get() + crate::TIMER_GRANULARITY);
    f
}

/// C07.a (allowance): if the gate `!anti_amplification_blocked(segment_size * k + 1)` that
/// poll_transmit evaluates before starting datagram k+1 of a batch passes on an unvalidated path,
/// then even after k+1 full segments the path has sent less than 3x what it received plus one
/// segment - the documented "complete one datagram once any budget remains" allowance, and no more.
/// (The argument expression is the one written at the call site in Connection::poll_transmit; the
/// call site itself is outside the claim.)
pub fn amplification_allowance(total_sent: u64, total_recvd: u64, segment_size: u16, k: u8) -> u32 {
    if total_sent >= V62 || total_recvd >= V62 || segment_size == 0 || k > 10 {
        return 0;
    }
    let Some(p) = mk_path(false, total_sent, total_recvd, 0, 0, 0) else { return 0 };
    let arg = segment_size as u64 * (k as u64) + 1;
    let blocked = p.anti_amplification_blocked(arg);
    let f;
    if !blocked {
        let after = total_sent + segment_size as u64 * (k as u64 + 1);
        assert!(after < 3 * total_recvd + segment_size as u64);
        // and something was received at all: nothing is ever sent to an address that sent nothing
        assert!(total_recvd > 0);
        f = 1;
    } else {
        // blocked means the budget is already exhausted by what this batch contains
        assert!(total_sent + segment_size as u64 * k as u64 >= 3 * total_recvd);
        f = 2;
    }
    core::mem::forget(p);
    f
}

/// C07 / C15: a path created for a migrated peer (`PathData::from_previous`, the NAT-rebinding
/// branch of `Connection::migrate`) starts UNVALIDATED with zeroed amplification counters and
/// nothing in flight, whatever the state of the path it was derived from; it keeps the RTT and MTU
/// estimates; no path challenge is pending yet.
pub fn from_previous(prev_validated: bool, prev_sent: u64, prev_recvd: u64, prev_in_flight: u64, prev_gen: u64, new_gen: u64, new_port: u16, bytes_to_send: u64) -> u32 {
    if prev_sent >= V62 || prev_recvd >= V62 || prev_in_flight >= V62 || bytes_to_send >= V62 || bytes_to_send == 0 {
        return 0;
    }
    let Some(now) = crate::verif::mk_instant(2, 0) else { return 0 };
    let Some(mut prev) = mk_path(prev_validated, prev_sent, prev_recvd, prev_gen, prev_in_flight, 1) else { return 0 };
    prev.challenge = Some(77);
    let remote = SocketAddr::new(std::net::IpAddr::V4(std::net::Ipv4Addr::new(10, 0, 0, 1)), new_port);
    let p = PathData::from_previous(remote, &prev, new_gen, now);
    assert!(!p.validated);
    assert!(p.total_sent == 0 && p.total_recvd == 0);
    assert!(p.in_flight.bytes == 0 && p.in_flight.ack_eliciting == 0);
    assert!(p.challenge.is_none() && !p.challenge_pending);
    assert!(p.remote == remote && p.generation() == new_gen);
    assert!(p.current_mtu() == prev.current_mtu());
    // consequently nothing at all may be sent to the new address before it sends something
    assert!(p.anti_amplification_blocked(bytes_to_send));
    core::mem::forget(p);
    core::mem::forget(prev);
    1
}

/// Accounts `pkt` as in flight on `p` (what `PacketBuilder::finish_and_track` does), for native replay bodies.
pub fn in_flight_insert(p: &mut PathData, pkt: &SentPacket) {
    p.in_flight.insert(pkt);
}

pub fn in_flight_bytes(p: &PathData) -> u64 {
    p.in_flight.bytes
}

/// Native replay body for the E2 query `e2_pathdata_sent_forgotten_leaves_in_flight` (C12), on a real `PathData`
/// and `PacketSpace`: one ack-eliciting packet, then `n` (> 1000) padded packets nobody has to acknowledge; the
/// space forgets the oldest of them as it goes.  At every step the bytes in flight equal the bytes of the packets
/// still tracked, and once every tracked packet has been acknowledged nothing is in flight.
pub fn sent_forgotten_native(n: u16, size: u16) -> u32 {
    let now = crate::verif::mk_instant(50, 0).unwrap();
    let mut space = PacketSpace::new(now);
    let mut path = mk_path(true, 0, 0, 0, 0, 0).unwrap();
    path.sent(0, mk_sent_packet(0, size, true).unwrap(), &mut space);
    for pn in 1..=n as u64 {
        path.sent(pn, mk_sent_packet(0, size, false).unwrap(), &mut space);
        let tracked = (0..=pn).filter(|k| space.sent_packets.get(*k).is_some()).count() as u64;
        assert!(path.in_flight.bytes == tracked * size as u64, "{} bytes in flight, {} packets of {} bytes are tracked", path.in_flight.bytes, tracked, size);
    }
    // the late ACK for everything still tracked
    for pn in 0..=n as u64 {
        if let Some(pkt) = space.take(pn) {
            path.remove_in_flight(&pkt);
        }
    }
    assert!(path.in_flight.bytes == 0 && path.in_flight.ack_eliciting == 0, "{} bytes still in flight after everything tracked was acknowledged", path.in_flight.bytes);
    1
}
