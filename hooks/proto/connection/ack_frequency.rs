// Harness bodies for quinn-proto/src/connection/ack_frequency.rs.

use crate::TransportErrorCode;

const V62: u64 = 1 << 62;

fn mk_state(peer_max_ack_delay_us: u64, in_flight: Option<(u64, u64)>, next_seq: u64, last: Option<u64>, max_ack_delay_us: u64) -> AckFrequencyState {
    AckFrequencyState {
        in_flight_ack_frequency_frame: in_flight.map(|(pn, d)| (pn, Duration::from_micros(d))),
        next_outgoing_sequence_number: VarInt(next_seq),
        peer_max_ack_delay: Duration::from_micros(peer_max_ack_delay_us),
        last_ack_frequency_frame: last,
        max_ack_delay: Duration::from_micros(max_ack_delay_us),
    }
}

fn dur(secs: u32, nanos: u32) -> Duration {
    // nanos < 1e9 is checked by the callers: no carry, no division on 64-bit symbols
    Duration::new(secs as u64, nanos)
}

/// C03.f: `candidate_max_ack_delay` for EVERY rtt, every peer (min_ack_delay, max_ack_delay)
/// accepted by `TransportParameters::read` (max_ack_delay < 2^14 ms, min_ack_delay <=
/// max_ack_delay * 1000 us), every current peer_max_ack_delay and both config modes: no panic,
/// the requested delay is never below the peer's min_ack_delay, never above
/// max(rtt, 25 ms, min_ack_delay), and equals the base value whenever that lies in the range.
pub fn candidate_max_ack_delay(rtt_s: u32, rtt_ns: u32, peer_s: u32, peer_ns: u32, peer_tp_max_ack_delay_ms: u16, has_min: bool, min_ack_delay_us: u32, has_cfg: bool, cfg_s: u32, cfg_ns: u32) -> u32 {
    if rtt_ns >= 1_000_000_000 || peer_ns >= 1_000_000_000 || cfg_ns >= 1_000_000_000 {
        return 0;
    }
    // what transport parameter validation lets through
    if peer_tp_max_ack_delay_ms >= 1 << 14 || min_ack_delay_us as u64 > peer_tp_max_ack_delay_ms as u64 * 1000 {
        return 0;
    }
    let mut st = mk_state(0, None, 1, None, 25_000);
    st.peer_max_ack_delay = dur(peer_s, peer_ns);
    let mut params = TransportParameters::default();
    params.max_ack_delay = VarInt(peer_tp_max_ack_delay_ms as u64);
    params.min_ack_delay = if has_min { Some(VarInt(min_ack_delay_us as u64)) } else { None };
    let mut config = AckFrequencyConfig::default();
    config.max_ack_delay = if has_cfg { Some(dur(cfg_s, cfg_ns)) } else { None };
    let rtt = dur(rtt_s, rtt_ns);
    let got = st.candidate_max_ack_delay(rtt, &config, &params);
    let min_d = Duration::from_micros(if has_min { min_ack_delay_us as u64 } else { 0 });
    let base = if has_cfg { dur(cfg_s, cfg_ns) } else { dur(peer_s, peer_ns) };
    let hi = rtt.max(Duration::from_millis(25)).max(min_d);
    assert!(got >= min_d);
    assert!(got <= hi);
    if base >= min_d && base <= hi {
        assert!(got == base);
    }
    let mut f = 1;
    if has_min && min_d > rtt.max(Duration::from_millis(25)) {
        f |= 2; // peer's minimum exceeds the automatic upper bound
    }
    if got == base { f |= 4 }
    f
}

/// C03.f: `ack_frequency_received` with arbitrary peer-chosen fields: stale frames are ignored,
/// a requested delay below the timer granularity is a PROTOCOL_VIOLATION, otherwise all three
/// parameters are adopted verbatim; no arithmetic on them can overflow.
pub fn ack_frequency_received(seq: u64, delay_us: u32, threshold: u64, reordering: u64, has_last: bool, last: u64, old_delay_us: u16) -> u32 {
    if seq >= V62 || threshold >= V62 || reordering >= V62 {
        return 0;
    }
    let (delay_us, old_delay_us) = (delay_us as u64, old_delay_us as u64);
    let Some(t0) = crate::verif::mk_instant(1, 0) else { return 0 };
    let mut st = mk_state(25_000, None, 0, if has_last { Some(last) } else { None }, old_delay_us);
    let mut pa = crate::connection::spaces::verif::mk_pending_acks(false, 0, 0, 1, 1, false, None, None, t0);
    let fr = AckFrequency { sequence: VarInt(seq), ack_eliciting_threshold: VarInt(threshold), request_max_ack_delay: VarInt(delay_us), reordering_threshold: VarInt(reordering) };
    let r = st.ack_frequency_received(&fr, &mut pa);
    let (t1, r1) = crate::connection::spaces::verif::pending_acks_thresholds(&pa);
    let f;
    if has_last && seq <= last {
        assert!(matches!(r, Ok(false)));
        assert!(st.last_ack_frequency_frame == Some(last));
        assert!(st.max_ack_delay == Duration::from_micros(old_delay_us));
        assert!(t1 == 1 && r1 == 1);
        f = 2;
    } else if delay_us < 1000 {
        assert!(matches!(&r, Err(e) if e.code == TransportErrorCode::PROTOCOL_VIOLATION));
        assert!(st.max_ack_delay == Duration::from_micros(old_delay_us));
        assert!(t1 == 1 && r1 == 1);
        f = 4;
    } else {
        assert!(matches!(r, Ok(true)));
        assert!(st.last_ack_frequency_frame == Some(seq));
        assert!(st.max_ack_delay == Duration::from_micros(delay_us));
        assert!(t1 == threshold && r1 == reordering);
        f = 1;
    }
    core::mem::forget(pa);
    core::mem::forget(r);
    f
}

/// Sender side bookkeeping: the PTO uses the larger of the peer's current and any in-flight
/// requested max_ack_delay; an ACK of the carrying packet (and only that) adopts the request;
/// sequence numbers increase by one.
pub fn sender_bookkeeping(peer_us: u16, has_in_flight: bool, in_pn: u64, in_us: u16, acked_pn: u64, next_seq: u64, sent_pn: u64, sent_us: u16) -> u32 {
    if next_seq >= V62 - 1 {
        return 0;
    }
    let (peer_us, in_us, sent_us) = (peer_us as u64, in_us as u64, sent_us as u64);
    let mut st = mk_state(peer_us, if has_in_flight { Some((in_pn, in_us)) } else { None }, next_seq, None, 25_000);
    let pto = st.max_ack_delay_for_pto();
    assert!(pto == Duration::from_micros(if has_in_flight { peer_us.max(in_us) } else { peer_us }));
    st.on_acked(acked_pn);
    let mut f = 1;
    if has_in_flight && acked_pn == in_pn {
        assert!(st.in_flight_ack_frequency_frame.is_none());
        assert!(st.peer_max_ack_delay == Duration::from_micros(in_us));
        f |= 2;
    } else {
        assert!(st.peer_max_ack_delay == Duration::from_micros(peer_us));
        assert!(st.in_flight_ack_frequency_frame.is_some() == has_in_flight);
    }
    let s = st.next_sequence_number();
    assert!(s.into_inner() == next_seq);
    assert!(st.next_sequence_number().into_inner() == next_seq + 1);
    st.ack_frequency_sent(sent_pn, Duration::from_micros(sent_us));
    assert!(st.in_flight_ack_frequency_frame == Some((sent_pn, Duration::from_micros(sent_us))));
    assert!(st.max_ack_delay_for_pto() >= Duration::from_micros(sent_us));
    f
}
