// harness bodies compiled inside quinn-proto/src/connection/ack_frequency.rs (feature __verif-hooks)
