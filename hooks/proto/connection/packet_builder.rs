// harness bodies compiled inside quinn-proto/src/connection/packet_builder.rs (feature __verif-hooks)
