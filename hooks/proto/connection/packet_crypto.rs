// harness bodies compiled inside quinn-proto/src/connection/packet_crypto.rs (feature __verif-hooks)
