// harness bodies compiled inside quinn-proto/src/connection/sent_packets.rs (feature __verif-hooks)
