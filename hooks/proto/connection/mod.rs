pub use super::ack_frequency::verif as ack_frequency;
pub use super::assembler::verif as assembler;
pub use super::cid_state::verif as cid_state;
pub use super::datagrams::verif as datagrams;
pub use super::mtud::verif as mtud;
pub use super::pacing::verif as pacing;
pub use super::packet_builder::verif as packet_builder;
pub use super::packet_crypto::verif as packet_crypto;
pub use super::paths::verif as paths;
pub use super::send_buffer::verif as send_buffer;
pub use super::sent_packets::verif as sent_packets;
pub use super::spaces::verif as spaces;
pub use super::stats::verif as stats;
pub use super::streams::verif as streams;
pub use super::timer::verif as timer;

/// C08.a: idle-timeout negotiation (RFC 9000 §10.1): the minimum of the values that are present
/// and non-zero, None iff neither side set one; commutative.
pub fn negotiate_idle(has_x: bool, x: u16, has_y: bool, y: u16) -> u32 {
    let xo = if has_x { Some(VarInt(x as u64)) } else { None };
    let yo = if has_y { Some(VarInt(y as u64)) } else { None };
    let r = negotiate_max_idle_timeout(xo, yo);
    let r2 = negotiate_max_idle_timeout(yo, xo);
    assert!(r == r2);
    let xe = if has_x && x != 0 { Some(x) } else { None };
    let ye = if has_y && y != 0 { Some(y) } else { None };
    let want = match (xe, ye) {
        (None, None) => None,
        (Some(a), None) | (None, Some(a)) => Some(a),
        (Some(a), Some(b)) => Some(a.min(b)),
    };
    match (r, want) {
        (None, None) => 2,
        (Some(d), Some(ms)) => {
            assert!(d == Duration::from_millis(ms as u64));
            1
        }
        _ => panic!("negotiated idle timeout disagrees with RFC 9000 10.1"),
    }
}
