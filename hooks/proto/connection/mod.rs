pub use super::ack_frequency::verif as ack_frequency;
pub use super::assembler::verif as assembler;
pub use super::cid_state::verif as cid_state;
pub use super::datagrams::verif as datagrams;
pub use super::mtud::verif as mtud;
pub use super::pacing::verif as pacing;
pub use super::packet_builder::verif as packet_builder;
pub use super::packet_crypto::verif as packet_crypto;
pub use super::paths::verif as paths;
pub use super::send_buffer::verif as send_buffer;
pub use super::sent_packets::verif as sent_packets;
pub use super::spaces::verif as spaces;
pub use super::stats::verif as stats;
pub use super::streams::verif as streams;
pub use super::timer::verif as timer;

/// C08.a: idle-timeout negotiation (RFC 9000 §10.1): the minimum of the values that are present
/// and non-zero, None iff neither side set one; commutative.
pub fn negotiate_idle(has_x: bool, x: u16, has_y: bool, y: u16) -> u32 {
    let xo = if has_x { Some(VarInt(x as u64)) } else { None };
    let yo = if has_y { Some(VarInt(y as u64)) } else { None };
    let r = negotiate_max_idle_timeout(xo, yo);
    let r2 = negotiate_max_idle_timeout(yo, xo);
    assert!(r == r2);
    let xe = if has_x && x != 0 { Some(x) } else { None };
    let ye = if has_y && y != 0 { Some(y) } else { None };
    let want = match (xe, ye) {
        (None, None) => None,
        (Some(a), None) | (None, Some(a)) => Some(a),
        (Some(a), Some(b)) => Some(a.min(b)),
    };
    match (r, want) {
        (None, None) => 2,
        (Some(d), Some(ms)) => {
            assert!(d == Duration::from_millis(ms as u64));
            1
        }
        _ => panic!("negotiated idle timeout disagrees with RFC 9000 10.1"),
    }
}

// ---------------------------------------------------------------------------------------------
// Native-only support for replaying E2 counterexamples on a real `Connection` object.  A
// `Connection` is built through `Connection::new` with a null crypto session (no handshake is
// performed); the replay bodies then set the fields the counterexample mentions and call the
// function under test directly.  Never reachable from a Kani harness.

pub mod nullcrypto {
    use crate::crypto::{self, CryptoError, HeaderKey, KeyPair, Keys, PacketKey};
    use crate::transport_parameters::TransportParameters;
    use crate::{ConnectionId, Side, TransportError};
    use bytes::BytesMut;
    use std::any::Any;

    pub struct NullHeaderKey;
    impl HeaderKey for NullHeaderKey {
        fn decrypt(&self, _: usize, _: &mut [u8]) {}
        fn encrypt(&self, _: usize, _: &mut [u8]) {}
        fn sample_size(&self) -> usize {
            0
        }
    }

    pub struct NullPacketKey;
    impl PacketKey for NullPacketKey {
        fn encrypt(&self, _: u64, _: &mut [u8], _: usize) {}
        fn decrypt(&self, _: u64, _: &[u8], _: &mut BytesMut) -> Result<(), CryptoError> {
            Err(CryptoError)
        }
        fn tag_len(&self) -> usize {
            0
        }
        fn confidentiality_limit(&self) -> u64 {
            u64::MAX
        }
        fn integrity_limit(&self) -> u64 {
            u64::MAX
        }
    }

    /// Stand-in for an AEAD with a recognisable key: a payload authenticates iff its last byte is the key's tag.
    pub struct TagPacketKey(pub u8);
    impl PacketKey for TagPacketKey {
        fn encrypt(&self, _: u64, _: &mut [u8], _: usize) {}
        fn decrypt(&self, _: u64, _: &[u8], payload: &mut BytesMut) -> Result<(), CryptoError> {
            if payload.last() == Some(&self.0) { Ok(()) } else { Err(CryptoError) }
        }
        fn tag_len(&self) -> usize {
            0
        }
        fn confidentiality_limit(&self) -> u64 {
            u64::MAX
        }
        fn integrity_limit(&self) -> u64 {
            u64::MAX
        }
    }

    pub fn tagged_keys(tag: u8) -> Keys {
        Keys {
            header: KeyPair { local: Box::new(NullHeaderKey), remote: Box::new(NullHeaderKey) },
            packet: KeyPair { local: Box::new(TagPacketKey(tag)), remote: Box::new(TagPacketKey(tag)) },
        }
    }

    pub fn keys() -> Keys {
        Keys {
            header: KeyPair { local: Box::new(NullHeaderKey), remote: Box::new(NullHeaderKey) },
            packet: KeyPair { local: Box::new(NullPacketKey), remote: Box::new(NullPacketKey) },
        }
    }

    pub struct NullSession;
    impl crypto::Session for NullSession {
        fn initial_keys(&self, _: ConnectionId, _: Side) -> Keys {
            keys()
        }
        fn handshake_data(&self) -> Option<Box<dyn Any>> {
            None
        }
        fn peer_identity(&self) -> Option<Box<dyn Any>> {
            None
        }
        fn early_crypto(&self) -> Option<(Box<dyn HeaderKey>, Box<dyn PacketKey>)> {
            None
        }
        fn early_data_accepted(&self) -> Option<bool> {
            None
        }
        fn is_handshaking(&self) -> bool {
            true
        }
        fn read_handshake(&mut self, _: &[u8]) -> Result<bool, TransportError> {
            Ok(false)
        }
        fn transport_parameters(&self) -> Result<Option<TransportParameters>, TransportError> {
            Ok(None)
        }
        fn write_handshake(&mut self, _: &mut Vec<u8>) -> Option<Keys> {
            None
        }
        fn next_1rtt_keys(&mut self) -> Option<KeyPair<Box<dyn PacketKey>>> {
            None
        }
        fn is_valid_retry(&self, _: ConnectionId, _: &[u8], _: &[u8]) -> bool {
            RETRY_VALID.load(std::sync::atomic::Ordering::Relaxed)
        }
        fn export_keying_material(&self, _: &mut [u8], _: &[u8], _: &[u8]) -> Result<(), crypto::ExportKeyingMaterialError> {
            Err(crypto::ExportKeyingMaterialError)
        }
    }

    /// verdict of `NullSession::is_valid_retry` (the Retry integrity tag check), set by replay bodies
    pub static RETRY_VALID: std::sync::atomic::AtomicBool = std::sync::atomic::AtomicBool::new(false);

    pub struct NullHmac;
    impl crypto::HmacKey for NullHmac {
        fn sign(&self, _: &[u8], out: &mut [u8]) {
            out.fill(0x5a);
        }
        fn signature_len(&self) -> usize {
            32
        }
        fn verify(&self, _: &[u8], _: &[u8]) -> Result<(), CryptoError> {
            Ok(())
        }
    }

    pub struct NullServerCrypto;
    impl crypto::ServerConfig for NullServerCrypto {
        fn initial_keys(&self, _: u32, _: ConnectionId) -> Result<Keys, crypto::UnsupportedVersion> {
            Ok(keys())
        }
        fn retry_tag(&self, _: u32, _: ConnectionId, _: &[u8]) -> [u8; 16] {
            [0; 16]
        }
        fn start_session(self: std::sync::Arc<Self>, _: u32, _: &TransportParameters) -> Box<dyn crypto::Session> {
            Box::new(NullSession)
        }
    }

    /// identity-plus-tag stand-in for the token AEAD (tokens are outside every claim made with this key)
    pub struct NullAead;
    impl crypto::AeadKey for NullAead {
        fn seal(&self, data: &mut Vec<u8>, _: &[u8]) -> Result<(), CryptoError> {
            data.push(0xa5);
            Ok(())
        }
        fn open<'a>(&self, data: &'a mut [u8], _: &[u8]) -> Result<&'a mut [u8], CryptoError> {
            let n = data.len();
            if n == 0 || data[n - 1] != 0xa5 {
                return Err(CryptoError);
            }
            Ok(&mut data[..n - 1])
        }
    }

    pub struct NullTokenKey;
    impl crypto::HandshakeTokenKey for NullTokenKey {
        fn aead_from_hkdf(&self, _: &[u8]) -> Box<dyn crypto::AeadKey> {
            Box::new(NullAead)
        }
    }
}

pub fn addr(last: u8, port: u16) -> SocketAddr {
    SocketAddr::new(IpAddr::V4(std::net::Ipv4Addr::new(10, 0, 0, last)), port)
}

/// A real `Connection` (Handshake state, null crypto) whose established remote is 10.0.0.1:4433.
pub fn mk_conn(server: bool, migration: bool) -> Connection {
    let now = crate::verif::mk_instant(50, 0).unwrap();
    let ep_cfg = Arc::new(EndpointConfig::new(Arc::new(nullcrypto::NullHmac)));
    let side_args = if server {
        let mut sc = ServerConfig::new(Arc::new(nullcrypto::NullServerCrypto), Arc::new(nullcrypto::NullTokenKey));
        sc.migration = migration;
        SideArgs::Server { server_config: Arc::new(sc), pref_addr_cid: None, path_validated: true }
    } else {
        SideArgs::Client { token_store: Arc::new(crate::NoneTokenStore), server_name: "localhost".into() }
    };
    let cid_gen = crate::RandomConnectionIdGenerator::new(8);
    Connection::new(
        ep_cfg,
        Arc::new(TransportConfig::default()),
        ConnectionId::new(&[1; 8]),
        ConnectionId::new(&[2; 8]),
        ConnectionId::new(&[3; 8]),
        addr(1, 4433),
        None,
        Box::new(nullcrypto::NullSession),
        &cid_gen,
        now,
        1,
        true,
        [9; 32],
        side_args,
    )
}

/// Native replay body for the E2 query `e2_handle_event_remote_check` (C15): a datagram arriving
/// from an address other than the established one is ignored - nothing is credited or counted -
/// unless this is a server whose configuration permits migration.
pub fn handle_event_remote_check_native(server: bool, migration: bool, same_remote: bool) -> u32 {
    let mut conn = mk_conn(server, migration);
    let now = crate::verif::mk_instant(51, 0).unwrap();
    // a short-header datagram for our 8-byte CID
    let mut bytes = BytesMut::new();
    bytes.extend_from_slice(&[0x40, 2, 2, 2, 2, 2, 2, 2, 2, 0, 0, 0, 0, 0, 0, 0, 0, 0, 0, 0, 0, 0, 0, 0, 0, 0, 0, 0, 0, 0]);
    let len = bytes.len() as u64;
    let (first_decode, remaining) = PartialDecode::new(bytes, &FixedLengthConnectionIdParser::new(8), &[1], true).ok().expect("decodes");
    let remote = if same_remote { addr(1, 4433) } else { addr(7, 999) };
    let (recvd0, rx0) = (conn.path.total_recvd, conn.stats.udp_rx.datagrams);
    conn.handle_event(ConnectionEvent(ConnectionEventInner::Datagram(DatagramConnectionEvent { now, remote, ecn: None, first_decode, remaining })));
    let may_process = same_remote || (server && migration);
    if may_process {
        assert!(conn.stats.udp_rx.datagrams == rx0 + 1);
        if same_remote {
            assert!(conn.path.total_recvd == recvd0 + len, "a datagram from the path's own address was not credited in full");
        } else {
            // looked at (it could start a migration - not during the handshake, though), but it says nothing about
            // the peer at the current path's address
            assert!(conn.path.remote == addr(1, 4433) && conn.path.total_recvd == recvd0, "a datagram from another address raised the send budget of the current path");
        }
        1
    } else {
        assert!(conn.stats.udp_rx.datagrams == rx0, "datagram from a foreign address was processed");
        assert!(conn.path.total_recvd == recvd0, "datagram from a foreign address was credited");
        2
    }
}

/// Native replay body for the E2 query `e2_first_packet_credit` (C07): after the server has
/// handled the first datagram of a connection - an Initial packet of `a + b` bytes followed by
/// `c` coalesced bytes - the anti-amplification credit of the path is exactly the datagram size.
pub fn first_packet_credit_native(a: u8, b: u8, c: u8) -> u32 {
    let mut conn = mk_conn(true, true);
    conn.path.validated = false;
    let now = crate::verif::mk_instant(51, 0).unwrap();
    let header_data = Bytes::from(vec![0xc0u8; a as usize + 1]);
    let mut payload = BytesMut::new();
    payload.resize(b as usize + 1, 0); // PADDING frames only
    let packet = InitialPacket {
        header: InitialHeader { dst_cid: ConnectionId::new(&[2; 8]), src_cid: ConnectionId::new(&[3; 8]), token: Bytes::new(), number: PacketNumber::U8(0), version: 1 },
        header_data,
        payload,
    };
    let remaining = if c > 0 {
        let mut r = BytesMut::new();
        r.resize(c as usize, 0);
        Some(r)
    } else {
        None
    };
    let _ = conn.handle_first_packet(now, addr(1, 4433), None, 0, packet, remaining);
    let want = a as u64 + 1 + b as u64 + 1 + c as u64;
    assert!(conn.path.total_recvd == want, "first datagram credited {} bytes instead of {}", conn.path.total_recvd, want);
    // and therefore at most three times that may be sent before validation
    assert!(conn.path.anti_amplification_blocked(3 * want + 1 - conn.path.total_sent.min(3 * want)));
    1
}

/// Native replay body for the E2 query `e2_on_packet_authenticated` (C04): every authenticated
/// packet - also one without a packet number (Retry, Version Negotiation) - counts towards
/// `total_authed_packets`, the counter that stops a client from following a Retry or a Version
/// Negotiation after it has accepted a server packet.
pub fn on_packet_authenticated_native(has_pn: bool) -> u32 {
    let mut conn = mk_conn(false, false);
    let now = crate::verif::mk_instant(51, 0).unwrap();
    let n0 = conn.total_authed_packets;
    conn.on_packet_authenticated(now, SpaceId::Initial, None, if has_pn { Some(0) } else { None }, false, false);
    assert!(conn.total_authed_packets == n0 + 1, "authenticated packet not counted");
    assert!(conn.permit_idle_reset);
    1
}

/// Native replay body for the E2 query `e2_peer_params_cid_auth` (C14 / C04, RFC 9000 §7.3): the
/// peer's transport parameters are accepted exactly when the connection IDs they echo are the ones
/// this endpoint saw on the wire (a client additionally checks original_dst_cid and retry_src_cid);
/// rejected parameters are never applied.
pub fn peer_params_cid_auth_native(server: bool, which: u8) -> u32 {
    let mut conn = mk_conn(server, false);
    let (a, b, x, y) = (ConnectionId::new(&[0xa1; 20]), ConnectionId::new(&[0xb2; 8]), ConnectionId::new(&[0xc3; 5]), ConnectionId::new(&[0xc3; 6]));
    // differs from `a` in the last byte only
    let mut a2 = [0xa1; 20];
    a2[19] = 0xa0;
    let a2 = ConnectionId::new(&a2);
    conn.orig_rem_cid = a;
    conn.initial_dst_cid = b;
    conn.retry_src_cid = None;
    let mut params = TransportParameters::default();
    params.initial_max_data = VarInt::from_u32(777);
    params.initial_src_cid = Some(a);
    params.original_dst_cid = Some(b);
    params.retry_src_cid = None;
    // expected verdict for a client; a server only checks initial_src_cid
    let (client_ok, server_ok) = match which {
        0 => (true, true),
        1 => { params.initial_src_cid = Some(a2); (false, false) }
        2 => { params.initial_src_cid = None; (false, false) }
        3 => { params.original_dst_cid = Some(x); (false, true) }
        4 => { conn.retry_src_cid = Some(x); (false, true) }
        5 => { params.retry_src_cid = Some(x); (false, true) }
        6 => { conn.retry_src_cid = Some(x); params.retry_src_cid = Some(x); (true, true) }
        7 => { conn.retry_src_cid = Some(x); params.retry_src_cid = Some(y); (false, true) }
        8 => { params.original_dst_cid = None; (false, true) }
        _ => return 0,
    };
    let want = if server { server_ok } else { client_ok };
    let before = conn.peer_params.initial_max_data;
    let r = conn.handle_peer_params(params);
    assert!(r.is_ok() == want, "CID authentication verdict: accepted={} expected={}", r.is_ok(), want);
    if want {
        assert!(conn.peer_params.initial_max_data == VarInt::from_u32(777), "accepted parameters were not applied");
    } else {
        assert!(conn.peer_params.initial_max_data == before, "rejected parameters were applied");
    }
    1
}

/// Native replay body for the E2 query `e2_migrate` (C15): after `Connection::migrate` the new path
/// is unvalidated and carries a pending challenge; the path to return to when validation fails is
/// replaced only by a path that was not itself awaiting validation.
pub fn migrate_native(old_challenged: bool, old_pending: bool, v4: bool, big_peer: bool) -> u32 {
    let mut conn = mk_conn(true, true);
    if big_peer {
        // a peer limit beyond u16 saturates, it does not wrap (66236 mod 65536 = 700)
        conn.peer_params.max_udp_payload_size = VarInt::from_u32(66236);
    }
    let now = crate::verif::mk_instant(51, 0).unwrap();
    // the original, validated path the connection may have to return to
    let original = PathData::new(addr(9, 9), false, None, 0, now, &conn.config);
    let mut orig = original;
    orig.validated = true;
    orig.total_sent = 1111;
    conn.prev_path = Some((ConnectionId::new(&[7; 8]), orig));
    conn.path.validated = !old_challenged;
    conn.path.challenge = if old_challenged { Some(5) } else { None };
    conn.path.challenge_pending = old_challenged && old_pending;
    conn.path.total_sent = 2222;
    let old_remote = conn.path.remote;
    let new_remote = if v4 { addr(1, 5555) } else { SocketAddr::new(IpAddr::V6(std::net::Ipv6Addr::new(0x2001, 0xdb8, 0, 0, 0, 0, 0, 1)), 1111) };
    conn.migrate(now, new_remote);
    assert!(conn.path.remote == new_remote);
    assert!(conn.path.current_mtu() >= 1200, "MTU estimate of the new path {} is below the minimum although the peer allows more", conn.path.current_mtu());
    assert!(!conn.path.validated, "a path created by migration starts validated");
    assert!(conn.path.challenge.is_some() && conn.path.challenge_pending, "no challenge pending on the new path");
    assert!(conn.timers.get(Timer::PathValidation).is_some(), "path validation timer not armed");
    let (_, prev) = conn.prev_path.as_ref().expect("previous path dropped");
    if old_challenged {
        assert!(prev.remote == addr(9, 9) && prev.total_sent == 1111, "an unvalidated path replaced the path to return to");
        1
    } else {
        assert!(prev.remote == old_remote && prev.total_sent == 2222, "the validated path was not kept as the path to return to");
        assert!(prev.challenge.is_some() && prev.challenge_pending);
        assert!(prev.challenge != conn.path.challenge, "the old and the new address are challenged with the same token: the echo of one validates the other");
        2
    }
}

fn set_state(conn: &mut Connection, state: u8) {
    match state {
        0 => {}
        1 => conn.state = State::Established,
        2 => conn.state = State::Closed(state::Closed { reason: Close::Application(frame::ApplicationClose { error_code: VarInt::from_u32(1), reason: Bytes::new() }) }),
        3 => conn.state = State::Draining,
        _ => conn.state = State::Drained,
    }
}

/// Native replay body for the E2 query `e2_close_inner` (C08): a local close stops every timer and
/// arms only the close timer; closing again neither re-arms it nor changes the state.
pub fn close_inner_native(state: u8) -> u32 {
    let mut conn = mk_conn(false, false);
    set_state(&mut conn, state);
    let t0 = crate::verif::mk_instant(51, 0).unwrap();
    let t1 = crate::verif::mk_instant(52, 0).unwrap();
    let was_closed = conn.state.is_closed();
    conn.timers.set(Timer::Idle, t1);
    conn.timers.set(Timer::KeepAlive, t1);
    if was_closed {
        conn.timers.set(Timer::Close, t1);
    }
    let reason = || Close::Application(frame::ApplicationClose { error_code: VarInt::from_u32(7), reason: Bytes::new() });
    conn.close_inner(t0, reason());
    assert!(conn.state.is_closed());
    if was_closed {
        assert!(conn.timers.get(Timer::Close) == Some(t1), "closing a closed connection re-armed the close timer");
        return 2;
    }
    assert!(conn.close, "CONNECTION_CLOSE not scheduled");
    let armed = conn.timers.get(Timer::Close).expect("close timer not armed after close");
    assert!(armed > t0);
    for &t in &Timer::VALUES {
        assert!(t == Timer::Close || conn.timers.get(t).is_none(), "timer still armed after close");
    }
    // closing again, later: nothing moves
    conn.close_inner(t1, reason());
    assert!(conn.timers.get(Timer::Close) == Some(armed), "second close moved the close timer");
    1
}

/// Native replay body for the E2 query `e2_kill` (C08).
pub fn kill_native(state: u8) -> u32 {
    let mut conn = mk_conn(false, false);
    set_state(&mut conn, state);
    let t1 = crate::verif::mk_instant(52, 0).unwrap();
    conn.timers.set(Timer::Idle, t1);
    conn.timers.set(Timer::Close, t1);
    while conn.endpoint_events.pop_front().is_some() {}
    conn.kill(ConnectionError::TimedOut);
    assert!(conn.state.is_drained());
    for &t in &Timer::VALUES {
        assert!(conn.timers.get(t).is_none(), "timer armed on a drained connection");
    }
    assert!(conn.endpoint_events.len() == 1 && matches!(conn.endpoint_events[0], EndpointEventInner::Drained), "Drained not reported exactly once");
    1
}

/// Native replay body for the E2 query `e2_update_rem_cid` (C09): switching to the next remote CID
/// queues RETIRE_CONNECTION_ID for every sequence number given up (Data space) and announces the
/// new CID's stateless-reset token to the endpoint.
pub fn update_rem_cid_native(have_next: bool) -> u32 {
    let mut conn = mk_conn(false, false);
    while conn.endpoint_events.pop_front().is_some() {}
    let token = ResetToken::from([0x5a; 16]);
    if have_next {
        // sequence 1 is skipped (never issued), sequence 2 is the next usable CID
        conn.rem_cids
            .insert(frame::NewConnectionId { sequence: 2, retire_prior_to: 0, id: ConnectionId::new(&[8; 8]), reset_token: token })
            .unwrap();
    }
    let before = conn.spaces[SpaceId::Data].pending.retire_cids.clone();
    // the CID being left came with a reset token of its own (every switch but a client's first one)
    conn.peer_params.stateless_reset_token = Some(ResetToken::from([0x11; 16]));
    conn.update_rem_cid();
    if !have_next {
        assert!(conn.spaces[SpaceId::Data].pending.retire_cids == before && conn.endpoint_events.is_empty());
        return 1;
    }
    assert!(conn.rem_cids.active_seq() == 2);
    let retire = &conn.spaces[SpaceId::Data].pending.retire_cids;
    assert!(retire.contains(&0) && retire.contains(&1) && retire.len() == before.len() + 2, "skipped sequence numbers not queued for retirement in the Data space");
    assert!(conn.spaces[SpaceId::Handshake].pending.retire_cids.is_empty() && conn.spaces[SpaceId::Initial].pending.retire_cids.is_empty());
    assert!(conn.peer_params.stateless_reset_token == Some(token), "the reset token of the CID that was left is still in force");
    assert!(matches!(conn.endpoint_events.pop_front(), Some(EndpointEventInner::ResetToken(a, t)) if a == conn.path.remote && t == token), "reset token of the new CID not announced");
    2
}

/// Native replay body for the E2 query `e2_set_peer_params` (C05 / C06 / C13 / C08): the received
/// parameters are the ones stored, handed to the stream state, to MTU discovery (saturated to u16)
/// and to the idle-timeout negotiation.
pub fn set_peer_params_native(mups: u32) -> u32 {
    let mut conn = mk_conn(false, false);
    let mut params = TransportParameters::default();
    params.initial_max_data = VarInt::from_u32(4321);
    params.initial_max_streams_bidi = VarInt::from_u32(7);
    params.max_idle_timeout = VarInt::from_u32(1234);
    params.max_ack_delay = VarInt::from_u32(55);
    params.max_udp_payload_size = VarInt::from_u32(mups);
    conn.set_peer_params(params);
    assert!(conn.peer_params == params, "stored parameters differ from the received ones");
    let (max_data, max_bi) = streams::state::peek_send_limits(&conn.streams);
    assert!(max_data == 4321, "connection-level send limit not taken from the received parameters");
    assert!(max_bi == 7);
    let want_idle = match conn.config.max_idle_timeout {
        Some(x) => x.0.min(1234),
        None => 1234,
    };
    assert!(conn.idle_timeout == Some(Duration::from_millis(want_idle)), "idle timeout not negotiated against the peer's value");
    // the estimate never falls below the smaller of the minimum MTU and the peer's limit
    assert!(conn.path.mtud.current_mtu() as u32 >= mups.min(1200), "MTU estimate {} fell below min(min_mtu, peer limit {})", conn.path.mtud.current_mtu(), mups);
    // no probe may exceed the peer's limit
    let cap = mups.min(65535) as u16;
    let probe = conn.path.mtud.poll_transmit(crate::verif::mk_instant(60, 0).unwrap(), 0);
    if let Some(p) = probe {
        assert!(p <= cap, "MTU probe above the peer's max_udp_payload_size");
    }
    1
}

/// Native replay body for the E2 queries `e2_reset_idle_timeout` / `e2_set_close_timer` (C08).
pub fn idle_close_timers_native(state: u8, has_idle: bool) -> u32 {
    let mut conn = mk_conn(false, false);
    set_state(&mut conn, state);
    let now = crate::verif::mk_instant(51, 0).unwrap();
    let marker = crate::verif::mk_instant(40, 0).unwrap();
    conn.idle_timeout = if has_idle { Some(Duration::from_millis(10)) } else { None };
    conn.timers.set(Timer::Idle, marker);
    for space in [SpaceId::Initial, SpaceId::Handshake, SpaceId::Data] {
        conn.timers.set(Timer::Idle, marker);
        conn.reset_idle_timeout(now, space);
        let got = conn.timers.get(Timer::Idle);
        if !has_idle {
            assert!(got == Some(marker), "idle timer touched although no idle timeout is in force");
        } else if conn.state.is_closed() {
            assert!(got.is_none(), "idle timer armed on a closed connection");
        } else {
            // 10 ms is far below 3 PTO (initial RTT 333 ms): the PTO floor decides
            let floor = 3 * conn.pto(space);
            assert!(floor > Duration::from_millis(10));
            assert!(got == Some(now + floor), "idle timer must be now + max(idle timeout, 3 PTO)");
            // and a long idle timeout decides when it exceeds 3 PTO
            conn.idle_timeout = Some(Duration::from_secs(600));
            conn.reset_idle_timeout(now, space);
            assert!(conn.timers.get(Timer::Idle) == Some(now + Duration::from_secs(600)));
            conn.idle_timeout = Some(Duration::from_millis(10));
        }
    }
    conn.timers.stop(Timer::Close);
    conn.set_close_timer(now);
    assert!(conn.timers.get(Timer::Close) == Some(now + 3 * conn.pto(conn.highest_space)), "close timer must be now + 3 PTO");
    1
}

/// Native replay body for the E2 queries `e2_update_keys` / `e2_decrypt_packet_key_update` /
/// `e2_decrypt_packet_body_keys` (C04): a packet key that authenticates a payload iff its last byte is
/// the key's tag stands in for the AEAD.  Current keys = tag 1, next keys = tag 2, the keys derived
/// after an update = tag 3.  A packet with a flipped key-phase bit rotates the keys exactly when it
/// authenticates under the NEXT keys; a forged one (wrong tag) changes nothing; afterwards packets of
/// the new phase authenticate under the (new) current keys and stragglers of the old phase under the
/// previous keys.
pub fn update_keys_native(remote: bool) -> u32 {
    use crate::crypto::{CryptoError, KeyPair, PacketKey};
    struct TagKey(u8);
    impl PacketKey for TagKey {
        fn encrypt(&self, _: u64, _: &mut [u8], _: usize) {}
        fn decrypt(&self, _: u64, _: &[u8], payload: &mut BytesMut) -> Result<(), CryptoError> {
            if payload.last() == Some(&self.0) { Ok(()) } else { Err(CryptoError) }
        }
        fn tag_len(&self) -> usize { 0 }
        fn confidentiality_limit(&self) -> u64 { u64::MAX }
        fn integrity_limit(&self) -> u64 { u64::MAX }
    }
    struct Sess;
    impl crate::crypto::Session for Sess {
        fn initial_keys(&self, _: ConnectionId, _: Side) -> crate::crypto::Keys { nullcrypto::keys() }
        fn handshake_data(&self) -> Option<Box<dyn std::any::Any>> { None }
        fn peer_identity(&self) -> Option<Box<dyn std::any::Any>> { None }
        fn early_crypto(&self) -> Option<(Box<dyn crate::crypto::HeaderKey>, Box<dyn PacketKey>)> { None }
        fn early_data_accepted(&self) -> Option<bool> { None }
        fn is_handshaking(&self) -> bool { false }
        fn read_handshake(&mut self, _: &[u8]) -> Result<bool, TransportError> { Ok(false) }
        fn transport_parameters(&self) -> Result<Option<TransportParameters>, TransportError> { Ok(None) }
        fn write_handshake(&mut self, _: &mut Vec<u8>) -> Option<crate::crypto::Keys> { None }
        fn next_1rtt_keys(&mut self) -> Option<KeyPair<Box<dyn PacketKey>>> {
            Some(KeyPair { local: Box::new(TagKey(3)), remote: Box::new(TagKey(3)) })
        }
        fn is_valid_retry(&self, _: ConnectionId, _: &[u8], _: &[u8]) -> bool { false }
        fn export_keying_material(&self, _: &mut [u8], _: &[u8], _: &[u8]) -> Result<(), crate::crypto::ExportKeyingMaterialError> { Err(crate::crypto::ExportKeyingMaterialError) }
    }
    let pair = |t: u8| -> KeyPair<Box<dyn PacketKey>> { KeyPair { local: Box::new(TagKey(t)), remote: Box::new(TagKey(t)) } };
    let mut conn = mk_conn(false, false);
    conn.crypto = Box::new(Sess);
    let mut keys = nullcrypto::keys();
    keys.packet = pair(1);
    conn.spaces[SpaceId::Data].crypto = Some(keys);
    conn.next_crypto = Some(pair(2));
    conn.spaces[SpaceId::Data].sent_with_keys = 77;
    conn.spaces[SpaceId::Data].rx_packet = 4;
    let now = crate::verif::mk_instant(51, 0).unwrap();
    let kp0 = conn.key_phase;
    let mk = |key_phase: bool, number: u8, tag: u8| Packet {
        header: Header::Short { spin: false, key_phase, dst_cid: ConnectionId::new(&[2; 8]), number: PacketNumber::U8(number) },
        header_data: Bytes::from_static(&[0x40, 2, 2, 2, 2, 2, 2, 2, 2, 0]),
        payload: BytesMut::from(&[0u8, 0, tag][..]),
    };
    if !remote {
        // a locally initiated update through the same routine
        conn.update_keys(None, false);
        assert!(conn.key_phase == !kp0, "key phase did not flip");
        let prev = conn.prev_crypto.as_ref().expect("old keys not kept");
        assert!(!prev.update_unacked && prev.end_packet.is_none());
        assert!(conn.spaces[SpaceId::Data].sent_with_keys == 0, "sent-with-keys counter not restarted");
        return 1;
    }
    // forged: flipped phase bit but it does not authenticate under the next keys
    let mut forged = mk(!kp0, 5, 9);
    assert!(conn.decrypt_packet(now, &mut forged).is_err(), "a packet that authenticates under no key was accepted");
    assert!(conn.key_phase == kp0 && conn.prev_crypto.is_none(), "an unauthentic packet rotated the keys");
    // genuine update by the peer
    let mut upd = mk(!kp0, 5, 2);
    assert!(matches!(conn.decrypt_packet(now, &mut upd), Ok(Some(5))), "a genuine key update was rejected");
    assert!(conn.key_phase == !kp0, "key phase did not flip on an authenticated update");
    let prev = conn.prev_crypto.as_ref().expect("old keys not kept");
    assert!(prev.update_unacked && prev.end_packet.map(|x| x.0) == Some(5), "previous keys not tagged as a remote update ending at the updating packet");
    assert!(conn.spaces[SpaceId::Data].sent_with_keys == 0);
    // a straggler of the old phase with a lower number still authenticates under the previous keys only
    let mut old = mk(kp0, 3, 1);
    assert!(matches!(conn.decrypt_packet(now, &mut old), Ok(Some(3))), "a straggler of the previous key phase was rejected");
    let mut old_wrong = mk(kp0, 3, 2);
    assert!(conn.decrypt_packet(now, &mut old_wrong).is_err(), "a packet of the previous phase was authenticated under the wrong keys");
    assert!(conn.key_phase == !kp0);
    // key phases exist in the Data space only: a Handshake packet is authenticated under the Handshake keys
    // whatever the connection's key phase is
    let mut hk = nullcrypto::keys();
    hk.packet = pair(7);
    conn.spaces[SpaceId::Handshake].crypto = Some(hk);
    for phase in [false, true] {
        conn.key_phase = phase;
        let mut hs = Packet {
            header: Header::Long { ty: LongType::Handshake, dst_cid: ConnectionId::new(&[2; 8]), src_cid: ConnectionId::new(&[3; 8]), number: PacketNumber::U8(1), version: 1 },
            header_data: Bytes::from_static(&[0xe0, 0, 0, 0, 1]),
            payload: BytesMut::from(&[0u8, 0, 7][..]),
        };
        assert!(matches!(conn.decrypt_packet(now, &mut hs), Ok(Some(1))), "a Handshake packet was not authenticated under the Handshake keys");
    }
    2
}

/// Native replay body for the E2 queries `e2_datagrams_max_size` / `e2_datagrams_send` (C16): on a real
/// connection whose peer advertised `peer` as max_datagram_frame_size, `max_size` leaves room for the
/// largest DATAGRAM framing under both the peer's limit and the current path MTU, and `send` admits a
/// datagram of `len_` bytes exactly when it is no longer than that (and the send buffer).
pub fn dgram_api_native(peer: u32, len_: u16, drop: bool) -> u32 {
    let mut conn = mk_conn(false, false);
    conn.peer_params.max_datagram_frame_size = Some(VarInt::from_u32(peer));
    let mtu = conn.path.current_mtu() as usize;
    let overhead = conn.predict_1rtt_overhead(None);
    let max = conn.datagrams().max_size().expect("peer supports datagrams");
    let want = (peer as usize).saturating_sub(9).min(mtu - overhead - 9);
    assert!(max == want, "max_size {} but peer limit {} / MTU {} allow {}", max, peer, mtu, want);
    // the promise: a maximum-size datagram, framed with its length, fits the peer's limit and one packet
    assert!(max + 9 <= (peer as usize).max(9) && max + 9 + overhead <= mtu);
    let sbs = conn.config.datagram_send_buffer_size;
    let data = Bytes::from(vec![7u8; len_ as usize]);
    let r = conn.datagrams().send(data, drop);
    if len_ as usize > max.min(sbs) {
        assert!(matches!(r, Err(SendDatagramError::TooLarge)), "an oversized datagram was not refused as TooLarge");
        assert!(conn.datagrams.outgoing.is_empty());
        2
    } else {
        assert!(r.is_ok(), "a datagram within max_size was refused");
        assert!(conn.datagrams.outgoing.len() == 1 && conn.datagrams.outgoing_total == len_ as usize);
        // and nothing of it is dropped as oversized for the current path
        let kept = !conn.datagrams.drop_oversized(max + 1);
        assert!(kept);
        1
    }
}

/// Native replay body for the E2 slice query `e2_handle_packet_tail` (C08): a connection that has sent
/// its CONNECTION_CLOSE (close timer armed) and then receives a stateless reset becomes drained - the
/// close timer must not stay armed, and Drained is reported exactly once.
pub fn handle_packet_tail_native(_x: u8) -> u32 {
    let mut conn = mk_conn(false, false);
    set_state(&mut conn, 2); // Closed: CONNECTION_CLOSE sent, waiting out the close timer
    let t1 = crate::verif::mk_instant(60, 0).unwrap();
    let now = crate::verif::mk_instant(51, 0).unwrap();
    conn.timers.set(Timer::Close, t1);
    while conn.endpoint_events.pop_front().is_some() {}
    conn.handle_packet(now, addr(1, 4433), None, None, true);
    assert!(conn.state.is_drained(), "a stateless reset must drain the connection");
    assert!(conn.timers.get(Timer::Close).is_none(), "close timer still armed on a drained connection");
    let drained = conn.endpoint_events.iter().filter(|e| matches!(e, EndpointEventInner::Drained)).count();
    assert!(drained == 1, "Drained reported {} times", drained);
    // a second reset changes nothing and reports nothing
    conn.handle_packet(now, addr(1, 4433), None, None, true);
    let drained = conn.endpoint_events.iter().filter(|e| matches!(e, EndpointEventInner::Drained)).count();
    assert!(drained == 1, "Drained reported again");
    1
}

/// Native replay body for the E2 slice queries `e2_retry_acceptance_slice` (C14 / C04) and
/// `e2_retry_resets_initial_space_slice` (C12): a client with an Initial and its retransmission (1200 bytes each) in flight receives
/// a Retry.  If the integrity tag verifies and nothing else was authenticated before, the Retry is
/// followed: the new source CID is adopted and the old Initial no longer counts as in flight.  Otherwise
/// it is ignored completely.
pub fn retry_native(valid: bool, authed_before: u8) -> u32 {
    let mut conn = mk_conn(false, false);
    nullcrypto::RETRY_VALID.store(valid, std::sync::atomic::Ordering::Relaxed);
    conn.state = State::Handshake(state::Handshake { rem_cid_set: false, expected_token: Bytes::new(), client_hello: Some(Bytes::from_static(b"client hello")) });
    let t0 = crate::verif::mk_instant(50, 0).unwrap();
    let now = crate::verif::mk_instant(51, 0).unwrap();
    // the first Initial and one retransmission of it are in flight
    for pn in 0..2u64 {
        let sent = SentPacket { path_generation: 0, time_sent: t0, size: 1200, ack_eliciting: true, largest_acked: None, retransmits: ThinRetransmits::default(), stream_frames: Default::default() };
        paths::in_flight_insert(&mut conn.path, &sent);
        conn.spaces[SpaceId::Initial].sent(pn, sent);
    }
    conn.total_authed_packets = authed_before as u64;
    assert!(paths::in_flight_bytes(&conn.path) == 2400);
    let new_cid = ConnectionId::new(&[0x77; 8]);
    let packet = Packet {
        header: Header::Retry { dst_cid: ConnectionId::new(&[2; 8]), src_cid: new_cid, version: 1 },
        header_data: Bytes::from_static(&[0xf0, 0, 0, 0, 1]),
        payload: BytesMut::from(&[1u8, 2, 3, 4, 0, 0, 0, 0, 0, 0, 0, 0, 0, 0, 0, 0, 0, 0, 0, 0][..]),
    };
    let r = conn.process_decrypted_packet(now, addr(1, 4433), None, packet);
    assert!(r.is_ok());
    let follow = valid && authed_before <= 1;
    if follow {
        assert!(conn.retry_src_cid == Some(new_cid), "a valid first Retry was not followed");
        assert!(paths::in_flight_bytes(&conn.path) == 0, "Initials sent before the Retry still count as in flight ({} bytes)", paths::in_flight_bytes(&conn.path));
        1
    } else {
        assert!(conn.retry_src_cid.is_none(), "an invalid or late Retry was followed");
        assert!(paths::in_flight_bytes(&conn.path) == 2400);
        2
    }
}

/// Native replay body for the E2 slice query `e2_retry_requeues_early_frames_slice` (C17 / C01): a client that
/// has sent a RESET_STREAM and a MAX_DATA in a 0-RTT packet receives a valid Retry.  The 0-RTT packet is
/// forgotten by loss detection (the server never saw it), so the frames it carried must be queued again - and
/// it must no longer count as in flight.
pub fn retry_early_frames_native(_x: u8) -> u32 {
    let mut conn = mk_conn(false, false);
    nullcrypto::RETRY_VALID.store(true, std::sync::atomic::Ordering::Relaxed);
    conn.state = State::Handshake(state::Handshake { rem_cid_set: false, expected_token: Bytes::new(), client_hello: Some(Bytes::from_static(b"client hello")) });
    let t0 = crate::verif::mk_instant(50, 0).unwrap();
    let now = crate::verif::mk_instant(51, 0).unwrap();
    let initial = SentPacket { path_generation: 0, time_sent: t0, size: 1200, ack_eliciting: true, largest_acked: None, retransmits: ThinRetransmits::default(), stream_frames: Default::default() };
    paths::in_flight_insert(&mut conn.path, &initial);
    conn.spaces[SpaceId::Initial].sent(0, initial);
    let id = StreamId::new(Side::Client, Dir::Uni, 0);
    let mut early = ThinRetransmits::default();
    early.get_or_create().reset_stream.push((id, VarInt::from_u32(7)));
    early.get_or_create().max_data = true;
    let zero_rtt = SentPacket { path_generation: 0, time_sent: t0, size: 300, ack_eliciting: true, largest_acked: None, retransmits: early, stream_frames: Default::default() };
    paths::in_flight_insert(&mut conn.path, &zero_rtt);
    conn.spaces[SpaceId::Data].sent(0, zero_rtt);
    assert!(paths::in_flight_bytes(&conn.path) == 1500);
    let packet = Packet {
        header: Header::Retry { dst_cid: ConnectionId::new(&[2; 8]), src_cid: ConnectionId::new(&[0x77; 8]), version: 1 },
        header_data: Bytes::from_static(&[0xf0, 0, 0, 0, 1]),
        payload: BytesMut::from(&[1u8, 2, 3, 4, 0, 0, 0, 0, 0, 0, 0, 0, 0, 0, 0, 0, 0, 0, 0, 0][..]),
    };
    conn.total_authed_packets = 1;
    let r = conn.process_decrypted_packet(now, addr(1, 4433), None, packet);
    assert!(r.is_ok() && conn.retry_src_cid.is_some(), "the valid first Retry was not followed");
    assert!(paths::in_flight_bytes(&conn.path) == 0, "the discarded 0-RTT packet still counts as in flight ({} bytes)", paths::in_flight_bytes(&conn.path));
    assert!(conn.spaces[SpaceId::Data].sent_packets.get(0).is_none());
    let pending = &conn.spaces[SpaceId::Data].pending;
    assert!(pending.reset_stream.iter().any(|&(s, c)| s == id && c == VarInt::from_u32(7)), "the RESET_STREAM sent in the discarded 0-RTT packet is never sent again");
    assert!(pending.max_data, "the MAX_DATA sent in the discarded 0-RTT packet is never sent again");
    1
}

/// Native replay body for the E2 slice query `e2_black_hole_purges_datagrams_slice` (C16 / C13): a
/// connection at MTU 1452 with a 1300-byte datagram queued declares a large packet lost; that is the
/// loss burst that reveals a black hole, the estimate falls back to 1200 - and the queued datagram,
/// which can never be sent on this path again, must be gone (and the application told it may send).
pub fn black_hole_datagrams_native(_x: u8) -> u32 {
    let mut conn = mk_conn(false, false);
    conn.peer_params.max_datagram_frame_size = Some(VarInt::from_u32(65535));
    conn.path.mtud = mtud::mk_black_hole_ready();
    assert!(conn.path.current_mtu() == 1452);
    let t0 = crate::verif::mk_instant(50, 0).unwrap();
    let now = crate::verif::mk_instant(55, 0).unwrap();
    assert!(conn.datagrams().send(Bytes::from(vec![1u8; 1300]), false).is_ok(), "1300 bytes fit a 1452-byte path");
    let blocked = _x == 0;
    conn.datagrams.send_blocked = blocked;
    // one large packet in flight in the Data space, far behind the largest acknowledged one
    let sent = SentPacket { path_generation: 0, time_sent: t0, size: 1400, ack_eliciting: true, largest_acked: None, retransmits: ThinRetransmits::default(), stream_frames: Default::default() };
    paths::in_flight_insert(&mut conn.path, &sent);
    conn.spaces[SpaceId::Data].sent(7, sent);
    conn.spaces[SpaceId::Data].largest_acked_packet = Some(20);
    conn.spaces[SpaceId::Data].largest_acked_packet_sent = t0;
    conn.detect_lost_packets(now, SpaceId::Data, true);
    assert!(conn.stats.path.black_holes_detected == 1, "the prepared loss burst did not trigger black hole detection");
    assert!(conn.path.current_mtu() == 1200);
    let max = conn.datagrams().max_size().unwrap();
    assert!(max < 1300);
    assert!(conn.datagrams.outgoing.iter().all(|d| d.data.len() <= max), "a datagram that no longer fits the path is still queued after the black hole was detected");
    assert!(!conn.datagrams.send_blocked, "application not told that datagrams can be sent again");
    1 + blocked as u32
}

/// Native replay body for the E2 slice query `e2_poll_transmit_pad_guard_slice` (C13): an established
/// connection with `pad_to_mtu` on and an MTU estimate of 1452 owes one loss probe.  Loss probes are
/// the packets that must get through a path whose MTU has silently shrunk: the datagram carrying it
/// may not exceed 1200 bytes, padding or not.
pub fn loss_probe_size_native(_x: u8) -> u32 {
    let mut conn = mk_conn(false, false);
    let mut cfg = TransportConfig::default();
    cfg.pad_to_mtu(true);
    if _x == 1 {
        // a configuration that promises a larger minimum MTU does not enlarge loss probes
        cfg.min_mtu(1400);
    }
    conn.config = Arc::new(cfg);
    conn.state = State::Established;
    conn.path.mtud = mtud::mk_black_hole_ready();
    assert!(conn.path.current_mtu() == 1452);
    conn.path.validated = true;
    conn.spaces[SpaceId::Data].crypto = Some(nullcrypto::keys());
    conn.highest_space = SpaceId::Data;
    // drop the handshake spaces so that only the Data space can send
    conn.spaces[SpaceId::Initial].crypto = None;
    conn.spaces[SpaceId::Handshake].crypto = None;
    conn.spaces[SpaceId::Data].loss_probes = 1;
    conn.spaces[SpaceId::Data].ping_pending = true;
    if _x == 1 {
        // enough stream data to fill whatever the probe is allowed to carry
        conn.peer_params.initial_max_data = VarInt::from_u32(1 << 20);
        conn.peer_params.initial_max_streams_uni = VarInt::from_u32(4);
        conn.peer_params.initial_max_stream_data_uni = VarInt::from_u32(1 << 16);
        let pp = conn.peer_params;
        conn.streams.set_params(&pp);
        let s = conn.streams().open(Dir::Uni).expect("stream credit");
        assert!(conn.send_stream(s).write(&[7u8; 8000]).is_ok());
    }
    let now = crate::verif::mk_instant(51, 0).unwrap();
    let mut buf = Vec::with_capacity(8 * 1452);
    let Some(t) = conn.poll_transmit(now, 1, &mut buf) else { panic!("a pending loss probe was not sent") };
    assert!(t.size <= 1200, "{} byte loss probe exceeds 1200 bytes", t.size);
    1
}

fn mk_established(server: bool) -> Connection {
    let mut conn = mk_conn(server, false);
    conn.state = State::Established;
    conn.path.validated = true;
    conn.spaces[SpaceId::Data].crypto = Some(nullcrypto::keys());
    conn.highest_space = SpaceId::Data;
    conn.spaces[SpaceId::Initial].crypto = None;
    conn.spaces[SpaceId::Handshake].crypto = None;
    conn
}

/// Native replay body for the E2 slice query `e2_poll_transmit_new_datagram_gate_slice` (C07 / C12):
/// mode 0 - an unvalidated path that has already sent three times what it received sends nothing, not
///          even an MTU probe (MTU discovery is on, as by default);
/// mode 1 - with the congestion window full, ack-eliciting data is not sent;
/// mode 2 - a loss probe is sent even with the congestion window full (but never on a blocked path).
pub fn poll_transmit_gates_native(mode: u8) -> u32 {
    let mut conn = mk_established(true);
    let now = crate::verif::mk_instant(51, 0).unwrap();
    let mut buf = Vec::with_capacity(8 * 1452);
    conn.spaces[SpaceId::Data].ping_pending = true;
    match mode {
        0 => {
            conn.path.validated = false;
            conn.path.total_recvd = 100;
            conn.path.total_sent = 300;
            conn.spaces[SpaceId::Data].loss_probes = 1;
            let t = conn.poll_transmit(now, 1, &mut buf);
            assert!(t.is_none(), "sent {} bytes to an unvalidated address beyond three times what it sent us", t.map(|t| t.size).unwrap_or(0));
            1
        }
        1 => {
            // (single MTU probes are exempt from congestion control; keep them out of the picture)
            conn.path.mtud = mtud::mk_disabled();
            let w = conn.path.congestion.window();
            let filler = SentPacket { path_generation: 0, time_sent: now, size: 1200, ack_eliciting: true, largest_acked: None, retransmits: ThinRetransmits::default(), stream_frames: Default::default() };
            let mut k = 0;
            while paths::in_flight_bytes(&conn.path) + 1200 < w {
                paths::in_flight_insert(&mut conn.path, &filler);
                k += 1;
            }
            assert!(k > 0);
            let t = conn.poll_transmit(now, 1, &mut buf);
            assert!(t.is_none(), "ack-eliciting data sent although bytes in flight + one datagram reach the congestion window");
            2
        }
        _ => {
            let w = conn.path.congestion.window();
            let filler = SentPacket { path_generation: 0, time_sent: now, size: 1200, ack_eliciting: true, largest_acked: None, retransmits: ThinRetransmits::default(), stream_frames: Default::default() };
            while paths::in_flight_bytes(&conn.path) + 1200 < w {
                paths::in_flight_insert(&mut conn.path, &filler);
            }
            conn.spaces[SpaceId::Data].loss_probes = 1;
            let t = conn.poll_transmit(now, 1, &mut buf);
            assert!(t.is_some(), "a loss probe was held back by congestion control");
            3
        }
    }
}

/// Native replay body for the E2 slice query `e2_on_packet_acked_slice` (C12): acknowledging a packet
/// removes exactly its bytes from bytes-in-flight, whether or not it was ack-eliciting.
pub fn on_packet_acked_native(eliciting: bool) -> u32 {
    let mut conn = mk_established(false);
    let t0 = crate::verif::mk_instant(50, 0).unwrap();
    let now = crate::verif::mk_instant(51, 0).unwrap();
    let mk = |size: u16| SentPacket { path_generation: 0, time_sent: t0, size, ack_eliciting: eliciting, largest_acked: None, retransmits: ThinRetransmits::default(), stream_frames: Default::default() };
    let (a, b) = (mk(700), mk(500));
    paths::in_flight_insert(&mut conn.path, &a);
    paths::in_flight_insert(&mut conn.path, &b);
    assert!(paths::in_flight_bytes(&conn.path) == 1200);
    conn.on_packet_acked(now, a);
    assert!(paths::in_flight_bytes(&conn.path) == 500, "acknowledged packet still (or doubly) accounted: {} bytes in flight", paths::in_flight_bytes(&conn.path));
    conn.on_packet_acked(now, b);
    assert!(paths::in_flight_bytes(&conn.path) == 0, "bytes in flight do not return to zero");
    1
}

/// Native replay body for the E2 query `e2_handle_timeout_iteration` (C08): the peer has gone silent.
/// Keep-alives keep firing every 100 ms, but they are our own packets: the idle timer (1 s) armed when we
/// last heard from the peer must not move, and the connection must time out on schedule.
pub fn keep_alive_idle_native(_x: u8) -> u32 {
    let mut conn = mk_established(false);
    conn.path.mtud = mtud::mk_disabled();
    let mut cfg = TransportConfig::default();
    cfg.keep_alive_interval(Some(Duration::from_millis(100)));
    conn.config = Arc::new(cfg);
    conn.idle_timeout = Some(Duration::from_millis(1000));
    // the last packet from the peer was acknowledged long ago; since then only we have been sending
    conn.permit_idle_reset = false;
    let t0 = crate::verif::mk_instant(50, 0).unwrap();
    let deadline = t0 + Duration::from_secs(3); // generous: max(idle timeout, 3 PTO) is what the timer was armed with
    conn.timers.set(Timer::Idle, deadline);
    conn.timers.set(Timer::KeepAlive, t0 + Duration::from_millis(100));
    let mut buf = Vec::with_capacity(4096);
    let mut t = t0;
    for _ in 0..60 {
        t = t + Duration::from_millis(100);
        conn.handle_timeout(t);
        while conn.poll_transmit(t, 1, &mut buf).is_some() {
            buf.clear();
        }
        if conn.state.is_closed() {
            break;
        }
        assert!(conn.timers.get(Timer::Idle).map_or(true, |x| x <= deadline), "the idle deadline moved although nothing was received from the peer");
        if conn.timers.get(Timer::KeepAlive).is_none() {
            conn.timers.set(Timer::KeepAlive, t + Duration::from_millis(100));
        }
    }
    assert!(conn.state.is_closed(), "a silent peer was never timed out");
    assert!(t <= deadline + Duration::from_millis(100));
    1
}

/// Demonstration / replay body for the E2 slice query `e2_off_path_response_slice` (C07): an established
/// server whose peer may migrate receives `n` tiny (22-byte) authentic datagrams carrying a PATH_CHALLENGE
/// from an address that is NOT the connection's path.  Whatever it sends to that address must stay within
/// three times what came from there (plus the completion of one datagram).
pub fn off_path_challenge_native(n: u8) -> u32 {
    let mut conn = mk_conn(true, true);
    conn.state = State::Established;
    conn.path.validated = true;
    conn.spaces[SpaceId::Data].crypto = Some(nullcrypto::tagged_keys(0));
    conn.highest_space = SpaceId::Data;
    conn.spaces[SpaceId::Initial].crypto = None;
    conn.spaces[SpaceId::Handshake].crypto = None;
    conn.path.mtud = mtud::mk_disabled();
    // the connection has been talking to its peer for a while
    conn.path.total_recvd = 10_000;
    conn.path.total_sent = 10_000;
    let now = crate::verif::mk_instant(51, 0).unwrap();
    let victim = addr(66, 7777);
    let (mut received, mut sent) = (0usize, 0usize);
    let mut buf = Vec::with_capacity(4096);
    for i in 0..n {
        let mut v = vec![0x40u8, 2, 2, 2, 2, 2, 2, 2, 2, i + 1, 0x1a, 9, 9, 9, 9, 9, 9, 9, i];
        v.extend_from_slice(&[0, 0, 0]); // PADDING frames; the last byte is also what the stand-in AEAD checks (tag 0)
        let bytes = BytesMut::from(&v[..]);
        let (first_decode, remaining) = PartialDecode::new(bytes, &FixedLengthConnectionIdParser::new(8), &[1], true).ok().expect("decodes");
        conn.handle_event(ConnectionEvent(ConnectionEventInner::Datagram(DatagramConnectionEvent { now, remote: victim, ecn: None, first_decode, remaining })));
        received += v.len();
        for _ in 0..8 {
            match conn.poll_transmit(now, 1, &mut buf) {
                Some(t) => {
                    if t.destination == victim {
                        sent += t.size;
                    }
                    buf.clear();
                }
                None => break,
            }
        }
    }
    assert!(conn.path.remote == addr(1, 4433), "a probing packet must not move the connection");
    // every probe is far below 400 bytes, so no answer to it may be padded to a full-size datagram: the unpadded
    // answers stay within three times what the address sent, without any allowance
    assert!(sent <= 3 * received, "{} bytes sent to an off-path address that sent {} bytes", sent, received);
    1
}

/// Native replay body for the E2 queries `e2_handle_coalesced_credit` / `e2_handle_coalesced_loop_body_slice`
/// (C07): a datagram made of k + 1 coalesced (undecryptable) long-header stubs arrives at a server whose
/// path is not validated.  The anti-amplification credit grows by exactly the datagram's length - not by
/// more, however many packets it is cut into.
pub fn handle_coalesced_credit_native(k: u8) -> u32 {
    let mut conn = mk_conn(true, false);
    conn.path.validated = false;
    let now = crate::verif::mk_instant(51, 0).unwrap();
    let stub = [0xd0u8, 0, 0, 0, 1, 0, 0, 0];
    let mut v = Vec::new();
    for _ in 0..=k {
        v.extend_from_slice(&stub);
    }
    let total = v.len() as u64;
    let before = conn.path.total_recvd;
    let (first_decode, remaining) = PartialDecode::new(BytesMut::from(&v[..]), &FixedLengthConnectionIdParser::new(8), &[1], true).ok().expect("stub decodes");
    assert!(remaining.is_some() == (k > 0));
    conn.handle_event(ConnectionEvent(ConnectionEventInner::Datagram(DatagramConnectionEvent { now, remote: addr(1, 4433), ecn: None, first_decode, remaining })));
    assert!(conn.path.total_recvd == before + total, "a {}-byte datagram was credited as {} bytes", total, conn.path.total_recvd - before);
    1
}

/// Native replay body for the E2 query `e2_init_0rtt_scrubs_params` (C04 / C14): a client resumes with
/// remembered transport parameters that still contain the PREVIOUS connection's stateless reset token
/// and connection IDs.  None of these may be in force while the new handshake runs.
pub fn init_0rtt_native(_x: u8) -> u32 {
    use crate::crypto::{HeaderKey, KeyPair, PacketKey};
    struct Resuming;
    impl crate::crypto::Session for Resuming {
        fn initial_keys(&self, _: ConnectionId, _: Side) -> crate::crypto::Keys { nullcrypto::keys() }
        fn handshake_data(&self) -> Option<Box<dyn std::any::Any>> { None }
        fn peer_identity(&self) -> Option<Box<dyn std::any::Any>> { None }
        fn early_crypto(&self) -> Option<(Box<dyn HeaderKey>, Box<dyn PacketKey>)> {
            Some((Box::new(nullcrypto::NullHeaderKey), Box::new(nullcrypto::NullPacketKey)))
        }
        fn early_data_accepted(&self) -> Option<bool> { None }
        fn is_handshaking(&self) -> bool { true }
        fn read_handshake(&mut self, _: &[u8]) -> Result<bool, TransportError> { Ok(false) }
        fn transport_parameters(&self) -> Result<Option<TransportParameters>, TransportError> {
            let mut p = TransportParameters::default();
            p.initial_max_data = VarInt::from_u32(5555);
            p.stateless_reset_token = Some(ResetToken::from([0x77; 16]));
            p.initial_src_cid = Some(ConnectionId::new(&[1; 8]));
            p.original_dst_cid = Some(ConnectionId::new(&[2; 8]));
            p.retry_src_cid = Some(ConnectionId::new(&[3; 8]));
            Ok(Some(p))
        }
        fn write_handshake(&mut self, _: &mut Vec<u8>) -> Option<crate::crypto::Keys> { None }
        fn next_1rtt_keys(&mut self) -> Option<KeyPair<Box<dyn PacketKey>>> { None }
        fn is_valid_retry(&self, _: ConnectionId, _: &[u8], _: &[u8]) -> bool { false }
        fn export_keying_material(&self, _: &mut [u8], _: &[u8], _: &[u8]) -> Result<(), crate::crypto::ExportKeyingMaterialError> { Err(crate::crypto::ExportKeyingMaterialError) }
    }
    let mut conn = mk_conn(false, false);
    conn.crypto = Box::new(Resuming);
    conn.init_0rtt();
    assert!(conn.has_0rtt(), "early keys were available");
    assert!(conn.peer_params.initial_max_data == VarInt::from_u32(5555), "remembered limits must be usable for early data");
    assert!(conn.peer_params.stateless_reset_token.is_none(), "the previous connection's stateless reset token is in force on the new connection");
    assert!(conn.peer_params.initial_src_cid.is_none() && conn.peer_params.original_dst_cid.is_none() && conn.peer_params.retry_src_cid.is_none());
    assert!(conn.peer_params.preferred_address.is_none());
    1
}

/// Native demonstration (C16): a 1300-byte datagram is queued while the path MTU is 1452; then the peer
/// migrates and the new path starts at 1200 bytes.  The datagram can never be sent on the new path: it
/// must not stay queued forever in front of datagrams that do fit.
pub fn migrate_oversized_datagram_native(_x: u8) -> u32 {
    let mut conn = mk_conn(true, true);
    conn.state = State::Established;
    conn.path.validated = true;
    conn.spaces[SpaceId::Data].crypto = Some(nullcrypto::keys());
    conn.highest_space = SpaceId::Data;
    conn.spaces[SpaceId::Initial].crypto = None;
    conn.spaces[SpaceId::Handshake].crypto = None;
    conn.peer_params.max_datagram_frame_size = Some(VarInt::from_u32(65535));
    conn.path.mtud = mtud::mk_black_hole_ready();
    assert!(conn.path.current_mtu() == 1452);
    let now = crate::verif::mk_instant(51, 0).unwrap();
    assert!(conn.datagrams().send(Bytes::from(vec![1u8; 1300]), false).is_ok());
    // the peer moves to another address; the new path is validated right away for the sake of the demonstration
    conn.migrate(now, SocketAddr::new(IpAddr::V6(std::net::Ipv6Addr::new(0x2001, 0xdb8, 0, 0, 0, 0, 0, 9)), 999));
    conn.path.validated = true;
    conn.path.challenge = None;
    conn.path.challenge_pending = false;
    assert!(conn.path.current_mtu() < 1300 + 30);
    assert!(conn.datagrams().send(Bytes::from_static(b"small"), false).is_ok());
    let mut buf = Vec::with_capacity(8 * 1452);
    let mut sent_small = false;
    for _ in 0..20 {
        match conn.poll_transmit(now, 1, &mut buf) {
            Some(_) => {
                sent_small |= buf.windows(5).any(|w| w == b"small");
                buf.clear();
            }
            None => break,
        }
    }
    assert!(sent_small, "a datagram that fits the new path is stuck behind one that no longer does ({} queued)", conn.datagrams.outgoing.len());
    1
}

/// Native replay body for the E2 query `e2_first_packet_dedup` (C04): the datagram that created the
/// connection is delivered to the server a second time (replayed / duplicated by the network) and is
/// routed to the now existing connection.  It must be recognised as a duplicate: nothing about it is
/// authenticated or processed again.
pub fn first_packet_replay_native(pn: u8) -> u32 {
    let mut conn = mk_conn(true, false);
    conn.spaces[SpaceId::Initial].crypto = Some(nullcrypto::tagged_keys(0));
    let now = crate::verif::mk_instant(51, 0).unwrap();
    let remote = addr(1, 4433);
    // long header, Initial, 1-byte packet number; DCID = the connection's initial CID, empty token
    let mut hdr = vec![0xc0u8, 0, 0, 0, 1, 8, 1, 1, 1, 1, 1, 1, 1, 1, 8, 3, 3, 3, 3, 3, 3, 3, 3, 0];
    let payload = vec![0u8; 40]; // PADDING only; the stand-in AEAD accepts a payload ending in 0
    hdr.extend_from_slice(&[0x40, (1 + payload.len()) as u8]);
    hdr.push(pn);
    let header_len = hdr.len();
    let mut datagram = hdr.clone();
    datagram.extend_from_slice(&payload);
    let first = InitialPacket {
        header: InitialHeader { dst_cid: ConnectionId::new(&[1; 8]), src_cid: ConnectionId::new(&[3; 8]), token: Bytes::new(), number: PacketNumber::U8(pn), version: 1 },
        header_data: Bytes::copy_from_slice(&datagram[..header_len]),
        payload: BytesMut::from(&payload[..]),
    };
    conn.handle_first_packet(now, remote, None, pn as u64, first, None).ok().expect("first Initial accepted");
    let authed = conn.total_authed_packets;
    assert!(authed == 1);
    // the very same datagram again
    let (first_decode, remaining) = PartialDecode::new(BytesMut::from(&datagram[..]), &FixedLengthConnectionIdParser::new(8), &[1], true).ok().expect("decodes");
    conn.handle_event(ConnectionEvent(ConnectionEventInner::Datagram(DatagramConnectionEvent { now, remote, ecn: None, first_decode, remaining })));
    assert!(conn.total_authed_packets == authed, "the replayed first Initial was authenticated and processed a second time");
    // a different packet number is not a duplicate
    let mut other = datagram.clone();
    other[header_len - 1] = pn.wrapping_add(1);
    let (first_decode, remaining) = PartialDecode::new(BytesMut::from(&other[..]), &FixedLengthConnectionIdParser::new(8), &[1], true).ok().expect("decodes");
    conn.handle_event(ConnectionEvent(ConnectionEventInner::Datagram(DatagramConnectionEvent { now, remote, ecn: None, first_decode, remaining })));
    assert!(conn.total_authed_packets == authed + 1, "a fresh Initial was not processed");
    1
}

/// Native replay body for the E2 queries `e2_handle_packet_core_slice` / `e2_handle_packet_dedup_closure`
/// (C04), on a real established server connection with the stand-in AEAD (a payload authenticates iff it ends
/// in the key's tag byte).  mode 0: the same authentic 1-RTT datagram (one PING) delivered twice is processed
/// once and counted as authenticated once, with its number recorded; a packet that fails authentication is
/// not processed at all.  mode 1: a datagram flagged as a stateless reset is never processed as a packet,
/// even when it would decrypt.  mode 2: a packet with the same number in ANOTHER space is not a duplicate.
pub fn handle_packet_core_native(mode: u8) -> u32 {
    let mut conn = mk_conn(true, false);
    conn.state = State::Established;
    conn.path.validated = true;
    conn.spaces[SpaceId::Data].crypto = Some(nullcrypto::tagged_keys(0));
    conn.spaces[SpaceId::Handshake].crypto = Some(nullcrypto::tagged_keys(0));
    conn.highest_space = SpaceId::Data;
    conn.spaces[SpaceId::Initial].crypto = None;
    let now = crate::verif::mk_instant(51, 0).unwrap();
    let remote = addr(1, 4433);
    let short = |pn: u8, tag: u8| vec![0x40u8, 2, 2, 2, 2, 2, 2, 2, 2, pn, 0x01, 0, 0, tag];
    let deliver = |conn: &mut Connection, v: &[u8]| {
        let (first_decode, remaining) = PartialDecode::new(BytesMut::from(v), &FixedLengthConnectionIdParser::new(8), &[1], true).ok().expect("decodes");
        conn.handle_event(ConnectionEvent(ConnectionEventInner::Datagram(DatagramConnectionEvent { now, remote, ecn: None, first_decode, remaining })));
    };
    match mode {
        0 => {
            // not authentic: nothing happens
            deliver(&mut conn, &short(7, 9));
            assert!(conn.total_authed_packets == 0 && conn.stats.frame_rx.ping == 0, "a packet that failed authentication was acted upon");
            deliver(&mut conn, &short(7, 0));
            assert!(conn.total_authed_packets == 1, "an authentic packet was not counted as authenticated");
            assert!(conn.stats.frame_rx.ping == 1, "an authentic packet was not processed");
            assert!(conn.spaces[SpaceId::Data].rx_packet == 7, "the authenticated packet's number was not recorded");
            deliver(&mut conn, &short(7, 0));
            assert!(conn.stats.frame_rx.ping == 1, "a duplicate packet was processed a second time");
            assert!(conn.total_authed_packets == 1, "a duplicate packet was counted as authenticated a second time");
            deliver(&mut conn, &short(8, 0));
            assert!(conn.stats.frame_rx.ping == 2 && conn.total_authed_packets == 2, "a fresh packet was discarded");
            1
        }
        1 => {
            let v = short(7, 0);
            let packet = Packet {
                header: Header::Short { spin: false, key_phase: false, dst_cid: ConnectionId::new(&[2; 8]), number: PacketNumber::U8(7) },
                header_data: Bytes::copy_from_slice(&v[..10]),
                payload: BytesMut::from(&v[10..]),
            };
            conn.handle_packet(now, remote, None, Some(packet), true);
            assert!(conn.stats.frame_rx.ping == 0, "a stateless reset was processed as a packet");
            assert!(conn.state.is_drained(), "a stateless reset did not end the connection");
            2
        }
        _ => {
            deliver(&mut conn, &short(7, 0));
            assert!(conn.stats.frame_rx.ping == 1);
            // Handshake packet number 7: long header, 1-byte number, one PING
            let hs = vec![0xe0u8, 0, 0, 0, 1, 8, 2, 2, 2, 2, 2, 2, 2, 2, 8, 3, 3, 3, 3, 3, 3, 3, 3, 5, 7, 0x01, 0, 0, 0];
            deliver(&mut conn, &hs);
            assert!(conn.stats.frame_rx.ping == 2, "a packet was taken for a duplicate of a packet in a different number space");
            4
        }
    }
}

/// Native replay body for the E2 slice query `e2_handle_packet_unprotected_slice` (C04): Retry and Version
/// Negotiation packets carry no packet protection, anyone who knows a connection ID can forge them.  They mean
/// something to a client that is still handshaking and to nobody else.  mode 0: an established server gets a
/// Version Negotiation packet - nothing is counted as authenticated and the idle timer is not pushed out.
/// mode 1: a client that is repeating its CONNECTION_CLOSE gets a Version Negotiation packet whose payload
/// reads as a CONNECTION_CLOSE frame - it keeps closing (does not start draining).  mode 2: a handshaking
/// server gets a Retry-typed packet - the handshake goes on.  mode 3 / 4 (what must keep working): a
/// handshaking client that gets a Version Negotiation packet without its version gives up, one that gets a
/// valid Retry follows it.
pub fn unprotected_packet_native(mode: u8) -> u32 {
    let now = crate::verif::mk_instant(51, 0).unwrap();
    let later = crate::verif::mk_instant(55, 0).unwrap();
    let remote = addr(1, 4433);
    let vn = |payload: &[u8]| Packet {
        header: Header::VersionNegotiate { random: 0x2a, src_cid: ConnectionId::new(&[3; 8]), dst_cid: ConnectionId::new(&[2; 8]) },
        header_data: Bytes::from_static(&[0xaa, 0, 0, 0, 0]),
        payload: BytesMut::from(payload),
    };
    let retry = || Packet {
        header: Header::Retry { dst_cid: ConnectionId::new(&[2; 8]), src_cid: ConnectionId::new(&[0x77; 8]), version: 1 },
        header_data: Bytes::from_static(&[0xf0, 0, 0, 0, 1]),
        payload: BytesMut::from(&[1u8, 2, 3, 4, 0, 0, 0, 0, 0, 0, 0, 0, 0, 0, 0, 0, 0, 0, 0, 0][..]),
    };
    match mode {
        0 => {
            let mut conn = mk_migratable_server();
            conn.idle_timeout = Some(Duration::from_secs(30));
            conn.reset_idle_timeout(now, SpaceId::Data);
            let idle = conn.timers.get(Timer::Idle);
            assert!(idle.is_some());
            conn.handle_packet(later, remote, None, Some(vn(&[0x0a, 0x1a, 0x2a, 0x3a])), false);
            assert!(conn.total_authed_packets == 0, "an unprotected packet was counted as authenticated by an established connection");
            assert!(conn.timers.get(Timer::Idle) == idle, "an unprotected packet pushed out the idle timeout of an established connection");
            assert!(matches!(conn.state, State::Established));
            1
        }
        1 => {
            let mut conn = mk_conn(false, false);
            conn.state = State::Established;
            conn.spaces[SpaceId::Data].crypto = Some(nullcrypto::tagged_keys(0));
            conn.highest_space = SpaceId::Data;
            conn.close(now, VarInt::from_u32(42), Bytes::from_static(b"bye"));
            assert!(matches!(conn.state, State::Closed(_)));
            conn.handle_packet(later, remote, None, Some(vn(&[0x1c, 0, 0, 0])), false);
            assert!(matches!(conn.state, State::Closed(_)), "an unprotected packet made a closing connection stop repeating its close");
            2
        }
        2 => {
            let mut conn = mk_conn(true, false);
            assert!(conn.state.is_handshake());
            conn.handle_packet(later, remote, None, Some(retry()), false);
            assert!(conn.state.is_handshake() && conn.error.is_none(), "a forged Retry-typed packet ended a server's handshake");
            4
        }
        3 => {
            let mut conn = mk_conn(false, false);
            assert!(conn.state.is_handshake());
            conn.handle_packet(later, remote, None, Some(vn(&[0x0a, 0x1a, 0x2a, 0x3a])), false);
            assert!(matches!(conn.error, Some(ConnectionError::VersionMismatch)), "a handshaking client ignored a Version Negotiation packet that does not list its version");
            8
        }
        _ => {
            let mut conn = mk_conn(false, false);
            nullcrypto::RETRY_VALID.store(true, std::sync::atomic::Ordering::Relaxed);
            conn.state = State::Handshake(state::Handshake { rem_cid_set: false, expected_token: Bytes::new(), client_hello: Some(Bytes::from_static(b"client hello")) });
            conn.handle_packet(later, remote, None, Some(retry()), false);
            assert!(conn.retry_src_cid == Some(ConnectionId::new(&[0x77; 8])), "a handshaking client did not follow a valid first Retry");
            16
        }
    }
}

/// Native replay body for the E2 query `e2_read_crypto_buffer_limit` (C06): a client that has consumed no
/// handshake data gets a CRYPTO frame that starts `start_below` bytes below the configured buffer limit and is
/// `len` bytes long.  If it ends beyond the limit it is refused with CRYPTO_BUFFER_EXCEEDED, wherever it starts.
pub fn read_crypto_limit_native(start_below: u16, len: u16) -> u32 {
    let mut conn = mk_conn(false, false);
    let limit = conn.config.crypto_buffer_size as u64;
    if start_below as u64 > limit {
        return 0;
    }
    let offset = limit - start_below as u64;
    let frame = frame::Crypto { offset, data: Bytes::from(vec![0u8; len as usize]) };
    let r = conn.read_crypto(SpaceId::Initial, &frame, len as usize);
    if offset + len as u64 > limit {
        assert!(matches!(&r, Err(e) if e.code == TransportErrorCode::CRYPTO_BUFFER_EXCEEDED), "a CRYPTO frame ending {} bytes beyond the buffer limit was accepted", offset + len as u64 - limit);
        1
    } else {
        assert!(!matches!(&r, Err(e) if e.code == TransportErrorCode::CRYPTO_BUFFER_EXCEEDED), "a CRYPTO frame within the buffer limit was refused");
        2
    }
}

fn mk_migratable_server() -> Connection {
    let mut conn = mk_conn(true, true);
    conn.state = State::Established;
    conn.path.validated = true;
    conn.spaces[SpaceId::Data].crypto = Some(nullcrypto::tagged_keys(0));
    conn.highest_space = SpaceId::Data;
    conn.spaces[SpaceId::Initial].crypto = None;
    conn.spaces[SpaceId::Handshake].crypto = None;
    conn.path.mtud = mtud::mk_disabled();
    conn
}

fn deliver_short(conn: &mut Connection, now: Instant, remote: SocketAddr, pn: u8, frames: &[u8]) {
    let mut v = vec![0x40u8, 2, 2, 2, 2, 2, 2, 2, 2, pn];
    v.extend_from_slice(frames);
    v.extend_from_slice(&[0, 0, 0]); // PADDING; the last byte is what the stand-in AEAD checks (tag 0)
    let (first_decode, remaining) = PartialDecode::new(BytesMut::from(&v[..]), &FixedLengthConnectionIdParser::new(8), &[1], true).ok().expect("decodes");
    conn.handle_event(ConnectionEvent(ConnectionEventInner::Datagram(DatagramConnectionEvent { now, remote, ecn: None, first_decode, remaining })));
}

/// Native replay body for the E2 queries `e2_handle_event_credits_own_path_only` / `e2_handle_coalesced_credit`
/// (C07 / C15), on an established server that permits migration, currently talking to `home`.  The send budget of
/// an unvalidated path is three times what was received FROM THAT ADDRESS: datagrams that arrive from somewhere
/// else and do not make the connection migrate - undecryptable ones (anyone who has seen the connection ID can
/// send those), reordered or probing-only genuine ones, coalesced or not - must not raise it.  mode 2 / 3 are
/// what must keep working: a datagram from the path's own address is credited in full, a migrating one is
/// credited to the NEW path.
pub fn foreign_datagram_credit_native(mode: u8) -> u32 {
    let mut conn = mk_migratable_server();
    let now = crate::verif::mk_instant(51, 0).unwrap();
    let (home, other) = (addr(1, 4433), addr(66, 7777));
    deliver_short(&mut conn, now, home, 10, &[0x01]);
    assert!(conn.path.remote == home && conn.spaces[SpaceId::Data].rx_packet == 10);
    let before = conn.path.total_recvd;
    let deliver = |conn: &mut Connection, from: SocketAddr, v: &[u8]| {
        let (first_decode, remaining) = PartialDecode::new(BytesMut::from(v), &FixedLengthConnectionIdParser::new(8), &[1], true).ok().expect("decodes");
        conn.handle_event(ConnectionEvent(ConnectionEventInner::Datagram(DatagramConnectionEvent { now, remote: from, ecn: None, first_decode, remaining })));
    };
    match mode {
        0 => {
            // 1200 bytes that do not authenticate (tag byte 9), from another address
            let mut v = vec![0x40u8, 2, 2, 2, 2, 2, 2, 2, 2, 11, 0x01];
            v.resize(1199, 0);
            v.push(9);
            deliver(&mut conn, other, &v);
            assert!(conn.path.remote == home);
            assert!(conn.path.total_recvd == before, "{} undecryptable bytes from another address were credited to the current path", conn.path.total_recvd - before);
            1
        }
        1 => {
            // a genuine but reordered packet from another address, with a second (also old) packet coalesced behind a
            // Handshake packet for which there are no keys any more: nothing migrates, nothing is credited
            deliver_short(&mut conn, now, other, 5, &[0x01]);
            assert!(conn.path.remote == home);
            assert!(conn.path.total_recvd == before, "a reordered packet from another address was credited to the current path");
            let mut v = vec![0xe0u8, 0, 0, 0, 1, 8, 2, 2, 2, 2, 2, 2, 2, 2, 8, 3, 3, 3, 3, 3, 3, 3, 3, 5, 7, 0x01, 0, 0, 0];
            v.extend_from_slice(&[0x40, 2, 2, 2, 2, 2, 2, 2, 2, 6, 0x01, 0, 0, 0]);
            deliver(&mut conn, other, &v);
            assert!(conn.path.remote == home);
            assert!(conn.path.total_recvd == before, "coalesced packets from another address were credited to the current path");
            2
        }
        2 => {
            let v = vec![0x40u8, 2, 2, 2, 2, 2, 2, 2, 2, 11, 0x01, 0, 0, 0];
            deliver(&mut conn, home, &v);
            assert!(conn.path.total_recvd == before + v.len() as u64, "a datagram from the path's own address was not credited in full");
            4
        }
        4 => {
            // coalesced packets from the path's own address are credited in full, once
            let mut v = vec![0xe0u8, 0, 0, 0, 1, 8, 2, 2, 2, 2, 2, 2, 2, 2, 8, 3, 3, 3, 3, 3, 3, 3, 3, 5, 7, 0x01, 0, 0, 0];
            v.extend_from_slice(&[0x40, 2, 2, 2, 2, 2, 2, 2, 2, 11, 0x01, 0, 0, 0]);
            deliver(&mut conn, home, &v);
            assert!(conn.path.total_recvd == before + v.len() as u64, "a {}-byte coalesced datagram from the path's own address was credited as {} bytes", v.len(), conn.path.total_recvd - before);
            16
        }
        _ => {
            let v = vec![0x40u8, 2, 2, 2, 2, 2, 2, 2, 2, 12, 0x01, 0, 0, 0];
            deliver(&mut conn, other, &v);
            assert!(conn.path.remote == other, "the highest-numbered non-probing packet did not move the connection");
            assert!(conn.path.total_recvd == v.len() as u64, "the datagram that caused the migration was not credited to the new path");
            8
        }
    }
}

/// Native replay body for the E2 slice query `e2_migration_trigger_slice` (C15), on a real server that
/// permits migration: a packet from a new address moves the connection there only if it carries a
/// non-probing frame AND has the highest packet number seen; a probing-only packet, or a reordered
/// (older) packet from another address - e.g. a replay by an off-path attacker - does not.
pub fn migration_trigger_native(mode: u8) -> u32 {
    let mut conn = mk_migratable_server();
    let now = crate::verif::mk_instant(51, 0).unwrap();
    let (home, other) = (addr(1, 4433), addr(66, 7777));
    deliver_short(&mut conn, now, home, 10, &[0x01]);
    assert!(conn.path.remote == home && conn.spaces[SpaceId::Data].rx_packet == 10);
    match mode {
        0 => {
            // probing frames only (PATH_CHALLENGE + PADDING), highest number
            deliver_short(&mut conn, now, other, 11, &[0x1a, 9, 9, 9, 9, 9, 9, 9, 9]);
            assert!(conn.path.remote == home, "a probing packet moved the connection");
            1
        }
        1 => {
            // non-probing but not the newest packet
            deliver_short(&mut conn, now, other, 5, &[0x01]);
            assert!(conn.path.remote == home, "a reordered packet from another address moved the connection");
            2
        }
        3 => {
            // the same host behind a new port (NAT rebinding) is a new address too
            let rebound = addr(1, 5544);
            deliver_short(&mut conn, now, rebound, 11, &[0x01]);
            assert!(conn.path.remote == rebound, "the server did not follow its peer to the new port");
            8
        }
        _ => {
            deliver_short(&mut conn, now, other, 11, &[0x01]);
            assert!(conn.path.remote == other, "the server did not follow its peer to the new address");
            assert!(!conn.path.validated && conn.path.challenge.is_some(), "the new path must start unvalidated with a challenge outstanding");
            assert!(conn.prev_path.as_ref().map(|p| p.1.remote) == Some(home), "the previous path was not kept for falling back");
            4
        }
    }
}

/// Native replay body for the E2 slice query `e2_path_response_slice` (C15 / C07): a path under
/// validation becomes validated only by a PATH_RESPONSE carrying the outstanding token and arriving from
/// the path's own address.
pub fn path_response_native(mode: u8) -> u32 {
    let mut conn = mk_migratable_server();
    let now = crate::verif::mk_instant(51, 0).unwrap();
    let (home, other) = (addr(1, 4433), addr(66, 7777));
    conn.path.validated = false;
    conn.path.challenge = Some(0x0102_0304_0506_0708);
    conn.path.total_recvd = 10_000;
    let good = [0x1bu8, 1, 2, 3, 4, 5, 6, 7, 8];
    let bad = [0x1bu8, 1, 2, 3, 4, 5, 6, 7, 9];
    match mode {
        0 => {
            deliver_short(&mut conn, now, home, 1, &bad);
            assert!(!conn.path.validated && conn.path.challenge.is_some(), "a PATH_RESPONSE with the wrong token validated the path");
            1
        }
        1 => {
            deliver_short(&mut conn, now, other, 1, &good);
            assert!(conn.path.remote == home);
            assert!(!conn.path.validated && conn.path.challenge.is_some(), "a PATH_RESPONSE from another address validated the path");
            2
        }
        _ => {
            deliver_short(&mut conn, now, home, 1, &good);
            assert!(conn.path.validated && conn.path.challenge.is_none(), "the genuine PATH_RESPONSE did not validate the path");
            4
        }
    }
}

/// Native replay body for the E2 slice query `e2_detect_lost_iteration_slice` (C12), on a real connection
/// with smoothed RTT 1 s (loss delay 9/8 s = 1125 ms exactly, packet threshold 3) and packet 10 acknowledged: of the
/// unacknowledged packets below it, exactly those sent at least 1125 ms ago or at least 3 packets before
/// the acknowledged one are declared lost; the others stay outstanding.  `age_ms` is the age of packet 8
/// (1125 = exactly the loss delay: lost).
pub fn detect_lost_native(age_ms: u16) -> u32 {
    let mut conn = mk_established(false);
    let now = crate::verif::mk_instant(60, 0).unwrap();
    conn.path.rtt = RttEstimator::new(Duration::from_millis(1000));
    let mk = |age: Duration| SentPacket { path_generation: 0, time_sent: now - age, size: 100, ack_eliciting: true, largest_acked: None, retransmits: ThinRetransmits::default(), stream_frames: Default::default() };
    let young = Duration::from_millis(10);
    // number -> age: 7 is exactly three before the largest acknowledged (lost by reordering), 8 has the age
    // under test, 9 is young (kept)
    let packets = [(7u64, young), (8, Duration::from_millis(age_ms as u64)), (9, young)];
    for (n, age) in packets {
        let p = mk(age);
        paths::in_flight_insert(&mut conn.path, &p);
        conn.spaces[SpaceId::Data].sent(n, p);
    }
    conn.spaces[SpaceId::Data].largest_acked_packet = Some(10);
    conn.detect_lost_packets(now, SpaceId::Data, true);
    let outstanding = |conn: &Connection, n: u64| conn.spaces[SpaceId::Data].sent_packets.get(n).is_some();
    assert!(!outstanding(&conn, 7), "a packet sent three packets before an acknowledged one was not declared lost");
    assert!(outstanding(&conn, 9), "a young packet within the reordering threshold was declared lost");
    let expect_lost = age_ms >= 1125;
    assert!(outstanding(&conn, 8) != expect_lost, "packet aged {} ms: lost = {}, expected {}", age_ms, !outstanding(&conn, 8), expect_lost);
    let kept = 1 + (!expect_lost) as u64;
    assert!(paths::in_flight_bytes(&conn.path) == 100 * kept, "bytes in flight do not match the outstanding packets");
    1 + expect_lost as u32
}

/// Native replay body for the E2 slice query `e2_path_validation_timeout_slice` (C15), on a real server
/// that permits migration: `rounds` times in a row a non-probing packet arrives from a spoofed address
/// (the connection moves there, unvalidated), nothing ever answers the challenge, and the PathValidation
/// timer fires.  Every time the server must be back on the original, validated path with no challenge
/// left over - otherwise the next migration would not remember that path and a second failed validation
/// would have nothing to return to.
pub fn path_validation_timeout_native(rounds: u8) -> u32 {
    let mut conn = mk_migratable_server();
    let now = crate::verif::mk_instant(51, 0).unwrap();
    let home = addr(1, 4433);
    deliver_short(&mut conn, now, home, 10, &[0x01]);
    for r in 0..rounds.min(4) {
        let spoofed = addr(66 + r, 7777);
        deliver_short(&mut conn, now, spoofed, 11 + r, &[0x01]);
        assert!(conn.path.remote == spoofed && !conn.path.validated, "round {}: no migration took place", r);
        assert!(conn.prev_path.as_ref().map(|p| p.1.remote) == Some(home), "round {}: the validated path was not remembered when migrating", r);
        let deadline = conn.timers.get(Timer::PathValidation).expect("path validation timer armed");
        conn.handle_timeout(deadline);
        assert!(conn.path.remote == home && conn.path.validated, "round {}: the server did not return to the validated path after validation failed", r);
        assert!(conn.path.challenge.is_none() && !conn.path.challenge_pending, "round {}: a challenge is still outstanding on the path returned to", r);
        assert!(!conn.state.is_closed());
    }
    rounds as u32
}

/// Native replay body for the E2 slice query `e2_zero_rtt_rejection_slice` (C17 / C12): a real client
/// connection that attempted 0-RTT (one early stream written, one early packet of 100 bytes in flight, a
/// queued early MAX_DATA frame) completes its handshake with a TLS session that reports the early data as
/// rejected (`accept = false`) or accepted.  Rejected: the early packet is forgotten and no longer counts
/// as in flight, the queued frame is gone, the early stream is closed and the connection says 0-RTT was not
/// accepted.  Accepted: all of that stays.
pub fn zero_rtt_rejection_native(accept: bool) -> u32 {
    use crate::crypto::{HeaderKey, KeyPair, PacketKey};
    struct Done(bool);
    impl crate::crypto::Session for Done {
        fn initial_keys(&self, _: ConnectionId, _: Side) -> crate::crypto::Keys { nullcrypto::keys() }
        fn handshake_data(&self) -> Option<Box<dyn std::any::Any>> { None }
        fn peer_identity(&self) -> Option<Box<dyn std::any::Any>> { None }
        fn early_crypto(&self) -> Option<(Box<dyn HeaderKey>, Box<dyn PacketKey>)> {
            Some((Box::new(nullcrypto::NullHeaderKey), Box::new(nullcrypto::NullPacketKey)))
        }
        fn early_data_accepted(&self) -> Option<bool> { Some(self.0) }
        fn is_handshaking(&self) -> bool { false }
        fn read_handshake(&mut self, _: &[u8]) -> Result<bool, TransportError> { Ok(false) }
        fn transport_parameters(&self) -> Result<Option<TransportParameters>, TransportError> {
            let mut p = TransportParameters::default();
            p.initial_max_data = VarInt::from_u32(5555);
            p.initial_max_streams_uni = VarInt::from_u32(4);
            p.initial_max_stream_data_uni = VarInt::from_u32(1000);
            p.initial_src_cid = Some(ConnectionId::new(&[3; 8]));
            p.original_dst_cid = Some(ConnectionId::new(&[1; 8]));
            Ok(Some(p))
        }
        fn write_handshake(&mut self, _: &mut Vec<u8>) -> Option<crate::crypto::Keys> { None }
        fn next_1rtt_keys(&mut self) -> Option<KeyPair<Box<dyn PacketKey>>> { None }
        fn is_valid_retry(&self, _: ConnectionId, _: &[u8], _: &[u8]) -> bool { false }
        fn export_keying_material(&self, _: &mut [u8], _: &[u8], _: &[u8]) -> Result<(), crate::crypto::ExportKeyingMaterialError> { Err(crate::crypto::ExportKeyingMaterialError) }
    }
    let mut conn = mk_conn(false, false);
    conn.crypto = Box::new(Done(accept));
    conn.init_0rtt();
    assert!(conn.has_0rtt());
    let t0 = crate::verif::mk_instant(50, 0).unwrap();
    let now = crate::verif::mk_instant(51, 0).unwrap();
    let s = conn.streams().open(Dir::Uni).expect("remembered stream credit");
    assert!(conn.send_stream(s).write(b"early").is_ok());
    let early = SentPacket { path_generation: 0, time_sent: t0, size: 100, ack_eliciting: true, largest_acked: None, retransmits: ThinRetransmits::default(), stream_frames: Default::default() };
    paths::in_flight_insert(&mut conn.path, &early);
    conn.spaces[SpaceId::Data].sent(0, early);
    conn.spaces[SpaceId::Data].pending.max_data = true;
    conn.spaces[SpaceId::Handshake].crypto = Some(nullcrypto::tagged_keys(0));
    // the server's Handshake packet (number 0, one PING) that completes the handshake
    let hs = vec![0xe0u8, 0, 0, 0, 1, 8, 2, 2, 2, 2, 2, 2, 2, 2, 8, 3, 3, 3, 3, 3, 3, 3, 3, 5, 0, 0x01, 0, 0, 0];
    let (first_decode, remaining) = PartialDecode::new(BytesMut::from(&hs[..]), &FixedLengthConnectionIdParser::new(8), &[1], true).ok().expect("decodes");
    conn.handle_event(ConnectionEvent(ConnectionEventInner::Datagram(DatagramConnectionEvent { now, remote: addr(1, 4433), ecn: None, first_decode, remaining })));
    assert!(conn.accepted_0rtt == accept, "accepted_0rtt does not tell what the TLS session decided");
    if accept {
        assert!(conn.spaces[SpaceId::Data].sent_packets.get(0).is_some() && paths::in_flight_bytes(&conn.path) == 100, "accepted early packets must stay outstanding");
        assert!(conn.send_stream(s).write(b"more").is_ok(), "an accepted early stream stays open");
        2
    } else {
        assert!(conn.spaces[SpaceId::Data].sent_packets.get(0).is_none(), "a rejected early packet is still waiting for an acknowledgement");
        assert!(paths::in_flight_bytes(&conn.path) == 0, "{} bytes of rejected early data still count as in flight", paths::in_flight_bytes(&conn.path));
        assert!(!conn.spaces[SpaceId::Data].pending.max_data, "a frame queued with the rejected early data survived");
        assert!(conn.send_stream(s).write(b"more").is_err(), "an early stream of a rejected 0-RTT attempt must report the rejection");
        1
    }
}

/// Native replay body for the E2 slice query `e2_poll_transmit_close_budget_slice` (C13), and public-path
/// demonstration for finding 13: an established connection (optionally with an ACK pending) is closed by
/// the application with error code `code` and a reason of `reason_len` bytes; the closing datagram that
/// `poll_transmit` emits must not be larger than the path MTU estimate, however long the reason is and
/// however many bytes the error code needs.
pub fn close_budget_native(reason_len: u16, acks: bool, code: u64) -> u32 {
    if code >= 1 << 62 {
        return 0;
    }
    let mut conn = mk_migratable_server();
    let now = crate::verif::mk_instant(51, 0).unwrap();
    if acks {
        deliver_short(&mut conn, now, addr(1, 4433), 10, &[0x01]);
    }
    let mtu = conn.path.current_mtu() as usize;
    conn.close(now, VarInt::from_u64(code).unwrap(), Bytes::from(vec![0x61u8; reason_len as usize]));
    let mut buf = Vec::with_capacity(4096);
    let t = conn.poll_transmit(now, 1, &mut buf).expect("a close is announced at once");
    assert!(t.size <= mtu, "the closing datagram has {} bytes, the path MTU estimate is {}", t.size, mtu);
    assert!(t.size == buf.len());
    1 + acks as u32
}

/// Native replay body for the E2 slice query `e2_populate_packet_datagram_loop_slice` (C16): an established
/// connection has `n` small datagrams queued and its sender marked as blocked; one call of `poll_transmit`
/// sends the whole queue in one packet (the DATAGRAM loop ends because the queue is empty, i.e. on a failed
/// `write`).  The application must be told that datagrams can be sent again.
pub fn datagram_unblock_native(n: u8) -> u32 {
    let mut conn = mk_migratable_server();
    conn.peer_params.max_datagram_frame_size = Some(VarInt::from_u32(65535));
    let now = crate::verif::mk_instant(51, 0).unwrap();
    for i in 0..n.max(1) {
        assert!(conn.datagrams().send(Bytes::from(vec![i; 40]), false).is_ok());
    }
    conn.datagrams.send_blocked = true;
    conn.spaces[SpaceId::Data].pending.new_tokens.clear(); // the stand-in token key cannot seal NEW_TOKEN tokens
    let mut buf = Vec::with_capacity(4096);
    let t = conn.poll_transmit(now, 1, &mut buf).expect("queued datagrams are sent");
    assert!(t.size > 40 && conn.datagrams.outgoing.is_empty(), "the queue fits one packet");
    let mut unblocked = 0;
    while let Some(e) = conn.poll() {
        if matches!(e, Event::DatagramsUnblocked) {
            unblocked += 1;
        }
    }
    assert!(unblocked == 1, "a blocked sender's queue was transmitted but DatagramsUnblocked was reported {} times", unblocked);
    assert!(!conn.datagrams.send_blocked);
    1
}

/// Native replay body for the E2 slice query `e2_poll_transmit_close_not_congestion_blocked_slice` (C08 /
/// C12), and demonstration for finding 14: an established connection whose congestion window is full (and,
/// `queued`, which has stream data waiting) is closed by the application.  The very next `poll_transmit` must
/// produce the closing packet.
pub fn close_under_congestion_native(queued: bool) -> u32 {
    let mut conn = mk_established(true);
    conn.path.mtud = mtud::mk_disabled();
    conn.peer_params.initial_max_data = VarInt::from_u32(1 << 20);
    conn.peer_params.initial_max_streams_uni = VarInt::from_u32(4);
    conn.peer_params.initial_max_stream_data_uni = VarInt::from_u32(1 << 16);
    let pp = conn.peer_params;
    conn.streams.set_params(&pp);
    let now = crate::verif::mk_instant(51, 0).unwrap();
    if queued {
        let s = conn.streams().open(Dir::Uni).expect("stream credit");
        assert!(conn.send_stream(s).write(&[7u8; 3000]).is_ok());
    }
    let w = conn.path.congestion.window();
    let filler = SentPacket { path_generation: 0, time_sent: now, size: 1200, ack_eliciting: true, largest_acked: None, retransmits: ThinRetransmits::default(), stream_frames: Default::default() };
    while paths::in_flight_bytes(&conn.path) + 1200 < w {
        paths::in_flight_insert(&mut conn.path, &filler);
    }
    let mut buf = Vec::with_capacity(8 * 1452);
    if queued {
        assert!(conn.poll_transmit(now, 1, &mut buf).is_none(), "the prepared congestion window is not full");
    }
    conn.close(now, VarInt::from_u32(42), Bytes::from_static(b"bye"));
    let t = conn.poll_transmit(now, 1, &mut buf);
    assert!(t.is_some(), "a local close was not announced because the congestion window is full");
    assert!(!conn.close, "the packet that was sent is not the closing packet");
    1 + queued as u32
}

/// Native replay body for the E2 query `e2_first_packet_close_gets_drain_timer` (C08), and demonstration for
/// finding 15: the connection-creating Initial of a server connection carries a CONNECTION_CLOSE frame (a
/// client that gives up at once).  The connection is closed by its peer - it must get its drain timer, so
/// that it becomes drained within three probe timeouts and does not sit there until the idle timeout.
pub fn first_packet_close_native(_x: u8) -> u32 {
    let mut conn = mk_conn(true, false);
    conn.spaces[SpaceId::Initial].crypto = Some(nullcrypto::tagged_keys(0));
    let now = crate::verif::mk_instant(51, 0).unwrap();
    let remote = addr(1, 4433);
    let mut hdr = vec![0xc0u8, 0, 0, 0, 1, 8, 1, 1, 1, 1, 1, 1, 1, 1, 8, 3, 3, 3, 3, 3, 3, 3, 3, 0];
    // CONNECTION_CLOSE (transport): error code 0, frame type 0, empty reason; then PADDING (the stand-in AEAD accepts a payload ending in 0)
    let mut payload = vec![0x1cu8, 0, 0, 0];
    payload.extend_from_slice(&[0u8; 36]);
    hdr.extend_from_slice(&[0x40, (1 + payload.len()) as u8]);
    hdr.push(0);
    let first = InitialPacket {
        header: InitialHeader { dst_cid: ConnectionId::new(&[1; 8]), src_cid: ConnectionId::new(&[3; 8]), token: Bytes::new(), number: PacketNumber::U8(0), version: 1 },
        header_data: Bytes::copy_from_slice(&hdr),
        payload: BytesMut::from(&payload[..]),
    };
    conn.handle_first_packet(now, remote, None, 0, first, None).ok().expect("first Initial accepted");
    assert!(conn.state.is_closed() && !conn.state.is_drained(), "a CONNECTION_CLOSE in the first Initial closes the connection (Draining)");
    let t = conn.timers.get(Timer::Close);
    assert!(t.is_some(), "a connection closed by its first packet has no drain timer: it stays until the idle timeout");
    // and the timer drains it
    conn.handle_timeout(t.unwrap());
    assert!(conn.state.is_drained(), "the drain timer did not drain the connection");
    1
}

/// Native replay body for the E2 query `e2_connection_new_idle_timeout` (C08): a real `Connection` created
/// with `max_idle_timeout` set to `ms` milliseconds through the public configuration API.  Before the peer's
/// parameters arrive a value of 0 means "no idle timeout" - no idle timer may be armed, whatever happens next;
/// a non-zero value arms the timer that far (or three probe timeouts) ahead.
pub fn new_idle_timeout_native(ms: u16) -> u32 {
    let now = crate::verif::mk_instant(50, 0).unwrap();
    let ep_cfg = Arc::new(EndpointConfig::new(Arc::new(nullcrypto::NullHmac)));
    let mut tc = TransportConfig::default();
    tc.max_idle_timeout(Some(VarInt::from_u32(ms as u32).into()));
    let cid_gen = crate::RandomConnectionIdGenerator::new(8);
    let mut conn = Connection::new(
        ep_cfg,
        Arc::new(tc),
        ConnectionId::new(&[1; 8]),
        ConnectionId::new(&[2; 8]),
        ConnectionId::new(&[3; 8]),
        addr(1, 4433),
        None,
        Box::new(nullcrypto::NullSession),
        &cid_gen,
        now,
        1,
        true,
        [9; 32],
        SideArgs::Client { token_store: Arc::new(crate::NoneTokenStore), server_name: "localhost".into() },
    );
    // whatever restarts the idle timer before the handshake completes (a packet from the peer, our own first flight)
    conn.reset_idle_timeout(now, SpaceId::Initial);
    let armed = conn.timers.get(Timer::Idle);
    if ms == 0 {
        assert!(conn.idle_timeout.is_none(), "an idle timeout configured as 0 must mean disabled");
        assert!(armed.is_none(), "idle timer armed although the idle timeout is disabled");
        1
    } else {
        assert!(conn.idle_timeout == Some(Duration::from_millis(ms as u64)));
        let t = armed.expect("idle timer armed");
        assert!(t >= now + Duration::from_millis(ms as u64), "idle timer earlier than the configured timeout");
        2
    }
}

/// Native replay body for the E2 query `e2_decrypt_packet_body_authentic_first` (C04 / C03): an established
/// server receives a short-header packet with first byte `first` (0x48 / 0x50 / 0x58: reserved bits set) that
/// does NOT authenticate.  Whatever its header says it must be dropped without effect: the connection stays
/// open, nothing is counted as authenticated; an authentic packet afterwards is processed normally.
pub fn unauthentic_packet_inert_native(first: u8) -> u32 {
    let mut conn = mk_migratable_server();
    let now = crate::verif::mk_instant(51, 0).unwrap();
    let home = addr(1, 4433);
    let mut v = vec![first | 0x40, 2, 2, 2, 2, 2, 2, 2, 2, 7, 0x01, 0, 0, 9]; // last byte 9: the stand-in AEAD (tag 0) refuses it
    v[0] &= !0x80;
    let (first_decode, remaining) = PartialDecode::new(BytesMut::from(&v[..]), &FixedLengthConnectionIdParser::new(8), &[1], true).ok().expect("decodes");
    conn.handle_event(ConnectionEvent(ConnectionEventInner::Datagram(DatagramConnectionEvent { now, remote: home, ecn: None, first_decode, remaining })));
    assert!(!conn.state.is_closed(), "a packet that failed authentication closed the connection");
    assert!(conn.error.is_none() && conn.total_authed_packets == 0 && conn.stats.frame_rx.ping == 0, "a packet that failed authentication had an effect");
    deliver_short(&mut conn, now, home, 8, &[0x01]);
    assert!(conn.total_authed_packets == 1 && conn.stats.frame_rx.ping == 1 && !conn.state.is_closed(), "an authentic packet was not processed");
    1
}

/// Native replay body for the E2 slice query `e2_handle_packet_error_block_slice` (C08), and demonstration for
/// finding 21: the peer closes an established connection (CONNECTION_CLOSE in a 1-RTT packet); the application
/// polls and learns the reason.  During the drain period a stateless reset arrives (the peer restarted with the
/// same reset key and answered our closing packet).  The application must not be told a second reason.
pub fn second_reason_native(_x: u8) -> u32 {
    let mut conn = mk_migratable_server();
    let now = crate::verif::mk_instant(51, 0).unwrap();
    let home = addr(1, 4433);
    // APPLICATION_CLOSE: error code 42, empty reason
    deliver_short(&mut conn, now, home, 7, &[0x1d, 42, 0]);
    assert!(conn.state.is_closed(), "the peer's close was not processed");
    let mut reasons = Vec::new();
    while let Some(e) = conn.poll() {
        if let Event::ConnectionLost { reason } = e {
            reasons.push(reason);
        }
    }
    assert!(reasons.len() == 1 && matches!(reasons[0], ConnectionError::ApplicationClosed(_)), "the peer's close is reported once");
    // a stateless reset during the drain period
    conn.handle_packet(now, home, None, None, true);
    while let Some(e) = conn.poll() {
        if let Event::ConnectionLost { reason } = e {
            reasons.push(reason);
        }
    }
    assert!(reasons.len() == 1, "the application was told a second reason for the end of the connection: {:?}", reasons);
    assert!(conn.state.is_drained(), "a stateless reset ends the drain period");
    1
}

/// Native replay body for the probe clause of `e2_detect_lost_iteration_slice` (C12 / C13), and demonstration
/// for finding 23: an MTU probe is in flight in the Data space with packet number 5; a Handshake packet that
/// happens to carry the same number is overdue.  Loss detection for the HANDSHAKE space must declare that
/// Handshake packet lost and leave the probe - a packet of another space - alone.
pub fn lost_probe_other_space_native(_x: u8) -> u32 {
    let mut conn = mk_established(false);
    let now = crate::verif::mk_instant(60, 0).unwrap();
    conn.path.rtt = RttEstimator::new(Duration::from_millis(100));
    conn.spaces[SpaceId::Handshake].crypto = Some(nullcrypto::keys());
    // the probe: Data space, packet number 5
    let size = conn.path.mtud.poll_transmit(now, 5).expect("MTU discovery wants to probe");
    assert!(conn.path.mtud.in_flight_mtu_probe() == Some(5));
    let probe = SentPacket { path_generation: 0, time_sent: now, size, ack_eliciting: true, largest_acked: None, retransmits: ThinRetransmits::default(), stream_frames: Default::default() };
    paths::in_flight_insert(&mut conn.path, &probe);
    conn.spaces[SpaceId::Data].sent(5, probe);
    // an old Handshake packet with the same number, and a newer acknowledged one
    let old = SentPacket { path_generation: 0, time_sent: now - Duration::from_secs(5), size: 300, ack_eliciting: true, largest_acked: None, retransmits: ThinRetransmits::default(), stream_frames: Default::default() };
    paths::in_flight_insert(&mut conn.path, &old);
    conn.spaces[SpaceId::Handshake].sent(5, old);
    conn.spaces[SpaceId::Handshake].largest_acked_packet = Some(6);
    conn.detect_lost_packets(now, SpaceId::Handshake, true);
    assert!(conn.spaces[SpaceId::Handshake].sent_packets.get(5).is_none(), "the overdue Handshake packet was not declared lost (it was taken for the Data-space MTU probe)");
    assert!(conn.spaces[SpaceId::Data].sent_packets.get(5).is_some() && conn.path.mtud.in_flight_mtu_probe() == Some(5), "an MTU probe that is still in flight was declared lost by loss detection for another packet space");
    1
}

/// Native replay body for the E2 slice query `e2_handle_packet_tail_repeats_close` (C08): the application closes
/// an established connection; the closing packet is sent (and, say, lost).  The peer, unaware, keeps sending.
/// Every packet from the peer must make the closed connection send its CONNECTION_CLOSE again.
pub fn close_repeated_native(_x: u8) -> u32 {
    let mut conn = mk_migratable_server();
    let now = crate::verif::mk_instant(51, 0).unwrap();
    let home = addr(1, 4433);
    deliver_short(&mut conn, now, home, 5, &[0x01]);
    conn.spaces[SpaceId::Data].pending.new_tokens.clear();
    conn.close(now, VarInt::from_u32(42), Bytes::from_static(b"bye"));
    let mut buf = Vec::with_capacity(4096);
    assert!(conn.poll_transmit(now, 1, &mut buf).is_some(), "the close is announced");
    buf.clear();
    assert!(conn.poll_transmit(now, 1, &mut buf).is_none(), "nothing more to send");
    for pn in 6..9u8 {
        deliver_short(&mut conn, now, home, pn, &[0x01]);
        buf.clear();
        assert!(conn.poll_transmit(now, 1, &mut buf).is_some(), "a closed connection did not repeat its CONNECTION_CLOSE when the peer kept sending (packet {})", pn);
    }
    1
}

/// Native replay body for the E2 query `e2_discard_space_iteration` (C12): a Handshake space holding one
/// ack-eliciting packet and one padded ACK-only packet (not ack-eliciting, but counted in flight because of its
/// padding) is abandoned.  Nothing of it may stay in bytes-in-flight.
pub fn discard_space_native(_x: u8) -> u32 {
    let mut conn = mk_conn(false, false);
    let now = crate::verif::mk_instant(51, 0).unwrap();
    conn.spaces[SpaceId::Handshake].crypto = Some(nullcrypto::keys());
    let mk = |size: u16, eliciting: bool| SentPacket { path_generation: 0, time_sent: now, size, ack_eliciting: eliciting, largest_acked: None, retransmits: ThinRetransmits::default(), stream_frames: Default::default() };
    for (pn, pkt) in [(0u64, mk(300, true)), (1, mk(1149, false))] {
        paths::in_flight_insert(&mut conn.path, &pkt);
        conn.spaces[SpaceId::Handshake].sent(pn, pkt);
    }
    assert!(paths::in_flight_bytes(&conn.path) == 1449);
    conn.discard_space(now, SpaceId::Handshake);
    assert!(paths::in_flight_bytes(&conn.path) == 0, "{} bytes of an abandoned packet space still count as in flight", paths::in_flight_bytes(&conn.path));
    1
}

/// Native replay body for the E2 slice query `e2_poll_transmit_close_reason_slice` (C08): an established client
/// that still holds its Handshake keys is closed by the application with a telling reason.  The closing datagram
/// carries one packet per space (null packet protection: the bytes are readable); the application's reason may
/// appear in the 1-RTT packet only - the Handshake packet carries the generic APPLICATION_ERROR.
pub fn close_reason_early_native(_x: u8) -> u32 {
    let mut conn = mk_established(false);
    conn.spaces[SpaceId::Handshake].crypto = Some(nullcrypto::keys());
    conn.path.mtud = mtud::mk_disabled();
    let now = crate::verif::mk_instant(51, 0).unwrap();
    let reason: &[u8] = b"application secret";
    conn.close(now, VarInt::from_u32(42), Bytes::from_static(b"application secret"));
    let mut buf = Vec::with_capacity(4096);
    let mut all = Vec::new();
    while let Some(t) = conn.poll_transmit(now, 1, &mut buf) {
        all.extend_from_slice(&buf[..t.size]);
        buf.clear();
    }
    let hits = all.windows(reason.len()).filter(|w| *w == reason).count();
    assert!(hits >= 1, "the 1-RTT close must carry the application's reason");
    assert!(hits == 1, "the application's close reason was put on the wire {} times: it leaked into a Handshake (or Initial) packet", hits);
    1
}

/// Native replay body for the E2 query `e2_predict_1rtt_overhead_remote_cid` (C16 / C13), on a real `Connection`
/// whose peer uses 20-byte connection IDs while ours are 8 bytes long: the predicted overhead of a 1-RTT packet
/// counts the peer's CID - the one short headers carry - and a maximum-size datagram fits one packet with it.
pub fn predict_overhead_native(_x: u8) -> u32 {
    let mut conn = mk_established(false);
    conn.rem_cids = CidQueue::new(ConnectionId::new(&[3; 20]));
    let tag = conn.tag_len_1rtt();
    let o = conn.predict_1rtt_overhead(None);
    assert!(o == 1 + 20 + 4 + tag, "overhead {} predicted for a 20-byte remote CID, a 4-byte packet number and a {}-byte tag", o, tag);
    let o1 = conn.predict_1rtt_overhead(Some(0));
    assert!(o1 == 1 + 20 + 1 + tag, "overhead {} predicted for a 20-byte remote CID, a 1-byte packet number and a {}-byte tag", o1, tag);
    conn.peer_params.max_datagram_frame_size = Some(VarInt::from_u32(65535));
    let mtu = conn.path.current_mtu() as usize;
    let max = conn.datagrams().max_size().expect("peer supports datagrams");
    // flags + remote CID + packet number + frame type + 2-byte length + payload + tag
    assert!(1 + 20 + 4 + 1 + 2 + max + tag <= mtu, "a {}-byte datagram does not fit a {}-byte packet behind a 20-byte CID", max, mtu);
    1
}
