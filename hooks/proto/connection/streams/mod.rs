pub use super::recv::verif as recv;
pub use super::send::verif as send;
pub use super::state::verif as state;

/// Native replay body for the E2 query `e2_sendstream_reset` (populates the real hash map, so it
/// is never run under Kani).  Resetting a stream with `written` bytes buffered must hand exactly
/// those unacknowledged bytes back to the connection's send window and leave every other
/// connection-level counter (in particular `data_sent`, the flow-control ledger) alone.
pub fn sendstream_reset_native(written: u8, other_data_sent: u16) -> u32 {
    use super::state::verif::{mk_streams, Scalars};
    let mut st = mk_streams(&Scalars {
        max: [10, 10],
        max_data: 1 << 20,
        send_window: 1 << 20,
        data_sent: other_data_sent as u64,
        unacked_data: other_data_sent as u64,
        ..Default::default()
    });
    let mut pending = Retransmits::default();
    let conn_state = crate::connection::State::Established;
    let id = {
        let mut s = Streams { state: &mut st, conn_state: &conn_state };
        s.open(Dir::Uni).expect("stream credit available")
    };
    st.send.get_mut(&id).map(get_or_insert_send(VarInt::from_u32(1 << 16)));
    let data = [7u8; 255];
    {
        let mut ss = SendStream { id, state: &mut st, pending: &mut pending, conn_state: &conn_state };
        let n = ss.write(&data[..written as usize]).unwrap_or(0);
        assert!(n == written as usize || written == 0);
    }
    let (data_sent, unacked, max_data) = (st.data_sent, st.unacked_data, st.max_data);
    assert!(data_sent == other_data_sent as u64 + written as u64);
    {
        let mut ss = SendStream { id, state: &mut st, pending: &mut pending, conn_state: &conn_state };
        ss.reset(VarInt::from_u32(9)).expect("first reset succeeds");
        assert!(ss.reset(VarInt::from_u32(9)).is_err());
    }
    assert!(st.data_sent == data_sent, "reset must not refund connection-level flow-control credit");
    assert!(st.unacked_data == unacked - written as u64, "reset must return the unacknowledged bytes to the send window");
    assert!(st.max_data == max_data);
    assert!(pending.reset_stream.len() == 1);
    1
}

/// Native replay body for the E2 query `e2_received_ack_of` (C05): an ACK for data of a stream that
/// was reset in the meantime must not release send-window share a second time (`reset` already
/// returned the stream's unacknowledged bytes); an ACK for a live stream releases exactly its range.
pub fn received_ack_of_native(reset: bool) -> u32 {
    use super::state::verif::{mk_streams, Scalars};
    let mut st = mk_streams(&Scalars { max: [10, 10], max_data: 1 << 20, send_window: 1 << 20, data_sent: 500, unacked_data: 500, ..Default::default() });
    let mut pending = Retransmits::default();
    let conn_state = crate::connection::State::Established;
    let id = {
        let mut s = Streams { state: &mut st, conn_state: &conn_state };
        s.open(Dir::Uni).expect("stream credit available")
    };
    st.send.get_mut(&id).map(get_or_insert_send(VarInt::from_u32(1 << 16)));
    {
        let mut ss = SendStream { id, state: &mut st, pending: &mut pending, conn_state: &conn_state };
        assert!(ss.write(&[7u8; 100]).unwrap_or(0) == 100);
    }
    assert!(st.unacked_data == 600);
    // the data goes out in one frame
    let meta = frame::StreamMeta { id, offsets: 0..100, fin: false };
    if reset {
        let mut ss = SendStream { id, state: &mut st, pending: &mut pending, conn_state: &conn_state };
        ss.reset(VarInt::from_u32(9)).expect("reset succeeds");
    }
    let before = st.unacked_data;
    assert!(before == if reset { 500 } else { 600 });
    st.received_ack_of(meta);
    if reset {
        assert!(st.unacked_data == before, "a late ACK for a reset stream released send window a second time");
        2
    } else {
        assert!(st.unacked_data == before - 100, "an ACK must release exactly the acknowledged range");
        1
    }
}

/// Native replay body for the E2 query `e2_chunks_next_eos` (C01 / C11): the FIN-carrying frame
/// (bytes 4..8) arrives while bytes 0..4 are still missing (`gap`) or after them.  End of stream
/// (`Ok(None)`) may only be reported once all 8 bytes have been handed to the application.
pub fn chunks_next_eos_native(gap: bool, ordered: bool) -> u32 {
    use super::state::verif::{mk_streams, Scalars};
    let mut st = mk_streams(&Scalars {
        server: true, max_remote: [4, 4], sent_max_remote: [4, 4], allocated_remote_count: [4, 4], max_concurrent_remote_count: [4, 4],
        receive_window: 1 << 20, local_max_data: 1 << 20, sent_max_data: 1 << 20, stream_receive_window: 1 << 16, ..Default::default()
    });
    let mut pending = Retransmits::default();
    let id = StreamId::new(crate::Side::Client, Dir::Uni, 0);
    st.insert(true, id); // as StreamsState::new does for every stream the peer may open
    if !gap {
        st.received(frame::Stream { id, offset: 0, fin: false, data: Bytes::from_static(b"abcd") }, 4).unwrap();
    }
    st.received(frame::Stream { id, offset: 4, fin: true, data: Bytes::from_static(b"efgh") }, 4).unwrap();
    let mut delivered = 0u64;
    let mut rs = RecvStream { id, state: &mut st, pending: &mut pending };
    let mut chunks = rs.read(ordered).expect("stream is readable");
    let mut outcome = 0;
    for _ in 0..4 {
        match chunks.next(usize::MAX) {
            Ok(Some(c)) => delivered += c.bytes.len() as u64,
            Ok(None) => {
                assert!(delivered == 8, "end of stream reported after only {} of 8 bytes were delivered", delivered);
                outcome = 1;
                break;
            }
            Err(ReadError::Blocked) => {
                assert!(gap, "a completely received stream reported as blocked");
                outcome = 2;
                break;
            }
            Err(ReadError::Reset(_)) => panic!("stream was not reset"),
        }
    }
    let _ = chunks.finalize();
    assert!(outcome == if gap { 2 } else { 1 });
    outcome
}

/// Native replay body for the E2 query `e2_streams_received_accounting` (C06): STREAM data is
/// charged to the connection-level receive budget exactly once per new byte and checked against
/// the limit WE advertised; data beyond that limit is a FLOW_CONTROL_ERROR.
pub fn received_accounting_native(over: bool) -> u32 {
    use super::state::verif::{mk_streams, Scalars};
    // peer's limit (max_data) deliberately differs from ours (local_max_data)
    let mut st = mk_streams(&Scalars {
        server: true, max_remote: [4, 4], sent_max_remote: [4, 4], allocated_remote_count: [4, 4], max_concurrent_remote_count: [4, 4],
        max_data: 5, receive_window: 100, local_max_data: 100, sent_max_data: 100, data_recvd: 90, stream_receive_window: 1 << 16, ..Default::default()
    });
    let id = StreamId::new(crate::Side::Client, Dir::Uni, 0);
    st.insert(true, id);
    static DATA: [u8; 32] = [7; 32];
    let n = if over { 11 } else { 10 };
    let r = st.received(frame::Stream { id, offset: 0, fin: false, data: Bytes::from_static(&DATA[..n]) }, n);
    if over {
        assert!(r.is_err(), "data beyond the advertised connection limit was accepted");
        return 2;
    }
    assert!(r.is_ok(), "data within the advertised connection limit was refused");
    assert!(super::state::verif::peek_data_recvd(&st) == 100, "connection-level receive count must grow by the new bytes");
    // a retransmission of the same bytes is not charged again
    let r = st.received(frame::Stream { id, offset: 0, fin: false, data: Bytes::from_static(&DATA[..n]) }, n);
    assert!(r.is_ok() && super::state::verif::peek_data_recvd(&st) == 100, "duplicate data charged twice");
    1
}

/// Native replay body for the E2 query `e2_streams_received_reset` (C06 / C11): a RESET_STREAM whose
/// final size would exceed the connection-level limit WE advertised is a FLOW_CONTROL_ERROR; an
/// acceptable one charges the unreceived remainder and returns the unread bytes as credit.
pub fn received_reset_native(over: bool) -> u32 {
    use super::state::verif::{mk_streams, Scalars};
    let mut st = mk_streams(&Scalars {
        server: true, max_remote: [4, 4], sent_max_remote: [4, 4], allocated_remote_count: [4, 4], max_concurrent_remote_count: [4, 4],
        max_data: 5, receive_window: 100, local_max_data: 100, sent_max_data: 100, data_recvd: 90, stream_receive_window: 1 << 16, ..Default::default()
    });
    let id = StreamId::new(crate::Side::Client, Dir::Uni, 0);
    st.insert(true, id);
    let fin = if over { 11u32 } else { 10 };
    let r = st.received_reset(frame::ResetStream { id, error_code: VarInt::from_u32(3), final_offset: VarInt::from_u32(fin) });
    if over {
        assert!(r.is_err(), "RESET_STREAM beyond the advertised connection limit was accepted");
        return 2;
    }
    assert!(r.is_ok(), "RESET_STREAM within the advertised connection limit was refused");
    assert!(super::state::verif::peek_data_recvd(&st) == 100, "the unreceived remainder of a reset stream must count against the connection");
    1
}

/// Native demonstration / replay body (C06): the application stops a stream on which `buffered` bytes
/// have been received but not read, then the peer resets the stream at final size `buffered + extra`.
/// The connection-level credit handed back to the peer over the whole exchange must equal what the
/// stream consumed (its final size): the window never opens wider than configured.
pub fn stop_then_reset_credit_native(buffered: u8, extra: u8) -> u32 {
    use super::state::verif::{mk_streams, Scalars};
    let mut st = mk_streams(&Scalars {
        server: true, max_remote: [4, 4], sent_max_remote: [4, 4], allocated_remote_count: [4, 4], max_concurrent_remote_count: [4, 4],
        receive_window: 1000, local_max_data: 1000, sent_max_data: 1000, stream_receive_window: 1 << 16, ..Default::default()
    });
    let mut pending = Retransmits::default();
    let id = StreamId::new(crate::Side::Client, Dir::Uni, 0);
    st.insert(true, id);
    static DATA: [u8; 255] = [7; 255];
    if buffered > 0 {
        st.received(frame::Stream { id, offset: 0, fin: false, data: Bytes::from_static(&DATA[..buffered as usize]) }, buffered as usize).unwrap();
    }
    let window0 = super::state::verif::peek_credit(&st);     // local_max_data - data_recvd
    {
        let mut rs = RecvStream { id, state: &mut st, pending: &mut pending };
        rs.stop(VarInt::from_u32(1)).unwrap();
    }
    let fin = buffered as u32 + extra as u32;
    st.received_reset(frame::ResetStream { id, error_code: VarInt::from_u32(3), final_offset: VarInt::from_u32(fin) }).unwrap();
    // all `fin` bytes of the stream are now accounted as received AND released: the peer's remaining credit is
    // exactly the configured window again
    let credit = super::state::verif::peek_credit(&st);
    assert!(credit == 1000, "connection-level credit after stop + reset is {} for a 1000-byte window (was {} before the stop)", credit, window0);
    1
}

/// Native replay body for the E2 query `e2_received_stop_sending` (C11): STOP_SENDING for a stream in
/// each sending state.  `Stopped` is reported once per stopped stream - with the peer's code - and a
/// repeated frame, a frame for a stream that already finished its data or was reset, or one for a stream
/// that does not exist, reports nothing; afterwards write() reports the peer's code.
pub fn stop_sending_native(state: u8) -> u32 {
    use super::state::verif::{mk_streams, Scalars};
    let mut st = mk_streams(&Scalars { max: [10, 10], max_data: 1 << 20, send_window: 1 << 20, ..Default::default() });
    let mut pending = Retransmits::default();
    let conn_state = crate::connection::State::Established;
    let id = {
        let mut s = Streams { state: &mut st, conn_state: &conn_state };
        s.open(Dir::Uni).expect("stream credit available")
    };
    st.send.get_mut(&id).map(get_or_insert_send(VarInt::from_u32(1 << 16)));
    let stopped_events = |st: &mut StreamsState| {
        let mut n = Vec::new();
        while let Some(e) = st.poll() {
            if let StreamEvent::Stopped { id, error_code } = e {
                n.push((id, error_code));
            }
        }
        n
    };
    {
        let mut ss = SendStream { id, state: &mut st, pending: &mut pending, conn_state: &conn_state };
        assert!(ss.write(&[7u8; 10]).unwrap_or(0) == 10);
        match state {
            1 => ss.finish().expect("finish succeeds"),
            2 => ss.reset(VarInt::from_u32(3)).expect("reset succeeds"),
            _ => {}
        }
    }
    let _ = stopped_events(&mut st);
    let code = VarInt::from_u32(77);
    if state == 3 {
        // a stream that was never opened
        st.received_stop_sending(StreamId::new(crate::Side::Client, Dir::Bi, 9), code);
        assert!(stopped_events(&mut st).is_empty(), "Stopped reported for a stream that does not exist");
        return 8;
    }
    st.received_stop_sending(id, code);
    let ev = stopped_events(&mut st);
    assert!(ev == vec![(id, code)], "Stopped must be reported exactly once, for this stream, with the peer's code");
    st.received_stop_sending(id, VarInt::from_u32(78));
    assert!(stopped_events(&mut st).is_empty(), "Stopped reported a second time for the same stream");
    if state == 0 {
        let mut ss = SendStream { id, state: &mut st, pending: &mut pending, conn_state: &conn_state };
        assert!(matches!(ss.write(&[1u8; 4]), Err(WriteError::Stopped(c)) if c == code), "write after STOP_SENDING must report the peer's code");
    }
    1 << state
}

/// Native replay body for the E2 query `e2_reset_acked` (C11): the acknowledgement of a RESET_STREAM
/// frees the sending half exactly when that half is in state ResetSent (a stale acknowledgement for a
/// stream id that is open again / still sending must not remove it).
pub fn reset_acked_native(reset: bool) -> u32 {
    use super::state::verif::{mk_streams, Scalars};
    let mut st = mk_streams(&Scalars { max: [10, 10], max_data: 1 << 20, send_window: 1 << 20, ..Default::default() });
    let mut pending = Retransmits::default();
    let conn_state = crate::connection::State::Established;
    let id = {
        let mut s = Streams { state: &mut st, conn_state: &conn_state };
        s.open(Dir::Uni).expect("stream credit available")
    };
    st.send.get_mut(&id).map(get_or_insert_send(VarInt::from_u32(1 << 16)));
    {
        let mut ss = SendStream { id, state: &mut st, pending: &mut pending, conn_state: &conn_state };
        assert!(ss.write(&[7u8; 10]).unwrap_or(0) == 10);
        if reset {
            ss.reset(VarInt::from_u32(3)).expect("reset succeeds");
        }
    }
    let streams_before = st.send_streams;
    st.reset_acked(id);
    if reset {
        assert!(!st.send.contains_key(&id), "an acknowledged reset did not free the sending half");
        assert!(st.send_streams == streams_before - 1, "the freed stream still counts as open");
        // and only once
        st.reset_acked(id);
        assert!(st.send_streams == streams_before - 1, "a repeated acknowledgement freed the stream twice");
        1
    } else {
        assert!(st.send.contains_key(&id), "a stream that was not reset was removed by a RESET_STREAM acknowledgement");
        assert!(st.send_streams == streams_before);
        let mut ss = SendStream { id, state: &mut st, pending: &mut pending, conn_state: &conn_state };
        assert!(ss.write(&[1u8; 4]).is_ok(), "the stream must still be writable");
        2
    }
}

/// Native replay body for the E2 slice query `e2_retransmit_all_for_0rtt_iteration` (C17 / C01): a client
/// writes `len_` bytes of early data on a stream and finishes it; the data (all of it, or - `partial` - only
/// what fits a small packet, nothing when there is no data) is sent in 0-RTT packets; a Retry then discards
/// those packets and `retransmit_all_for_0rtt` runs.  What is sent afterwards must cover the stream from
/// offset 0 to its end and carry the FIN - also for a stream that consists of a FIN only.
pub fn retransmit_all_0rtt_native(len_: u8, partial: bool) -> u32 {
    use super::state::verif::{mk_streams, Scalars};
    let mut st = mk_streams(&Scalars { max: [10, 10], max_data: 1 << 20, send_window: 1 << 20, ..Default::default() });
    let mut pending = Retransmits::default();
    let conn_state = crate::connection::State::Established;
    let id = {
        let mut s = Streams { state: &mut st, conn_state: &conn_state };
        s.open(Dir::Uni).expect("stream credit available")
    };
    st.send.get_mut(&id).map(get_or_insert_send(VarInt::from_u32(1 << 16)));
    let data = [7u8; 255];
    {
        let mut ss = SendStream { id, state: &mut st, pending: &mut pending, conn_state: &conn_state };
        if len_ > 0 {
            assert!(ss.write(&data[..len_ as usize]).unwrap_or(0) == len_ as usize);
        }
        ss.finish().expect("finish succeeds");
    }
    // the first flight
    let mut buf = Vec::new();
    if partial {
        if len_ > 0 {
            let _ = st.write_stream_frames(&mut buf, 60, false);
        }
    } else {
        let sent = st.write_stream_frames(&mut buf, 1200, false);
        assert!(sent.iter().any(|m| m.id == id && m.fin), "the first flight carries the FIN");
    }
    // Retry: every 0-RTT packet is forgotten
    st.retransmit_all_for_0rtt();
    let mut covered = 0u64;
    let mut fin = false;
    for _ in 0..8 {
        let mut buf = Vec::new();
        for m in st.write_stream_frames(&mut buf, 1200, false) {
            if m.id == id {
                assert!(m.offsets.start <= covered, "a gap at offset {} was never sent again", covered);
                covered = covered.max(m.offsets.end);
                fin |= m.fin;
            }
        }
    }
    assert!(covered == len_ as u64, "only {} of {} early bytes were sent again after the Retry", covered, len_);
    assert!(fin, "the end of the early stream was not sent again after the Retry");
    1 + (len_ == 0) as u32 + 2 * partial as u32
}

/// Native replay body for the E2 query `e2_recvstream_received_reset` (C11), on a real `StreamsState`:
/// mode 0 - the application stopped the stream: `received_reset` (like `read` and `stop`) reports a closed
///          stream, also before the peer's RESET_STREAM arrives;
/// mode 1 - the peer reset the stream: the code is reported exactly once, afterwards the stream is closed;
/// mode 2 - an open stream that was not reset: `Ok(None)`, and the stream stays readable.
pub fn recvstream_received_reset_native(mode: u8) -> u32 {
    use super::state::verif::{mk_streams, Scalars};
    let mut st = mk_streams(&Scalars {
        server: true, max_remote: [4, 4], sent_max_remote: [4, 4], allocated_remote_count: [4, 4], max_concurrent_remote_count: [4, 4],
        receive_window: 1 << 20, local_max_data: 1 << 20, sent_max_data: 1 << 20, stream_receive_window: 1 << 16, ..Default::default()
    });
    let mut pending = Retransmits::default();
    let id = StreamId::new(crate::Side::Client, Dir::Uni, 0);
    st.insert(true, id);
    st.received(frame::Stream { id, offset: 0, fin: false, data: Bytes::from_static(b"abcd") }, 4).unwrap();
    match mode {
        0 => {
            let mut rs = RecvStream { id, state: &mut st, pending: &mut pending };
            rs.stop(VarInt::from_u32(5)).expect("stop succeeds on an open stream");
            assert!(rs.received_reset().is_err(), "received_reset on a stopped stream must report a closed stream");
            assert!(rs.stop(VarInt::from_u32(5)).is_err() && rs.read(true).is_err(), "a stopped stream must be closed for every operation");
            1
        }
        1 => {
            st.received_reset(frame::ResetStream { id, error_code: VarInt::from_u32(9), final_offset: VarInt::from_u32(4) }).unwrap();
            let mut rs = RecvStream { id, state: &mut st, pending: &mut pending };
            assert!(rs.received_reset() == Ok(Some(VarInt::from_u32(9))), "the sender's reset code must be reported");
            assert!(rs.received_reset().is_err(), "the reset was reported a second time / the stream is not closed afterwards");
            assert!(rs.read(true).is_err() && rs.stop(VarInt::from_u32(5)).is_err(), "operations after the terminal outcome must report a closed stream");
            2
        }
        _ => {
            let mut rs = RecvStream { id, state: &mut st, pending: &mut pending };
            assert!(rs.received_reset() == Ok(None), "a stream that was not reset must not report one");
            assert!(rs.read(true).is_ok(), "the stream must stay readable");
            4
        }
    }
}

/// Native replay body for the E2 query `e2_streams_retransmit` (C01), on a real `StreamsState`: 3000 bytes are
/// written to a stream.  mode 0: all of it is sent, the application calls `finish()` (a FIN-only frame is now owed
/// but not yet sent), and then the first frame - which carried no FIN - is declared lost.  mode 1:
/// everything including the FIN is sent and the FIN-carrying frame is lost.  In both cases what is sent
/// afterwards must cover the lost range and end with the FIN: the receiver must learn the end of the stream.
pub fn retransmit_fin_native(mode: u8) -> u32 {
    use super::state::verif::{mk_streams, Scalars};
    let mut st = mk_streams(&Scalars { max: [10, 10], max_data: 1 << 20, send_window: 1 << 20, ..Default::default() });
    let mut pending = Retransmits::default();
    let conn_state = crate::connection::State::Established;
    let id = {
        let mut s = Streams { state: &mut st, conn_state: &conn_state };
        s.open(Dir::Uni).expect("stream credit available")
    };
    st.send.get_mut(&id).map(get_or_insert_send(VarInt::from_u32(1 << 16)));
    let data = vec![7u8; 3000];
    {
        let mut ss = SendStream { id, state: &mut st, pending: &mut pending, conn_state: &conn_state };
        assert!(ss.write(&data).unwrap_or(0) == 3000);
    }
    let mut sent: Vec<frame::StreamMeta> = Vec::new();
    let mut send_some = |st: &mut StreamsState, sent: &mut Vec<frame::StreamMeta>, rounds: usize| {
        for _ in 0..rounds {
            let mut buf = Vec::new();
            for m in st.write_stream_frames(&mut buf, 1200, false) {
                if m.id == id {
                    sent.push(m);
                }
            }
        }
    };
    let lost;
    if mode == 0 {
        // all data is on the wire (no FIN yet: the application has not finished the stream)
        send_some(&mut st, &mut sent, 6);
        assert!(sent.len() >= 3 && sent.iter().all(|m| !m.fin) && sent.last().map(|m| m.offsets.end) == Some(3000));
        let mut ss = SendStream { id, state: &mut st, pending: &mut pending, conn_state: &conn_state };
        ss.finish().expect("finish succeeds");
        lost = sent[0].clone();
    } else {
        {
            let mut ss = SendStream { id, state: &mut st, pending: &mut pending, conn_state: &conn_state };
            ss.finish().expect("finish succeeds");
        }
        send_some(&mut st, &mut sent, 6);
        assert!(sent.last().map(|m| m.fin && m.offsets.end == 3000) == Some(true), "everything including the FIN was sent");
        lost = sent.last().unwrap().clone();
    }
    let already = sent.len();
    st.retransmit(lost.clone());
    send_some(&mut st, &mut sent, 8);
    let after = &sent[already..];
    assert!(after.iter().any(|m| m.offsets.start <= lost.offsets.start && (m.offsets.end >= lost.offsets.end || after.iter().any(|n| n.offsets.end >= lost.offsets.end))), "the lost range was not sent again");
    assert!(after.iter().any(|m| m.fin && m.offsets.end == 3000), "the end of the stream is never (re)announced: the receiver waits forever");
    1 + mode as u32
}

/// Native replay body for the E2 slice query `e2_send_write_loop_iteration` (C05), through the public
/// `SendStream::write_chunks` on a real `StreamsState`: the peer granted `credit` bytes on the stream; the
/// application offers `n` chunks of `chunk` bytes in one vectored write.  No more than `credit` bytes may be
/// accepted, also when the credit runs out in the middle of a chunk.
pub fn send_write_chunks_native(credit: u8, chunk: u8, n: u8) -> u32 {
    use super::state::verif::{mk_streams, Scalars};
    let mut st = mk_streams(&Scalars { max: [10, 10], max_data: 1 << 20, send_window: 1 << 20, ..Default::default() });
    let mut pending = Retransmits::default();
    let conn_state = crate::connection::State::Established;
    let id = {
        let mut s = Streams { state: &mut st, conn_state: &conn_state };
        s.open(Dir::Uni).expect("stream credit available")
    };
    st.send.get_mut(&id).map(get_or_insert_send(VarInt::from_u32(credit as u32)));
    let mut chunks: Vec<Bytes> = (0..n.min(8)).map(|i| Bytes::from(vec![i; chunk as usize])).collect();
    let offered = chunks.iter().map(|c| c.len()).sum::<usize>();
    let mut ss = SendStream { id, state: &mut st, pending: &mut pending, conn_state: &conn_state };
    let r = ss.write_chunks(&mut chunks);
    let accepted = match r {
        Ok(w) => w.bytes,
        Err(_) => 0,
    };
    assert!(accepted <= credit as usize, "{} bytes accepted on a stream with {} bytes of credit", accepted, credit);
    assert!(accepted == offered.min(credit as usize), "write must accept exactly the available credit: {} of {} offered, credit {}", accepted, offered, credit);
    1
}

/// Native replay body for `recv_stop` (C06), and demonstration for finding 17 - the mirror image of
/// `stop_then_reset_credit_native`: `buffered` bytes have been received but not read, the peer RESETs the
/// stream at final size `buffered + extra` (the whole final size is credited back at that point, the data
/// being discarded), and THEN the application - which has not looked at the stream since - stops it.  The
/// connection-level credit handed to the peer must again be exactly the configured window.
pub fn reset_then_stop_credit_native(buffered: u8, extra: u8) -> u32 {
    use super::state::verif::{mk_streams, Scalars};
    let mut st = mk_streams(&Scalars {
        server: true, max_remote: [4, 4], sent_max_remote: [4, 4], allocated_remote_count: [4, 4], max_concurrent_remote_count: [4, 4],
        receive_window: 1000, local_max_data: 1000, sent_max_data: 1000, stream_receive_window: 1 << 16, ..Default::default()
    });
    let mut pending = Retransmits::default();
    let id = StreamId::new(crate::Side::Client, Dir::Uni, 0);
    st.insert(true, id);
    static DATA: [u8; 255] = [7; 255];
    if buffered > 0 {
        st.received(frame::Stream { id, offset: 0, fin: false, data: Bytes::from_static(&DATA[..buffered as usize]) }, buffered as usize).unwrap();
    }
    let fin = buffered as u32 + extra as u32;
    st.received_reset(frame::ResetStream { id, error_code: VarInt::from_u32(3), final_offset: VarInt::from_u32(fin) }).unwrap();
    let after_reset = super::state::verif::peek_credit(&st);
    assert!(after_reset == 1000, "credit after the reset is {}", after_reset);
    {
        let mut rs = RecvStream { id, state: &mut st, pending: &mut pending };
        let _ = rs.stop(VarInt::from_u32(1));
    }
    let credit = super::state::verif::peek_credit(&st);
    assert!(credit == 1000, "connection-level credit after reset + stop is {} for a 1000-byte window: the unread bytes were credited twice", credit);
    1
}

/// Native replay body for the E2 query `e2_chunks_new_keeps_stream_on_error` (C11 / C06), and demonstration
/// for finding 18: a stream with 8 unread bytes is read unordered once, then the application asks for an
/// ordered read - which is refused with `IllegalOrderedRead`.  The refusal must leave the stream as it was:
/// it can still be read unordered and stopped, its data is still credited, and it still counts as open
/// until it really ends.
pub fn illegal_ordered_read_native(_x: u8) -> u32 {
    use super::state::verif::{mk_streams, Scalars};
    let mut st = mk_streams(&Scalars {
        server: true, max_remote: [4, 4], sent_max_remote: [4, 4], allocated_remote_count: [4, 4], max_concurrent_remote_count: [4, 4],
        receive_window: 1 << 20, local_max_data: 1 << 20, sent_max_data: 1 << 20, stream_receive_window: 1 << 16, ..Default::default()
    });
    let mut pending = Retransmits::default();
    let id = StreamId::new(crate::Side::Client, Dir::Uni, 0);
    st.insert(true, id);
    st.received(frame::Stream { id, offset: 4, fin: false, data: Bytes::from_static(b"efgh") }, 4).unwrap();
    {
        let mut rs = RecvStream { id, state: &mut st, pending: &mut pending };
        let mut chunks = rs.read(false).expect("unordered read");
        assert!(matches!(chunks.next(usize::MAX), Ok(Some(_))));
        let _ = chunks.finalize();
    }
    st.received(frame::Stream { id, offset: 0, fin: false, data: Bytes::from_static(b"abcd") }, 4).unwrap();
    {
        let mut rs = RecvStream { id, state: &mut st, pending: &mut pending };
        assert!(matches!(rs.read(true), Err(ReadableError::IllegalOrderedRead)), "an ordered read after an unordered one must be refused");
    }
    assert!(st.recv.contains_key(&id), "a refused read removed the stream's receive state: the stream is gone without ever ending");
    let mut rs = RecvStream { id, state: &mut st, pending: &mut pending };
    let mut chunks = rs.read(false).ok().expect("the stream must still be readable the way it was read before");
    assert!(matches!(chunks.next(usize::MAX), Ok(Some(c)) if &c.bytes[..] == b"abcd"), "data received before the refused read was lost");
    let _ = chunks.finalize();
    1
}

/// Native replay body for the E2 query `e2_sendstream_reset_legality` (C11), on a real `StreamsState`: a
/// stream is written (two frames), finished, and only the FIN-carrying frame is acknowledged - the first frame
/// is still outstanding, the sending half is not finished.  `reset()` must still work (and queue RESET_STREAM);
/// only a second `reset()` is refused.
pub fn reset_after_fin_acked_native(_x: u8) -> u32 {
    use super::state::verif::{mk_streams, Scalars};
    let mut st = mk_streams(&Scalars { max: [10, 10], max_data: 1 << 20, send_window: 1 << 20, ..Default::default() });
    let mut pending = Retransmits::default();
    let conn_state = crate::connection::State::Established;
    let id = {
        let mut s = Streams { state: &mut st, conn_state: &conn_state };
        s.open(Dir::Uni).expect("stream credit available")
    };
    st.send.get_mut(&id).map(get_or_insert_send(VarInt::from_u32(1 << 16)));
    {
        let mut ss = SendStream { id, state: &mut st, pending: &mut pending, conn_state: &conn_state };
        assert!(ss.write(&[7u8; 2000]).unwrap_or(0) == 2000);
        ss.finish().expect("finish succeeds");
    }
    let mut sent: Vec<frame::StreamMeta> = Vec::new();
    for _ in 0..4 {
        let mut buf = Vec::new();
        for m in st.write_stream_frames(&mut buf, 1200, false) {
            sent.push(m);
        }
    }
    assert!(sent.len() >= 2 && sent.last().map(|m| m.fin) == Some(true));
    // only the last frame (with the FIN) is acknowledged
    st.received_ack_of(sent.last().unwrap().clone());
    assert!(st.send.contains_key(&id), "the stream is not finished: its first frame is unacknowledged");
    let mut ss = SendStream { id, state: &mut st, pending: &mut pending, conn_state: &conn_state };
    assert!(ss.reset(VarInt::from_u32(9)).is_ok(), "reset refused on a stream that is still open (FIN acknowledged, data outstanding)");
    assert!(ss.reset(VarInt::from_u32(9)).is_err(), "a second reset must be refused");
    drop(ss);
    assert!(pending.reset_stream.len() == 1, "RESET_STREAM was not queued exactly once");
    1
}

/// Native replay body for the E2 query `e2_streams_open_limit` (C05), through the public `Streams::open` on a
/// real `StreamsState` whose peer allows `limit` streams per direction: exactly `limit` streams can be opened.
pub fn open_limit_native(limit: u8) -> u32 {
    use super::state::verif::{mk_streams, Scalars};
    let mut st = mk_streams(&Scalars { max: [limit as u64, limit as u64], max_data: 1 << 20, send_window: 1 << 20, ..Default::default() });
    let conn_state = crate::connection::State::Established;
    for dir in [Dir::Bi, Dir::Uni] {
        let mut opened = 0u32;
        for _ in 0..(limit as u32 + 3) {
            let mut s = Streams { state: &mut st, conn_state: &conn_state };
            if s.open(dir).is_some() {
                opened += 1;
            }
        }
        assert!(opened == limit as u32, "{} {:?} streams opened against a peer limit of {}", opened, dir, limit);
    }
    1
}

/// Native replay body for the E2 query `e2_received_max_stream_data_limit` (C06): a server that allows
/// `max_remote` streams per direction gets MAX_STREAM_DATA for the client-initiated bidirectional stream with
/// index `index`.  A stream beyond the limit is a STREAM_LIMIT_ERROR (RFC 9000 4.6) and must not be counted as
/// opened: otherwise `Streams::accept` hands the application streams the peer was never allowed to open.
pub fn max_stream_data_limit_native(max_remote: u8, index: u64) -> u32 {
    use super::state::verif::{mk_streams, Scalars};
    let lim = max_remote as u64;
    let mut st = mk_streams(&Scalars { server: true, max_remote: [lim, lim], max_data: 1 << 20, send_window: 1 << 20, ..Default::default() });
    let id = StreamId::new(crate::Side::Client, Dir::Bi, index);
    let res = st.received_max_stream_data(id, 1000);
    if index >= lim {
        assert!(matches!(&res, Err(e) if e.code == crate::TransportErrorCode::STREAM_LIMIT_ERROR), "MAX_STREAM_DATA for stream index {} accepted against a limit of {} streams", index, lim);
    }
    assert!(st.next_remote[Dir::Bi as usize] <= lim, "{} peer-initiated streams counted as opened against a limit of {}", st.next_remote[Dir::Bi as usize], lim);
    let conn_state = crate::connection::State::Established;
    let mut accepted = 0u64;
    for _ in 0..(lim + 3) {
        let mut s = Streams { state: &mut st, conn_state: &conn_state };
        if s.accept(Dir::Bi).is_some() {
            accepted += 1;
        }
    }
    assert!(accepted <= lim, "the application was handed more streams than the limit allows");
    1
}
