pub use super::recv::verif as recv;
pub use super::send::verif as send;
pub use super::state::verif as state;
