pub use super::recv::verif as recv;
pub use super::send::verif as send;
pub use super::state::verif as state;

/// Native replay body for the E2 query `e2_sendstream_reset` (populates the real hash map, so it
/// is never run under Kani).  Resetting a stream with `written` bytes buffered must hand exactly
/// those unacknowledged bytes back to the connection's send window and leave every other
/// connection-level counter (in particular `data_sent`, the flow-control ledger) alone.
pub fn sendstream_reset_native(written: u8, other_data_sent: u16) -> u32 {
    use super::state::verif::{mk_streams, Scalars};
    let mut st = mk_streams(&Scalars {
        max: [10, 10],
        max_data: 1 << 20,
        send_window: 1 << 20,
        data_sent: other_data_sent as u64,
        unacked_data: other_data_sent as u64,
        ..Default::default()
    });
    let mut pending = Retransmits::default();
    let conn_state = crate::connection::State::Established;
    let id = {
        let mut s = Streams { state: &mut st, conn_state: &conn_state };
        s.open(Dir::Uni).expect("stream credit available")
    };
    st.send.get_mut(&id).map(get_or_insert_send(VarInt::from_u32(1 << 16)));
    let data = [7u8; 255];
    {
        let mut ss = SendStream { id, state: &mut st, pending: &mut pending, conn_state: &conn_state };
        let n = ss.write(&data[..written as usize]).unwrap_or(0);
        assert!(n == written as usize || written == 0);
    }
    let (data_sent, unacked, max_data) = (st.data_sent, st.unacked_data, st.max_data);
    assert!(data_sent == other_data_sent as u64 + written as u64);
    {
        let mut ss = SendStream { id, state: &mut st, pending: &mut pending, conn_state: &conn_state };
        ss.reset(VarInt::from_u32(9)).expect("first reset succeeds");
        assert!(ss.reset(VarInt::from_u32(9)).is_err());
    }
    assert!(st.data_sent == data_sent, "reset must not refund connection-level flow-control credit");
    assert!(st.unacked_data == unacked - written as u64, "reset must return the unacknowledged bytes to the send window");
    assert!(st.max_data == max_data);
    assert!(pending.reset_stream.len() == 1);
    1
}
