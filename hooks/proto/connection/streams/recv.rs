// Harness bodies for quinn-proto/src/connection/streams/recv.rs (receiving half of a stream).

use crate::connection::assembler::verif::mk_assembler;
use crate::TransportErrorCode;

const V62: u64 = 1 << 62;
static ZEROS: [u8; 65536] = [0; 65536];

fn mk_state(kind: u8, size: u64, code: u64) -> Option<RecvState> {
    Some(match kind {
        0 => RecvState::Recv { size: None },
        1 => RecvState::Recv { size: Some(size) },
        2 => RecvState::ResetRecvd { size, error_code: unsafe { VarInt::from_u64_unchecked(code) } },
        _ => return None,
    })
}

/// Representation invariant of a reachable `Recv`: the high-water mark never exceeds what was
/// advertised nor a known final size; the read cursor never passes the high-water mark.
/// NB: all checks happen before anything heap-owning is built (see send.rs hook).
fn valid_recv(kind: u8, size: u64, code: u64, sent_max: u64, end: u64, bytes_read: u64) -> bool {
    kind <= 2 && size < V62 && code < V62 && sent_max <= V62 && end <= sent_max && bytes_read <= end && (kind == 0 || end <= size)
}

fn mk_recv(kind: u8, size: u64, code: u64, sent_max: u64, end: u64, bytes_read: u64, stopped: bool) -> Recv {
    Recv { state: mk_state(kind, size, code).unwrap(), assembler: mk_assembler(bytes_read), sent_max_stream_data: sent_max, end, stopped }
}

/// C06.a / C01.d / C11.b: `Recv::ingest` on a stopped stream (no reassembly buffer involved) for
/// every frame (offset, length <= 65535, fin), every stream state and every connection-level
/// accounting state: the verdict equals the closed-form table below and accepted data never
/// moves the high-water mark beyond the advertised limit.
pub fn ingest_stopped(kind: u8, size: u64, sent_max: u64, end: u64, offset: u64, len: u16, fin: bool, received: u64, max_data: u64) -> u32 {
    if !valid_recv(kind, size, 7, sent_max, end, 0) || offset >= V62 || received >= V62 || max_data >= V62 {
        return 0;
    }
    let mut r = mk_recv(kind, size, 7, sent_max, end, 0, true);
    let st0 = r.state;
    let fr = frame::Stream { id: crate::StreamId(0), offset, fin, data: bytes::Bytes::from_static(&ZEROS[..len as usize]) };
    let res = r.ingest(fr, len as usize, received, max_data);
    let e = offset + len as u64;
    let new_bytes = e.saturating_sub(end);
    let f;
    if e >= V62 {
        assert!(matches!(&res, Err(x) if x.code == TransportErrorCode::FLOW_CONTROL_ERROR));
        f = 2;
    } else if (kind != 0 && (e > size || (fin && e != size))) || (kind == 0 && fin && e < end) {
        // RFC 9000 4.5: data beyond a known final size, a second different final size, or a final size
        // below what has already been received
        assert!(matches!(&res, Err(x) if x.code == TransportErrorCode::FINAL_SIZE_ERROR));
        f = 4;
    } else if e > sent_max || received + new_bytes > max_data {
        assert!(matches!(&res, Err(x) if x.code == TransportErrorCode::FLOW_CONTROL_ERROR));
        f = 8;
    } else {
        let Ok((nb, closed)) = res else { panic!("frame within all limits must be accepted") };
        assert!(nb == new_bytes);
        assert!(closed == fin);
        assert!(r.end == end.max(e));
        assert!(r.end <= r.sent_max_stream_data);
        assert!(received + nb <= max_data);
        f = 1 | (if nb == 0 { 16 } else { 0 }) | (if fin { 32 } else { 0 });
    }
    if res.is_err() {
        assert!(r.end == end);
    }
    // a stopped stream never records a final size and never buffers
    assert!(r.state == st0);
    assert!(r.sent_max_stream_data == sent_max && r.stopped);
    core::mem::forget(r);
    core::mem::forget(res);
    f
}

/// C06.a / C11.b: `Recv::reset` (RESET_STREAM) from every state.
pub fn reset(kind: u8, size: u64, code0: u64, sent_max: u64, end: u64, stopped: bool, final_offset: u64, code: u64, received: u64, max_data: u64) -> u32 {
    if !valid_recv(kind, size, code0, sent_max, end, 0) || final_offset >= V62 || code >= V62 || received >= V62 || max_data >= V62 {
        return 0;
    }
    let mut r = mk_recv(kind, size, code0, sent_max, end, 0, stopped);
    let st0 = r.state;
    let res = r.reset(unsafe { VarInt::from_u64_unchecked(code) }, unsafe { VarInt::from_u64_unchecked(final_offset) }, received, max_data);
    let new_bytes = final_offset.saturating_sub(end);
    let f;
    if (kind != 0 && size != final_offset) || (kind == 0 && end > final_offset) {
        assert!(matches!(&res, Err(x) if x.code == TransportErrorCode::FINAL_SIZE_ERROR));
        f = 2;
    } else if final_offset > sent_max || received + new_bytes > max_data {
        assert!(matches!(&res, Err(x) if x.code == TransportErrorCode::FLOW_CONTROL_ERROR));
        f = 4;
    } else if kind == 2 {
        assert!(matches!(res, Ok(false)));
        // the first reset's code is the one the application will see
        assert!(matches!(r.reset_code(), Some(c) if c.into_inner() == code0));
        f = 8;
    } else {
        assert!(matches!(res, Ok(true)));
        assert!(matches!(r.reset_code(), Some(c) if c.into_inner() == code));
        assert!(!r.is_receiving() && !r.final_offset_unknown() && !r.can_send_flow_control());
        assert!(matches!(r.state, RecvState::ResetRecvd { size: s, .. } if s == final_offset));
        f = 1;
    }
    if !matches!(res, Ok(true)) {
        assert!(r.state == st0);
    }
    assert!(r.end == end && r.stopped == stopped && r.sent_max_stream_data == sent_max);
    core::mem::forget(r);
    core::mem::forget(res);
    f
}

/// C06.c / C11.b: `Recv::stop`: error if already stopped; otherwise releases exactly the credit that is
/// still owed for this stream - the unread bytes `end - bytes_read`, or nothing when a RESET_STREAM has
/// already been received (`received_reset` credited the whole final size then) - and STOP_SENDING is
/// wanted only while still receiving.
pub fn stop(kind: u8, size: u64, sent_max: u64, end: u64, bytes_read: u64, stopped: bool) -> u32 {
    if !valid_recv(kind, size, 7, sent_max, end, bytes_read) {
        return 0;
    }
    let mut r = mk_recv(kind, size, 7, sent_max, end, bytes_read, stopped);
    let res = r.stop();
    let f;
    match res {
        Err(_) => {
            assert!(stopped);
            f = 2;
        }
        Ok((credits, tx)) => {
            assert!(!stopped);
            assert!(credits == if kind == 2 { 0 } else { end - bytes_read });
            assert!(tx.0 == (kind != 2));
            assert!(r.stopped);
            assert!(r.stop().is_err());
            assert!(!r.can_send_flow_control());
            f = 1;
        }
    }
    assert!(r.end == end);
    core::mem::forget(r);
    f
}

/// C06.c: `Recv::max_stream_data` / `record_sent_max_stream_data`: the advertised limit is
/// exactly consumed + window, an update is requested only when the final size is unknown, the
/// stream is not stopped and at least window/8 of new credit is outstanding; the recorded sent
/// value never decreases.
pub fn max_stream_data(kind: u8, size: u64, sent_max: u64, end: u64, bytes_read: u64, stopped: bool, window: u64, sent_value: u64) -> u32 {
    // advertised values are always of the form consumed' + window with consumed' <= bytes_read
    if !valid_recv(kind, size, 7, sent_max, end, bytes_read) || window >= V62 || sent_max > bytes_read + window {
        return 0;
    }
    let mut r = mk_recv(kind, size, 7, sent_max, end, bytes_read, stopped);
    let (max, tx) = r.max_stream_data(window);
    assert!(max == bytes_read + window);
    let want = kind == 0 && !stopped && (max - sent_max) >= window / 8;
    assert!(tx.0 == want);
    r.record_sent_max_stream_data(sent_value);
    assert!(r.sent_max_stream_data == sent_max.max(sent_value));
    core::mem::forget(r);
    if want { 2 } else { 1 }
}

/// C06 / C11: a recycled `Recv` (stream state objects are pooled and reused for later streams)
/// starts from exactly the initial state: nothing of the previous stream's limit, high-water
/// mark, final size, stop flag or read cursor survives `reinit`.
pub fn reinit(kind: u8, size: u64, code: u64, sent_max: u64, end: u64, bytes_read: u64, stopped: bool, initial_max_data: u64) -> u32 {
    if !valid_recv(kind, size, code, sent_max, end, bytes_read) {
        return 0;
    }
    let mut r = mk_recv(kind, size, code, sent_max, end, bytes_read, stopped);
    r.reinit(initial_max_data);
    assert!(r.state == RecvState::Recv { size: None });
    assert!(r.sent_max_stream_data == initial_max_data);
    assert!(r.end == 0 && !r.stopped);
    assert!(r.assembler.bytes_read() == 0);
    assert!(r.is_receiving() && r.final_offset_unknown() && r.can_send_flow_control() && r.reset_code().is_none());
    // identical to a freshly constructed one
    let fresh = Recv::new(initial_max_data);
    assert!(fresh.state == r.state && fresh.sent_max_stream_data == r.sent_max_stream_data && fresh.end == r.end && fresh.stopped == r.stopped);
    core::mem::forget(fresh);
    core::mem::forget(r);
    1
}
