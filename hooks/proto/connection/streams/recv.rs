// harness bodies compiled inside quinn-proto/src/connection/streams/recv.rs (feature __verif-hooks)
