// Harness bodies for quinn-proto/src/connection/streams/send.rs (sending half of a stream).

use crate::connection::send_buffer::verif::mk_send_buffer;

const V62: u64 = 1 << 62;
static ZEROS: [u8; 65536] = [0; 65536];

/// BytesSource handing out up to `remaining` bytes from a static buffer in one chunk (no
/// allocation): lets the budget arithmetic of `Send::write` run over 16-bit lengths.
struct StaticSource {
    remaining: usize,
}

impl BytesSource for StaticSource {
    fn pop_chunk(&mut self, limit: usize) -> (Bytes, usize) {
        let n = limit.min(self.remaining);
        if n == 0 {
            return (Bytes::new(), 0);
        }
        self.remaining -= n;
        (Bytes::from_static(&ZEROS[..n]), usize::from(self.remaining == 0))
    }
}

fn mk_state(kind: u8) -> Option<SendState> {
    Some(match kind {
        0 => SendState::Ready,
        1 => SendState::DataSent { finish_acked: false },
        2 => SendState::DataSent { finish_acked: true },
        3 => SendState::ResetSent,
        _ => return None,
    })
}

/// NB: all precondition checks happen BEFORE any heap-owning value is built, and every body
/// `mem::forget`s what it built: drop glue of VecDeque<Bytes>/BTreeMap is expensive to encode and
/// not the subject of any obligation here.
fn valid_send(kind: u8, stop_code: u64, max_data: u64, offset: u64, unsent: u64, unacked_len: usize) -> bool {
    kind <= 3 && stop_code < V62 && max_data < V62 && offset <= max_data && unsent <= offset && unacked_len as u64 <= offset
}

fn mk_send(kind: u8, stopped: bool, stop_code: u64, fin_pending: bool, max_data: u64, offset: u64, unsent: u64, unacked_len: usize) -> Send {
    Send {
        max_data,
        state: mk_state(kind).unwrap(),
        pending: mk_send_buffer(offset, unsent, unacked_len),
        priority: 0,
        fin_pending,
        connection_blocked: false,
        stop_reason: if stopped { Some(unsafe { VarInt::from_u64_unchecked(stop_code) }) } else { None },
    }
}

/// C05.b / C11.a: `Send::write` from an arbitrary half-state: ClosedStream unless Ready, the
/// peer's STOP_SENDING code once stopped, Blocked iff no stream credit, otherwise exactly
/// min(limit, max_data - offset, source length) bytes are accepted and the offset advances by that
/// much (never past max_data).
pub fn write(kind: u8, stopped: bool, stop_code: u64, max_data: u64, offset: u64, limit: u64, src_len: usize) -> u32 {
    if src_len > 65536 || !valid_send(kind, stop_code, max_data, offset, offset, 0) {
        return 0;
    }
    let mut s = mk_send(kind, stopped, stop_code, false, max_data, offset, offset, 0);
    let mut src = StaticSource { remaining: src_len };
    let r = s.write(&mut src, limit);
    let f;
    if kind != 0 {
        assert!(matches!(r, Err(WriteError::ClosedStream)));
        f = 2;
    } else if stopped {
        assert!(matches!(r, Err(WriteError::Stopped(c)) if c.into_inner() == stop_code));
        f = 4;
    } else if max_data == offset {
        assert!(matches!(r, Err(WriteError::Blocked)));
        f = 8;
    } else {
        let want = (limit.min(max_data - offset)).min(src_len as u64);
        let Ok(w) = r else { panic!("write must succeed") };
        assert!(w.bytes as u64 == want);
        assert!(s.pending.offset() == offset + want);
        assert!(s.pending.offset() <= s.max_data);
        assert!(src.remaining == src_len - want as usize);
        assert!(w.chunks == usize::from(want as usize == src_len && src_len > 0));
        f = 1 | (if want == max_data - offset && want < src_len as u64 { 16 } else { 0 }) | (if want == limit && limit < src_len as u64 { 32 } else { 0 });
    }
    if r.is_err() {
        assert!(s.pending.offset() == offset && s.max_data == max_data && src.remaining == src_len);
        assert!(s.state == mk_state(kind).unwrap());
    }
    core::mem::forget(s);
    f
}

/// C05.b / C01 with the real `ByteSlice` source (allocating path), payload <= 4 bytes: accepted
/// bytes are exactly the budgeted prefix of the source and can be read back at their offsets.
/// (The length is dispatched to concrete values so that allocation sizes are concrete.)
pub fn write_byteslice(max_data: u64, offset: u64, limit: u64, data: [u8; 4], len: usize) -> u32 {
    if len > 4 || !valid_send(0, 0, max_data, offset, offset, 0) {
        return 0;
    }
    match len {
        0 => write_byteslice_n(max_data, offset, limit, &data[..0]),
        1 => write_byteslice_n(max_data, offset, limit, &data[..1]),
        2 => write_byteslice_n(max_data, offset, limit, &data[..2]),
        3 => write_byteslice_n(max_data, offset, limit, &data[..3]),
        _ => write_byteslice_n(max_data, offset, limit, &data[..4]),
    }
}

fn write_byteslice_n(max_data: u64, offset: u64, limit: u64, data: &[u8]) -> u32 {
    let len = data.len();
    let mut s = mk_send(0, false, 0, false, max_data, offset, offset, 0);
    let mut src = ByteSlice::from_slice(data);
    let r = s.write(&mut src, limit);
    let f;
    if max_data == offset {
        assert!(matches!(r, Err(WriteError::Blocked)));
        f = 2;
    } else {
        let want = (limit.min(max_data - offset)).min(len as u64) as usize;
        let Ok(w) = r else { panic!("write must succeed") };
        assert!(w.bytes == want);
        assert!(s.pending.offset() == offset + want as u64);
        // the accepted bytes are a prefix of the source, retrievable at their stream offsets
        if want > 0 {
            let got = s.pending.get(offset..offset + want as u64);
            assert!(got.len() == want);
            let mut i = 0;
            while i < want {
                assert!(got[i] == data[i]);
                i += 1;
            }
        }
        f = 1 | (if want > 0 && want < len { 4 } else { 0 });
    }
    core::mem::forget(s);
    f
}

/// C11.a: `finish`, `reset`, `try_stop`, `increase_max_data`, `is_writable`, `is_reset` against
/// the stream-state table, from every abstract state.
pub fn half_state_ops(kind: u8, stopped: bool, stop_code: u64, fin_pending: bool, max_data: u64, offset: u64, op: u8, arg: u64) -> u32 {
    if arg >= V62 || op > 4 || !valid_send(kind, stop_code, max_data, offset, offset, 0) {
        return 0;
    }
    let mut s = mk_send(kind, stopped, stop_code, fin_pending, max_data, offset, offset, 0);
    let st0 = s.state;
    let f;
    match op {
        0 => {
            let r = s.finish();
            if stopped {
                assert!(matches!(r, Err(FinishError::Stopped(c)) if c.into_inner() == stop_code));
                assert!(s.state == st0 && s.fin_pending == fin_pending);
            } else if kind == 0 {
                assert!(r.is_ok());
                assert!(s.state == SendState::DataSent { finish_acked: false } && s.fin_pending);
                // finished streams accept no more data or finishes
                assert!(!s.is_writable());
                assert!(matches!(s.finish(), Err(FinishError::ClosedStream)));
            } else {
                assert!(matches!(r, Err(FinishError::ClosedStream)));
                assert!(s.state == st0);
            }
            f = 1;
        }
        1 => {
            s.reset();
            assert!(s.state == SendState::ResetSent && s.is_reset() && !s.is_writable());
            s.reset();
            assert!(s.state == SendState::ResetSent);
            f = 2;
        }
        2 => {
            let code = unsafe { VarInt::from_u64_unchecked(arg) };
            let first = s.try_stop(code);
            assert!(first == !stopped);
            let want = if stopped { stop_code } else { arg };
            assert!(matches!(s.stop_reason, Some(c) if c.into_inner() == want));
            assert!(!s.try_stop(unsafe { VarInt::from_u64_unchecked(arg ^ 1) }));
            assert!(matches!(s.stop_reason, Some(c) if c.into_inner() == want));
            assert!(s.state == st0);
            f = 4;
        }
        3 => {
            let unblocked = s.increase_max_data(arg);
            if arg <= max_data || kind != 0 {
                assert!(!unblocked && s.max_data == max_data);
            } else {
                assert!(s.max_data == arg);
                assert!(unblocked == (offset == max_data));
            }
            // never decreases, whatever order updates arrive in
            assert!(s.max_data >= max_data);
            f = 8;
        }
        4 => {
            assert!(s.is_writable() == (kind == 0));
            assert!(s.is_reset() == (kind == 3));
            assert!(s.offset() == offset);
            assert!(s.is_pending() == fin_pending);
            f = 16;
        }
        _ => unreachable!(),
    }
    core::mem::forget(s);
    f
}

/// C11.a: `Send::ack` reports completion exactly when the stream was finished, the FIN has been
/// acknowledged (now or earlier) and no data remains unacknowledged.  Two concrete buffer shapes
/// (nothing outstanding / 5 bytes outstanding) and an empty acknowledged range, so that only the
/// state logic - not the range-set mechanics - is encoded.
pub fn ack_completion(kind: u8, fin: bool, outstanding: bool) -> u32 {
    if kind > 3 {
        return 0;
    }
    if outstanding { ack_completion_n(kind, fin, 5) } else { ack_completion_n(kind, fin, 0) }
}

fn ack_completion_n(kind: u8, fin: bool, n: usize) -> u32 {
    let mut s = mk_send(kind, false, 0, false, V62 - 1, n as u64, n as u64, n);
    let done = s.ack(frame::StreamMeta { id: crate::StreamId(0), offsets: 0..0, fin });
    let want = match kind {
        1 => fin && n == 0,
        2 => n == 0,
        _ => false,
    };
    assert!(done == want);
    if kind == 1 && fin {
        assert!(s.state == SendState::DataSent { finish_acked: true });
    }
    if kind == 0 || kind == 3 {
        assert!(s.state == mk_state(kind).unwrap());
    }
    core::mem::forget(s);
    if done { 2 } else { 1 }
}
