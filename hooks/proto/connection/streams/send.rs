// harness bodies compiled inside quinn-proto/src/connection/streams/send.rs (feature __verif-hooks)
