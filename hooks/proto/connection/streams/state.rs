// harness bodies compiled inside quinn-proto/src/connection/streams/state.rs (feature __verif-hooks)
