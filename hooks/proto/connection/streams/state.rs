// Harness bodies for quinn-proto/src/connection/streams/state.rs (connection-level stream accounting).

use crate::TransportErrorCode;

const V62: u64 = 1 << 62;

/// StreamsState with empty stream maps and arbitrary scalar accounting.
pub struct Scalars {
    pub server: bool,
    pub next: [u64; 2],
    pub max: [u64; 2],
    pub max_remote: [u64; 2],
    pub sent_max_remote: [u64; 2],
    pub allocated_remote_count: [u64; 2],
    pub max_concurrent_remote_count: [u64; 2],
    pub max_data: u64,
    pub receive_window: u64,
    pub local_max_data: u64,
    pub sent_max_data: u64,
    pub data_sent: u64,
    pub data_recvd: u64,
    pub unacked_data: u64,
    pub send_window: u64,
    pub stream_receive_window: u64,
    pub shrink_debt: u64,
}

impl Default for Scalars {
    fn default() -> Self {
        Self {
            server: false, next: [0; 2], max: [0; 2], max_remote: [0; 2], sent_max_remote: [0; 2],
            allocated_remote_count: [0; 2], max_concurrent_remote_count: [0; 2], max_data: 0, receive_window: 0,
            local_max_data: 0, sent_max_data: 0, data_sent: 0, data_recvd: 0, unacked_data: 0, send_window: 0,
            stream_receive_window: 0, shrink_debt: 0,
        }
    }
}

pub fn mk_streams(s: &Scalars) -> StreamsState {
    StreamsState {
        side: if s.server { Side::Server } else { Side::Client },
        send: FxHashMap::default(),
        recv: FxHashMap::default(),
        free_recv: Vec::new(),
        next: s.next,
        max: s.max,
        max_remote: s.max_remote,
        sent_max_remote: s.sent_max_remote,
        allocated_remote_count: s.allocated_remote_count,
        max_concurrent_remote_count: s.max_concurrent_remote_count,
        flow_control_adjusted: false,
        next_remote: [0, 0],
        opened: [false, false],
        next_reported_remote: [0, 0],
        send_streams: 0,
        pending: PendingStreamsQueue::new(),
        events: VecDeque::new(),
        connection_blocked: Vec::new(),
        max_data: s.max_data,
        receive_window: s.receive_window,
        local_max_data: s.local_max_data,
        sent_max_data: unsafe { VarInt::from_u64_unchecked(s.sent_max_data) },
        data_sent: s.data_sent,
        data_recvd: s.data_recvd,
        unacked_data: s.unacked_data,
        send_window: s.send_window,
        stream_receive_window: s.stream_receive_window,
        initial_max_stream_data_uni: 0u32.into(),
        initial_max_stream_data_bidi_local: 0u32.into(),
        initial_max_stream_data_bidi_remote: 0u32.into(),
        receive_window_shrink_debt: s.shrink_debt,
        streams_blocked: [false, false],
    }
}

/// C05.a: connection-level send credit.  From any state with data_sent <= max_data:
/// `write_limit` never exceeds the peer's remaining connection credit nor the local
/// unacknowledged-data bound (no underflow), and `received_max_data` is monotone: a stale,
/// duplicated or reordered MAX_DATA never lowers the limit, a larger one raises it exactly.
pub fn write_limit_and_max_data(max_data: u64, data_sent: u64, unacked: u64, send_window: u64, update: u64) -> u32 {
    if max_data >= V62 || data_sent > max_data || update >= V62 {
        return 0;
    }
    let mut st = mk_streams(&Scalars { max_data, data_sent, unacked_data: unacked, send_window, ..Default::default() });
    let wl = st.write_limit();
    assert!(wl <= max_data - data_sent);
    assert!(wl <= send_window.saturating_sub(unacked));
    assert!(wl == (max_data - data_sent).min(send_window.saturating_sub(unacked)));
    st.received_max_data(unsafe { VarInt::from_u64_unchecked(update) });
    assert!(st.max_data == max_data.max(update));
    assert!(st.max_data >= max_data && st.data_sent <= st.max_data);
    let wl2 = st.write_limit();
    assert!(wl2 >= wl);
    let f = 1 | (if update < max_data { 2 } else { 0 }) | (if wl == 0 { 4 } else { 0 }) | (if unacked > send_window { 8 } else { 0 });
    core::mem::forget(st);
    f
}

/// C05.a / C03.h: `received_max_streams` (MAX_STREAMS): values above 2^60 are a
/// FRAME_ENCODING_ERROR, otherwise the limit is monotone and `streams_blocked` is cleared only by
/// a real increase.
pub fn received_max_streams(uni: bool, cur: u64, count: u64, blocked: bool) -> u32 {
    if cur > MAX_STREAM_COUNT {
        return 0;
    }
    let dir = if uni { Dir::Uni } else { Dir::Bi };
    let mut st = mk_streams(&Scalars::default());
    st.max[dir as usize] = cur;
    st.streams_blocked[dir as usize] = blocked;
    let r = st.received_max_streams(dir, count);
    let f;
    if count > MAX_STREAM_COUNT {
        assert!(matches!(&r, Err(x) if x.code == TransportErrorCode::FRAME_ENCODING_ERROR));
        assert!(st.max[dir as usize] == cur);
        f = 2;
    } else {
        assert!(r.is_ok());
        assert!(st.max[dir as usize] == cur.max(count));
        assert!(st.streams_blocked[dir as usize] == (blocked && count <= cur));
        assert!(st.events.len() == usize::from(count > cur));
        f = if count > cur { 1 } else { 4 };
    }
    assert!(st.max[1 - dir as usize] == 0);
    core::mem::forget(st);
    core::mem::forget(r);
    f
}

/// C06.b: `validate_receive_id`: a peer may use exactly the remotely-initiated indices below the
/// advertised stream-count limit (STREAM_LIMIT_ERROR otherwise), never our send-only streams and
/// never a bidirectional stream of ours that we have not opened (STREAM_STATE_ERROR).
pub fn validate_receive_id(server: bool, raw_id: u64, next_bi: u64, max_remote_bi: u64, max_remote_uni: u64) -> u32 {
    if raw_id >= V62 {
        return 0;
    }
    let id = crate::StreamId(raw_id);
    let mut st = mk_streams(&Scalars { server, next: [next_bi, 0], max_remote: [max_remote_bi, max_remote_uni], ..Default::default() });
    let r = st.validate_receive_id(id);
    let local = (raw_id & 1 == 1) == server;
    let uni = raw_id & 2 != 0;
    let index = raw_id >> 2;
    let f;
    if local {
        if uni || index >= next_bi {
            assert!(matches!(&r, Err(x) if x.code == TransportErrorCode::STREAM_STATE_ERROR));
            f = 2;
        } else {
            assert!(r.is_ok());
            f = 1;
        }
    } else {
        let limit = if uni { max_remote_uni } else { max_remote_bi };
        if index >= limit {
            assert!(matches!(&r, Err(x) if x.code == TransportErrorCode::STREAM_LIMIT_ERROR));
            f = 4;
        } else {
            assert!(r.is_ok());
            f = 8;
        }
    }
    core::mem::forget(st);
    core::mem::forget(r);
    f
}

/// C06.c: connection-level credit return.  `add_read_credits` grows `local_max_data` by exactly
/// the credits supplied minus outstanding shrink debt (saturating), debt only shrinks, and a
/// MAX_DATA update is requested iff at least receive_window/8 of unannounced credit exists and
/// the limit is still representable.
pub fn add_read_credits(local_max: u64, sent_max: u64, window: u64, debt: u64, credits: u64) -> u32 {
    if sent_max >= V62 || sent_max > local_max || window >= V62 {
        return 0;
    }
    let mut st = mk_streams(&Scalars { local_max_data: local_max, sent_max_data: sent_max, receive_window: window, shrink_debt: debt, ..Default::default() });
    let tx = st.add_read_credits(credits);
    let net = credits.saturating_sub(debt);
    assert!(st.local_max_data == local_max.saturating_add(net));
    assert!(st.receive_window_shrink_debt == debt.saturating_sub(credits));
    assert!(st.local_max_data >= local_max);
    assert!(st.local_max_data - local_max <= credits);
    let want = st.local_max_data < V62 && st.local_max_data - sent_max >= window / 8;
    assert!(tx.0 == want);
    let f = (if want { 2 } else { 1 }) | (if debt > 0 && credits > debt { 4 } else { 0 }) | (if st.local_max_data >= V62 { 8 } else { 0 });
    core::mem::forget(st);
    f
}

/// C06.c: `set_receive_window`: expanding raises the limit by the difference at once, shrinking
/// only records debt (the advertised limit is never taken back).
pub fn set_receive_window(local_max: u64, window: u64, debt: u64, new_window: u64) -> u32 {
    if window >= V62 || new_window >= V62 {
        return 0;
    }
    let mut st = mk_streams(&Scalars { local_max_data: local_max, receive_window: window, shrink_debt: debt, ..Default::default() });
    let expanded = st.set_receive_window(unsafe { VarInt::from_u64_unchecked(new_window) });
    assert!(expanded == (new_window > window));
    assert!(st.receive_window == new_window);
    assert!(st.local_max_data >= local_max);
    if new_window > window {
        assert!(st.local_max_data == local_max.saturating_add(new_window - window));
        assert!(st.receive_window_shrink_debt == debt);
    } else {
        assert!(st.local_max_data == local_max);
        assert!(st.receive_window_shrink_debt == debt.saturating_add(window - new_window));
    }
    core::mem::forget(st);
    if expanded { 1 } else { 2 }
}

/// C06/C02: `queue_max_stream_id`: MAX_STREAMS is queued exactly when more than 1/8 of the
/// concurrency window of new stream credit is unannounced.
pub fn queue_max_stream_id(max_remote_bi: u64, sent_bi: u64, conc_bi: u64, max_remote_uni: u64, sent_uni: u64, conc_uni: u64) -> u32 {
    if sent_bi > max_remote_bi || sent_uni > max_remote_uni {
        return 0;
    }
    let mut st = mk_streams(&Scalars {
        max_remote: [max_remote_bi, max_remote_uni], sent_max_remote: [sent_bi, sent_uni],
        max_concurrent_remote_count: [conc_bi, conc_uni], ..Default::default()
    });
    let mut pending = Retransmits::default();
    let q = st.queue_max_stream_id(&mut pending);
    let wb = max_remote_bi - sent_bi > conc_bi / 8;
    let wu = max_remote_uni - sent_uni > conc_uni / 8;
    assert!(pending.max_stream_id[Dir::Bi as usize] == wb);
    assert!(pending.max_stream_id[Dir::Uni as usize] == wu);
    assert!(q == (wb || wu));
    core::mem::forget(st);
    core::mem::forget(pending);
    1 | (if wb { 2 } else { 0 }) | (if wu { 4 } else { 0 })
}

/// `max_send_data` picks the peer's transport parameter that applies to the stream's kind.
pub fn max_send_data(server: bool, raw_id: u64, uni: u64, bidi_local: u64, bidi_remote: u64) -> u32 {
    if raw_id >= V62 || uni >= V62 || bidi_local >= V62 || bidi_remote >= V62 {
        return 0;
    }
    let mut st = mk_streams(&Scalars { server, ..Default::default() });
    st.initial_max_stream_data_uni = unsafe { VarInt::from_u64_unchecked(uni) };
    st.initial_max_stream_data_bidi_local = unsafe { VarInt::from_u64_unchecked(bidi_local) };
    st.initial_max_stream_data_bidi_remote = unsafe { VarInt::from_u64_unchecked(bidi_remote) };
    let got = st.max_send_data(crate::StreamId(raw_id)).into_inner();
    let local = (raw_id & 1 == 1) == server;
    let want = if raw_id & 2 != 0 { uni } else if local { bidi_remote } else { bidi_local };
    assert!(got == want);
    assert!(st.is_local_unopened(crate::StreamId(raw_id)) == ((raw_id >> 2) >= st.next[((raw_id >> 1) & 1) as usize]));
    core::mem::forget(st);
    1
}

/// Native replay body for the E2 query `e2_stream_freed` (never run under Kani: it populates the
/// real hash maps).  A remotely-initiated stream gives its concurrency slot back exactly when
/// the half being freed was the last one: unidirectional, or the other half's map entry is gone.
pub fn stream_freed_native(server: bool, raw_id: u64, half_recv: bool, other_present: bool) -> u32 {
    if raw_id >= V62 {
        return 0;
    }
    let id = crate::StreamId(raw_id);
    let mut st = mk_streams(&Scalars { server, allocated_remote_count: [5, 5], max_concurrent_remote_count: [0, 0], max_remote: [9, 9], ..Default::default() });
    st.send_streams = 3;
    let half = if half_recv { StreamHalf::Recv } else { StreamHalf::Send };
    if other_present {
        // the other half of the stream is still alive
        if half_recv {
            st.send.insert(id, None);
        } else {
            st.recv.insert(id, None);
        }
    }
    st.stream_freed(id, half);
    let remote = (raw_id & 1 == 1) != server;
    let uni = raw_id & 2 != 0;
    let dir = if uni { 1 } else { 0 };
    let released = remote && (uni || !other_present);
    assert!(st.allocated_remote_count[dir] == if released { 4 } else { 5 }, "concurrency slot released at the wrong time");
    assert!(st.allocated_remote_count[1 - dir] == 5);
    assert!(st.send_streams == if half_recv { 3 } else { 2 });
    1
}

/// (connection-level send limit, bidirectional stream limit) for native replay bodies outside this module
pub fn peek_send_limits(s: &StreamsState) -> (u64, u64) {
    (s.max_data, s.max[Dir::Bi as usize])
}

/// connection-level bytes received, for native replay bodies outside this module
pub fn peek_data_recvd(s: &StreamsState) -> u64 {
    s.data_recvd
}

/// C05 / C17 ("including 0-RTT with remembered parameters" / "limits restart from the newly negotiated
/// values"): a client that had remembered limits in force (and may have sent early data) learns that
/// 0-RTT was rejected and then receives the server's fresh transport parameters.  Whatever the
/// remembered values and the early activity were, afterwards the connection-level send limit, the
/// stream-count limits and the early-data accounting are those of a fresh connection.
/// No stream is open (the stream tables are hash maps): every value is symbolic, the tables are empty.
pub fn zero_rtt_rejected_restart(remembered_max_data: u64, early_sent: u64, early_unacked: u64, old_bi: u64, old_uni: u64, new_max_data: u64, new_bi: u64, new_uni: u64) -> u32 {
    if remembered_max_data >= V62 || new_max_data >= V62 || old_bi >= V62 || old_uni >= V62 || new_bi >= V62 || new_uni >= V62 {
        return 0;
    }
    if early_sent > remembered_max_data || early_unacked > early_sent {
        return 0;
    }
    let mut st = mk_streams(&Scalars { max: [old_bi, old_uni], max_data: remembered_max_data, data_sent: early_sent, unacked_data: early_unacked, send_window: 1 << 20, ..Default::default() });
    st.zero_rtt_rejected();
    let mut params = TransportParameters::default();
    params.initial_max_data = unsafe { VarInt::from_u64_unchecked(new_max_data) };
    params.initial_max_streams_bidi = unsafe { VarInt::from_u64_unchecked(new_bi) };
    params.initial_max_streams_uni = unsafe { VarInt::from_u64_unchecked(new_uni) };
    st.set_params(&params);
    // the server's fresh limits are THE limits - also when they are lower than the remembered ones
    assert!(st.max_data == new_max_data);
    assert!(st.max[Dir::Bi as usize] == new_bi && st.max[Dir::Uni as usize] == new_uni);
    // nothing of the early flight is still accounted
    assert!(st.data_sent == 0);
    assert!(st.unacked_data == 0);
    let w = if new_max_data < remembered_max_data { 1 } else { 2 };
    core::mem::forget(st);
    w
}

/// bytes the peer may still send at connection level (local_max_data - data_recvd)
pub fn peek_credit(s: &StreamsState) -> u64 {
    s.local_max_data - s.data_recvd
}
