// harness bodies compiled inside quinn-proto/src/connection/pacing.rs (feature __verif-hooks)
