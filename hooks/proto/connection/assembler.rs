// Harness bodies for quinn-proto/src/connection/assembler.rs.

/// An empty ordered-mode Assembler whose read cursor is arbitrary.
pub fn mk_assembler(bytes_read: u64) -> Assembler {
    Assembler {
        state: State::Ordered,
        data: BinaryHeap::new(),
        buffered: 0,
        allocated: 0,
        bytes_read,
        end: bytes_read,
    }
}
