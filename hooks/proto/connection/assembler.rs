// harness bodies compiled inside quinn-proto/src/connection/assembler.rs (feature __verif-hooks)
