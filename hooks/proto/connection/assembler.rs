// Harness bodies for quinn-proto/src/connection/assembler.rs.

/// An empty ordered-mode Assembler whose read cursor is arbitrary.
pub fn mk_assembler(bytes_read: u64) -> Assembler {
    Assembler {
        state: State::Ordered,
        data: BinaryHeap::new(),
        buffered: 0,
        allocated: 0,
        bytes_read,
        end: bytes_read,
    }
}

const V62: u64 = 1 << 62;
static DEFRAG_DATA: [u8; 8] = [0x10, 0x21, 0x32, 0x43, 0x54, 0x65, 0x76, 0x87];

/// C01 (unordered reads yield non-overlapping chunks with the written contents): one iteration of the
/// first loop of `Assembler::defragment` - `chunk.try_mark_defragment(frontier)` followed by
/// `frontier' = chunk.offset + chunk.bytes.len()` - from an arbitrary buffered chunk of <= 8 bytes and an
/// arbitrary frontier (end of the data kept so far).
pub fn defragment_step(offset0: u64, len: usize, alloc: usize, defragmented: bool, frontier: u64) -> u32 {
    if len == 0 || len > 8 || alloc < len || alloc > (1 << 20) || offset0 >= V62 || frontier >= V62 {
        return 0;
    }
    let mut b = Buffer { offset: offset0, bytes: Bytes::from_static(&DEFRAG_DATA).slice(..len), allocation_size: alloc, defragmented };
    b.try_mark_defragment(frontier);
    let n = b.bytes.len();
    let end0 = offset0 + len as u64;
    // the frontier never moves backwards (data below it has already been kept from an earlier chunk)
    assert!(b.offset + n as u64 >= frontier);
    // documented: allocation_size is never less than bytes.len()
    assert!(b.allocation_size >= n);
    let mut w = 0;
    if n == 0 {
        // everything was below the frontier
        assert!(end0 <= frontier);
        w |= 1;
    } else {
        // nothing below the frontier is kept, nothing at or above it is dropped, bytes keep their stream position
        assert!(b.offset >= frontier && b.offset >= offset0);
        assert!(b.offset == frontier.max(offset0));
        assert!(b.offset + n as u64 == end0);
        let skip = (b.offset - offset0) as usize;
        assert!(b.bytes[0] == DEFRAG_DATA[skip]);
        assert!(b.bytes[n - 1] == DEFRAG_DATA[len - 1]);
        w |= if skip > 0 { 2 } else { 4 };
        if b.defragmented {
            assert!(b.allocation_size == n);
        }
    }
    core::mem::forget(b);
    w
}

/// C01 (no byte delivered twice): switching an assembler with nothing buffered to unordered mode
/// must remember the prefix the application has already consumed - a late duplicate of those bytes
/// is otherwise delivered a second time.  Every read cursor.
pub fn ensure_ordering_empty(bytes_read: u64) -> u32 {
    if bytes_read >= V62 {
        return 0;
    }
    let mut a = mk_assembler(bytes_read);
    let r = a.ensure_ordering(false);
    assert!(r.is_ok());
    let w = {
        let State::Unordered { ref recvd } = a.state else { panic!("assembler did not enter unordered mode") };
        match recvd.peek_min() {
            Some(r) => {
                assert!(r.start == 0 && r.end == bytes_read && bytes_read > 0);
                1
            }
            None => {
                assert!(bytes_read == 0);
                2
            }
        }
    };
    core::mem::forget(a);
    w
}

/// Native demonstration (C01, "no byte is delivered twice ... unordered reads yield non-overlapping
/// chunks"): bytes 0..a arrive, then an overlapping retransmission covering o..o+b; the application
/// reads in order once (consuming the first chunk) and then switches to unordered reads.  No stream
/// offset may be handed out twice.
pub fn ordered_then_unordered_native(a: u8, o: u8, b: u8) -> u32 {
    static DATA: [u8; 512] = [7; 512];
    let (a, o, b) = (a as usize, o as usize, b as usize);
    if a == 0 || b == 0 || o > a {
        return 0;
    }
    let mut asm = Assembler::new();
    asm.insert(0, Bytes::from_static(&DATA[..a]), a).unwrap();
    asm.insert(o as u64, Bytes::from_static(&DATA[..b]), b).unwrap();
    let mut seen = vec![0u8; a.max(o + b)];
    asm.ensure_ordering(true).unwrap();
    if let Some(c) = asm.read(usize::MAX, true) {
        for i in 0..c.bytes.len() {
            seen[c.offset as usize + i] += 1;
        }
    }
    asm.ensure_ordering(false).unwrap();
    while let Some(c) = asm.read(usize::MAX, false) {
        for i in 0..c.bytes.len() {
            seen[c.offset as usize + i] += 1;
        }
    }
    for (off, n) in seen.iter().enumerate() {
        assert!(*n <= 1, "stream offset {} was delivered to the application {} times", off, n);
    }
    1
}

/// Native replay body for the E2 query `e2_assembler_insert_no_empty_range` (C01 / C03), and demonstration for
/// finding 20, on a real `Assembler` read unordered: a zero-length chunk arrives at offset 5 (a peer may send
/// an empty STREAM frame anywhere), then bytes 7..9 arrive and are read, then a retransmission 3..10 that
/// overlaps them.  Every stream offset may be handed to the application once.
pub fn empty_frame_native(_x: u8) -> u32 {
    let mut a = Assembler::new();
    a.ensure_ordering(false).unwrap();
    a.insert(5, Bytes::new(), 0).unwrap();
    a.insert(7, Bytes::from_static(b"hi"), 2).unwrap();
    let mut seen = [0u8; 16];
    let mut drain = |a: &mut Assembler| {
        while let Some(c) = a.read(usize::MAX, false) {
            for k in 0..c.bytes.len() {
                let off = c.offset as usize + k;
                seen[off] += 1;
                assert!(seen[off] == 1, "stream offset {} was delivered {} times", off, seen[off]);
            }
        }
    };
    drain(&mut a);
    a.insert(3, Bytes::from_static(b"defghij"), 7).unwrap();
    drain(&mut a);
    assert!(seen[3..10].iter().all(|&n| n == 1), "bytes 3..10 must all have been delivered");
    1
}

/// Native replay body for the E2 slice query `e2_assembler_insert_bounded_memory_slice` (C06): the application does
/// not read; the peer sends a 99 kB range once and then retransmits it `rounds` more times in well-filled 1000-byte
/// frames (no new flow-control credit is needed for that).  What the assembler holds stays within a constant factor
/// of the unread span.
pub fn duplicates_bounded_native(rounds: u8) -> u32 {
    let mut a = Assembler::new();
    a.ensure_ordering(true).unwrap();
    let span = 99_000u64;
    for _ in 0..=(rounds as u32) {
        let mut off = 0u64;
        while off < span {
            a.insert(off, Bytes::from(vec![7u8; 1000]), 1000).unwrap();
            off += 1000;
            let bound = 32768 + span as usize + span as usize * 3 / 2;
            assert!(a.allocated <= bound, "{} bytes accounted to the reassembly buffer for {} unread bytes", a.allocated, span);
        }
    }
    1
}
