// Harness bodies for quinn-proto/src/connection/datagrams.rs (DatagramState).

use crate::TransportErrorCode;

static ZEROS: [u8; 256] = [0; 256];
static ONES: [u8; 256] = [1; 256];

fn dg(len: u8, which: bool) -> Datagram {
    Datagram { data: Bytes::from_static(if which { &ONES[..len as usize] } else { &ZEROS[..len as usize] }) }
}

fn mk_incoming(k: u8, l0: u8, l1: u8) -> DatagramState {
    let mut s = DatagramState::default();
    // pre-sized ring: the growth path of VecDeque (realloc + wrap-around copy) is std code that
    // the SAT back end cannot digest and is not the subject of these obligations
    s.incoming = VecDeque::with_capacity(4);
    if k >= 1 {
        s.incoming.push_back(dg(l0, false));
        s.recv_buffered += l0 as usize;
    }
    if k >= 2 {
        s.incoming.push_back(dg(l1, true));
        s.recv_buffered += l1 as usize;
    }
    s
}

// NOTE: a Kani obligation for the element bound of the receive queue (`received_count_bound`) found the defect
// (finding 19) but the repaired function - two drop loops over a VecDeque - makes CBMC's solver run out of memory even
// with the queue shape and window concrete; the bound is decided by the E2 query e2_dgram_received_bounds instead.

/// Native replay body for the E2 query `e2_dgram_received_bounds` (C03 / C06 / C16), and demonstration for
/// finding 19: `n` datagrams WITHOUT payload arrive on a real `DatagramState` whose receive window is `window`
/// bytes and whose application reads nothing.  They take no bytes - the queue must stay bounded all the same
/// (window + 1 elements), dropping the oldest.
pub fn received_count_native(window: u16, n: u16) -> u32 {
    let mut s = DatagramState::default();
    let w = Some(window as usize);
    for i in 0..n {
        let r = s.received(Datagram { data: Bytes::new() }, &w);
        assert!(r.is_ok());
        assert!(s.incoming.len() <= window as usize + 1, "{} empty datagrams queued after {} arrivals with a receive window of {} bytes: the queue grows without bound", s.incoming.len(), i + 1, window);
        assert!(s.recv_buffered <= window as usize);
    }
    // payload-carrying datagrams of mixed sizes are bounded by bytes, oldest dropped first, and the byte count is
    // exactly what is queued
    if window >= 20 {
        let small = (window / 10).min(25) as u8;
        let big = (window - window / 20).min(255) as u8;
        for len in [small, small, small, small, small, small, small, small, small, small, big, small, big] {
            assert!(s.received(dg(len, true), &w).is_ok());
            let queued: usize = s.incoming.iter().map(|d| d.data.len()).sum();
            assert!(s.recv_buffered == queued, "{} bytes accounted, {} bytes queued", s.recv_buffered, queued);
            assert!(s.recv_buffered <= window as usize, "{} bytes buffered with a receive window of {}", s.recv_buffered, window);
            assert!(s.incoming.len() <= window as usize + 1);
            assert!(s.incoming.back().map(|d| d.data.len()) == Some(len as usize), "the newest datagram must be kept");
        }
    }
    1
}

/// C16.a: `recv` hands out each queued datagram exactly once, oldest first, byte-identical.
pub fn recv_in_order(k: u8, l0: u8, l1: u8) -> u32 {
    // dispatch so that the queue shape is concrete in each branch
    match k {
        0 => recv_in_order_k(0, l0, l1),
        1 => recv_in_order_k(1, l0, l1),
        2 => recv_in_order_k(2, l0, l1),
        _ => 0,
    }
}

#[inline(always)]
fn recv_in_order_k(k: u8, l0: u8, l1: u8) -> u32 {
    let mut s = mk_incoming(k, l0, l1);
    let total = s.recv_buffered;
    let mut got = 0usize;
    let a = s.recv();
    if k >= 1 {
        let a = a.unwrap();
        assert!(a.len() == l0 as usize && a.as_ptr() == ZEROS.as_ptr());
        got += a.len();
        core::mem::forget(a);
    } else {
        assert!(a.is_none());
    }
    let b = s.recv();
    if k >= 2 {
        let b = b.unwrap();
        assert!(b.len() == l1 as usize && b.as_ptr() == ONES.as_ptr());
        got += b.len();
        core::mem::forget(b);
    } else {
        assert!(b.is_none());
    }
    assert!(s.recv().is_none());
    assert!(got == total && s.recv_buffered == 0 && s.incoming.is_empty());
    core::mem::forget(s);
    1 << k
}

fn mk_outgoing(k: u8, l0: u8, l1: u8, extra_total: usize) -> DatagramState {
    let mut s = DatagramState::default();
    s.outgoing = VecDeque::with_capacity(4);
    if k >= 1 {
        s.outgoing.push_back(dg(l0, false));
        s.outgoing_total += l0 as usize;
    }
    if k >= 2 {
        s.outgoing.push_back(dg(l1, true));
        s.outgoing_total += l1 as usize;
    }
    s.outgoing_total += extra_total;
    s
}

/// C16.a: send-buffer accounting: `has_send_buffer_space` is exactly total + len <= bound (with
/// the usize overflow guard); `make_space_for` drops oldest first, only while needed, keeps the
/// byte total equal to the sum of what stays queued, and afterwards there is room whenever the
/// datagram fits the bound at all.
pub fn send_space(k: u8, l0: u8, l1: u8, len: usize, bound: usize) -> u32 {
    // dispatch so that the queue shape is concrete in each branch
    match k {
        0 => send_space_k(0, l0, l1, len, bound),
        1 => send_space_k(1, l0, l1, len, bound),
        // (two queued datagrams: the queue shape after a data-dependent drop becomes symbolic and
        //  the VecDeque index arithmetic no longer fits the SAT back end's memory - outside the claim)
        2 if false => send_space_k(2, l0, l1, len, bound),
        _ => 0,
    }
}

#[inline(always)]
fn send_space_k(k: u8, l0: u8, l1: u8, len: usize, bound: usize) -> u32 {
    let mut s = mk_outgoing(k, l0, l1, 0);
    let total = s.outgoing_total;
    let has = s.has_send_buffer_space(len, bound);
    assert!(has == (total as u128 + len as u128 <= bound as u128));
    s.make_space_for(len, bound);
    let fits = |t: usize| t as u128 + len as u128 <= bound as u128;
    let mut drops = 0usize;
    let mut rem = total;
    if k >= 1 && !fits(rem) {
        rem -= l0 as usize;
        drops = 1;
    }
    if k >= 2 && !fits(rem) {
        rem -= l1 as usize;
        drops = 2;
    }
    assert!(s.outgoing.len() == k as usize - drops);
    assert!(s.outgoing_total == rem);
    if len <= bound {
        assert!(s.has_send_buffer_space(len, bound));
    }
    if k == 2 && drops == 1 {
        assert!(s.outgoing[0].data.as_ptr() == ONES.as_ptr());
    }
    core::mem::forget(s);
    1 | (if drops > 0 { 2 } else { 0 }) | (if has { 4 } else { 0 })
}

/// The overflow guard: a corrupted / huge running total never wraps into "there is space".
pub fn send_space_overflow_guard(total: usize, len: usize, bound: usize) -> u32 {
    let s = mk_outgoing(0, 0, 0, total);
    let has = s.has_send_buffer_space(len, bound);
    assert!(has == (total as u128 + len as u128 <= bound as u128));
    core::mem::forget(s);
    if has { 1 } else { 2 }
}

/// C16.a / C13: `drop_oversized` removes exactly the queued datagrams whose payload is not below
/// the limit and keeps the byte total consistent.
pub fn drop_oversized(k: u8, l0: u8, l1: u8, max_payload: usize) -> u32 {
    // dispatch so that the queue shape is concrete in each branch
    match k {
        0 => drop_oversized_k(0, l0, l1, max_payload),
        1 => drop_oversized_k(1, l0, l1, max_payload),
        // (two queued datagrams: the queue shape after a data-dependent drop becomes symbolic and
        //  the VecDeque index arithmetic no longer fits the SAT back end's memory - outside the claim)
        2 if false => drop_oversized_k(2, l0, l1, max_payload),
        _ => 0,
    }
}

#[inline(always)]
fn drop_oversized_k(k: u8, l0: u8, l1: u8, max_payload: usize) -> u32 {
    let mut s = mk_outgoing(k, l0, l1, 0);
    let d = s.drop_oversized(max_payload);
    let keep0 = k >= 1 && (l0 as usize) < max_payload;
    let keep1 = k >= 2 && (l1 as usize) < max_payload;
    assert!(s.outgoing.len() == keep0 as usize + keep1 as usize);
    assert!(s.outgoing_total == (if keep0 { l0 as usize } else { 0 }) + (if keep1 { l1 as usize } else { 0 }));
    assert!(d == ((k >= 1 && !keep0) || (k >= 2 && !keep1)));
    if keep0 && keep1 {
        assert!(s.outgoing[0].data.as_ptr() == ZEROS.as_ptr() && s.outgoing[1].data.as_ptr() == ONES.as_ptr());
    }
    core::mem::forget(s);
    1 | (if d { 2 } else { 0 })
}

// NOTE: `drop_oversized` with two queued datagrams of which one is oversized (VecDeque::retain over a
// data-dependent queue shape) ran CBMC out of its 10 GB budget after 90 s even with the order fixed per
// branch - outside the claim (seed C13-4 is therefore not detected).

// NOTE: `DatagramState::write` under CBMC (VecDeque pop/push + Vec::extend_from_slice with symbolic lengths)
// ran out of the 10 GB budget after 90 s; it is decided by the E2 query `e2_dgram_write` instead.

/// Native replay body of E2 query `e2_dgram_write` (C16 / C13, "never oversized"): one queued datagram of
/// `l0` bytes, `used` bytes already in the packet buffer, size limit `max_size`: a frame is written exactly
/// when the WHOLE frame (type byte, length field, payload) fits under the limit; otherwise nothing changes.
pub fn write_native(l0: u8, used: u8, max_size: u16) -> u32 {
    let (used, max_size) = (used as usize, max_size as usize);
    let mut s = mk_outgoing(1, l0, 0, 0);
    let mut buf: Vec<u8> = vec![0xee; used];
    let frame = 1 + (if l0 < 64 { 1 } else { 2 }) + l0 as usize;
    let wrote = s.write(&mut buf, max_size);
    assert!(buf.len() <= max_size || buf.len() == used, "DATAGRAM frame written past the size limit: {} > {}", buf.len(), max_size);
    assert!(wrote == (used + frame <= max_size), "written={} although the frame needs {} of {} bytes", wrote, used + frame, max_size);
    if wrote {
        assert!(buf.len() == used + frame);
        assert!(s.outgoing.is_empty() && s.outgoing_total == 0);
        1
    } else {
        assert!(buf.len() == used);
        assert!(s.outgoing.len() == 1 && s.outgoing_total == l0 as usize);
        2
    }
}

/// Native replay body of E2 queries `e2_drop_oversized_whole_queue` / `e2_drop_oversized_predicate`
/// (C16 / C13): two queued datagrams, one of 10 bytes and one of 100, limit 50: the 100-byte one goes
/// whether it is at the head of the queue or behind the small one; the byte total follows.
pub fn drop_oversized_native(first_big: bool) -> u32 {
    let mut s = if first_big { mk_outgoing(2, 100, 10, 0) } else { mk_outgoing(2, 10, 100, 0) };
    let d = s.drop_oversized(50);
    assert!(d, "an oversized datagram was queued but nothing was reported dropped");
    assert!(s.outgoing.len() == 1 && s.outgoing[0].data.len() == 10, "an oversized datagram survived the purge (queue: {:?})", s.outgoing.iter().map(|x| x.data.len()).collect::<Vec<_>>());
    assert!(s.outgoing_total == 10);
    // exactly at the limit is dropped too (the limit is exclusive), one below is kept
    let mut t = mk_outgoing(2, 49, 50, 0);
    assert!(t.drop_oversized(50) && t.outgoing.len() == 1 && t.outgoing[0].data.len() == 49 && t.outgoing_total == 49);
    1
}
