// harness bodies compiled inside quinn-proto/src/connection/datagrams.rs (feature __verif-hooks)
