pub use super::transport::verif as transport;
