// harness bodies compiled inside quinn-proto/src/config/transport.rs (feature __verif-hooks)
