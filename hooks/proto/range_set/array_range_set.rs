// harness bodies compiled inside quinn-proto/src/range_set/array_range_set.rs (feature __verif-hooks)
