pub use super::array_range_set::verif as array;
pub use super::btree_range_set::verif as btree;
