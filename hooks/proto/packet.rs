// harness bodies compiled inside quinn-proto/src/packet.rs (feature __verif-hooks)
