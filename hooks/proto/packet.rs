// Harness bodies for quinn-proto/src/packet.rs.

const V62: u64 = 1 << 62;

/// C10 / C01.b: a truncated packet number decodes to the number that was sent, for every sender
/// state (largest_acked <= n, 2*(n - largest_acked) < 2^32) and every receiver state inside the
/// RFC 9000 App. A window of the chosen encoding (expected - hwin < n <= expected + hwin), going
/// through the wire path new -> encode -> decode_len/decode -> expand.
pub fn pn_roundtrip(n: u64, largest_acked: u64, expected: u64) -> u32 {
    if n >= V62 || expected > V62 || largest_acked > n {
        return 0;
    }
    let range = (n - largest_acked) * 2;
    if range >= 1 << 32 {
        return 0;
    }
    let pn = PacketNumber::new(n, largest_acked);
    // minimal length that covers twice the unacknowledged range
    let want_len = if range < 1 << 8 { 1 } else if range < 1 << 16 { 2 } else if range < 1 << 24 { 3 } else { 4 };
    assert!(pn.len() == want_len);
    let hwin: u64 = 1 << (8 * want_len - 1);
    // receiver state inside the window
    if !(n <= expected + hwin && n + hwin > expected) {
        return 0;
    }
    let mut buf = [0u8; 4];
    let mut w = &mut buf[..];
    pn.encode(&mut w);
    let written = 4 - w.len();
    assert!(written == pn.len());
    // first header byte carries the length in its two low bits
    let tag = pn.tag();
    assert!(PacketNumber::decode_len(tag) == written);
    assert!(PacketNumber::decode_len(tag | 0xfc) == written);
    // the wire bytes are the big-endian low bytes of n
    let mut i = 0;
    while i < written {
        assert!(buf[i] == (n >> (8 * (written - 1 - i))) as u8);
        i += 1;
    }
    let mut r = &buf[..written];
    let Ok(dec) = PacketNumber::decode(written, &mut r) else {
        panic!("decode failed on a full-length buffer");
    };
    assert!(r.is_empty());
    assert!(dec.len() == written);
    let got = dec.expand(expected);
    assert!(got == n);
    1 | (1 << want_len) | (if n < expected { 32 } else { 0 }) | (if n > expected { 64 } else { 0 })
}

/// C03/C10: `PacketNumber::decode` + `expand` are total on arbitrary wire bytes and arbitrary
/// receiver state (expected <= 2^62): no overflow, and the result is congruent to the wire value
/// modulo 2^(8 len).
pub fn pn_decode_expand_total(bytes: [u8; 4], tag: u8, expected: u64) -> u32 {
    if expected > V62 {
        return 0;
    }
    let len = PacketNumber::decode_len(tag);
    assert!(len >= 1 && len <= 4);
    let mut r = &bytes[..len];
    let Ok(pn) = PacketNumber::decode(len, &mut r) else {
        panic!("decode failed on a full-length buffer");
    };
    assert!(pn.len() == len);
    let got = pn.expand(expected);
    let win: u64 = 1 << (8 * len);
    let mut trunc: u64 = 0;
    let mut i = 0;
    while i < len {
        trunc = (trunc << 8) | bytes[i] as u64;
        i += 1;
    }
    assert!(got & (win - 1) == trunc);
    // and lies within one window of the expectation
    assert!(got <= expected + win / 2 || got < win);
    assert!(got + win / 2 > expected || got + win > V62 + win / 2);
    // a short buffer is an error (1,2,4-byte forms) - never a panic
    if len != 3 && len > 1 {
        let mut r = &bytes[..len - 1];
        assert!(PacketNumber::decode(len, &mut r).is_err());
    }
    1 << (len - 1)
}

/// `SpaceId`/long-header type byte round-trip (first-byte packing).
pub fn long_type_roundtrip(b: u8) -> u32 {
    if b & LONG_HEADER_FORM == 0 {
        return 0;
    }
    let Ok(ty) = LongHeaderType::from_byte(b) else { panic!("from_byte is total") };
    let back = u8::from(ty);
    assert!(back & 0x30 == b & 0x30);
    assert!(back & LONG_HEADER_FORM != 0 && back & FIXED_BIT != 0);
    assert!(back & 0x0f == 0);
    assert!(matches!(LongHeaderType::from_byte(back), Ok(t) if t == ty));
    match ty {
        LongHeaderType::Initial => 1,
        LongHeaderType::Retry => 2,
        LongHeaderType::Standard(LongType::Handshake) => 4,
        LongHeaderType::Standard(LongType::ZeroRtt) => 8,
    }
}

/// Native replay body of E2 query `e2_header_decode_advance` (C03 / C10): `PartialDecode::new` on long
/// headers whose token / length fields claim more bytes than the datagram holds returns an error
/// (or a header) and never panics.  Loops: native only.
pub fn header_decode_bounds_native(first: u8) -> u32 {
    let parser = crate::FixedLengthConnectionIdParser::new(8);
    let mut n = 0;
    for claimed in 0..64u8 {
        for tail in 0..12usize {
            let mut v = vec![first, 0, 0, 0, 1, 8, 1, 2, 3, 4, 5, 6, 7, 8, 0, claimed];
            v.extend(core::iter::repeat(0x11).take(tail));
            let bytes = BytesMut::from(&v[..]);
            // must not panic
            let r = PartialDecode::new(bytes, &parser, &[1], false);
            if let Ok((d, _)) = r {
                assert!(d.len() <= v.len());
                n += 1;
            }
        }
    }
    1 + (n > 0) as u32
}

/// Native replay body for the E2 query `e2_decrypt_header_sample_bounds` (C04 / C03): every proper prefix of a
/// short-header datagram is decoded and unprotected with a header key that - like the real ones - slices
/// `sample` bytes starting 4 bytes after the packet-number offset.  A truncated datagram must be refused as too
/// short; it must never make the key index past the end.
pub fn truncated_prefixes_native(sample: u8) -> u32 {
    struct SlicingKey(usize);
    impl crate::crypto::HeaderKey for SlicingKey {
        fn decrypt(&self, pn_offset: usize, packet: &mut [u8]) {
            let _sample = &packet[pn_offset + 4..pn_offset + 4 + self.0]; // panics when the packet is too short
        }
        fn encrypt(&self, _: usize, _: &mut [u8]) {}
        fn sample_size(&self) -> usize {
            self.0
        }
    }
    let parser = crate::FixedLengthConnectionIdParser::new(8);
    let key = SlicingKey(sample as usize);
    let full: Vec<u8> = core::iter::once(0x40u8).chain((1..64u8).map(|i| i.wrapping_mul(7))).collect();
    let (mut ok, mut short) = (0, 0);
    for n in 1..=full.len() {
        let Ok((d, _)) = PartialDecode::new(BytesMut::from(&full[..n]), &parser, &[1], false) else { continue };
        match d.finish(Some(&key)) {
            Ok(_) => ok += 1,
            Err(_) => short += 1,
        }
    }
    assert!(ok > 0, "the complete datagram must decode");
    assert!(short > 0 || sample == 0);
    1
}
