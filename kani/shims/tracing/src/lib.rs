//! No-op `tracing` for the /verif Kani harness workspace.
//!
//! Every macro expands to nothing (the argument tokens are discarded, so no
//! formatting code reaches the formula).  `Span`/`EnteredSpan` are unit types.
#![allow(clippy::all)]

#[macro_export]
macro_rules! trace { ($($t:tt)*) => {{}}; }
#[macro_export]
macro_rules! debug { ($($t:tt)*) => {{}}; }
#[macro_export]
macro_rules! info { ($($t:tt)*) => {{}}; }
#[macro_export]
macro_rules! warn { ($($t:tt)*) => {{}}; }
#[macro_export]
macro_rules! error { ($($t:tt)*) => {{}}; }
#[macro_export]
macro_rules! event { ($($t:tt)*) => {{}}; }
#[macro_export]
macro_rules! trace_span { ($($t:tt)*) => { $crate::Span }; }
#[macro_export]
macro_rules! debug_span { ($($t:tt)*) => { $crate::Span }; }
#[macro_export]
macro_rules! info_span { ($($t:tt)*) => { $crate::Span }; }
#[macro_export]
macro_rules! warn_span { ($($t:tt)*) => { $crate::Span }; }
#[macro_export]
macro_rules! error_span { ($($t:tt)*) => { $crate::Span }; }
#[macro_export]
macro_rules! span { ($($t:tt)*) => { $crate::Span }; }

#[derive(Clone, Copy, Debug, Default)]
pub struct Span;

impl Span {
    pub fn none() -> Self { Self }
    pub fn current() -> Self { Self }
    pub fn enter(&self) -> span::Entered<'_> { span::Entered(core::marker::PhantomData) }
    pub fn entered(self) -> span::EnteredSpan { span::EnteredSpan }
    pub fn in_scope<F: FnOnce() -> T, T>(&self, f: F) -> T { f() }
    pub fn record<Q: ?Sized, V: ?Sized>(&self, _f: &Q, _v: &V) -> &Self { self }
    pub fn is_disabled(&self) -> bool { true }
}

pub mod span {
    pub use super::Span;
    #[derive(Debug)]
    pub struct Entered<'a>(pub(crate) core::marker::PhantomData<&'a ()>);
    #[derive(Debug)]
    pub struct EnteredSpan;
    impl EnteredSpan { pub fn exit(self) -> Span { Span } }
}

#[derive(Clone, Copy, Debug, PartialEq, Eq, PartialOrd, Ord)]
pub struct Level(u8);
impl Level {
    pub const ERROR: Level = Level(1);
    pub const WARN: Level = Level(2);
    pub const INFO: Level = Level(3);
    pub const DEBUG: Level = Level(4);
    pub const TRACE: Level = Level(5);
}

#[macro_export]
macro_rules! enabled { ($($t:tt)*) => { false }; }
#[macro_export]
macro_rules! event_enabled { ($($t:tt)*) => { false }; }
