// Stubs shared by harness wrappers (each use is listed in the harness table and in the evidence).

/// Over-approximation of `f64::cbrt`: any value.  Sound for the window lower-bound obligations,
/// which must hold whatever K the cubic function computes.
#[cfg(kani)]
fn cbrt_any(_x: f64) -> f64 {
    kani::any()
}
