"""mir2smt: a small symbolic executor for loop-free rustc MIR (text form, -Zunpretty=mir) that
produces SMT-LIB2 (QF_BV) path formulas.

Scope (deliberately narrow, see DESIGN.md §1 E2): integer / bool / fieldless-or-tuple-enum code,
references into `self` (modelled as a flat store of scalar leaves created lazily on first read),
fixed-size arrays with small length, overflow-checked arithmetic (`assert` terminators are panic
obligations), calls either inlined (callee MIR is loop free) or treated as pure uninterpreted
functions / havoc.  Anything else raises Untranslatable - the query is then reported as
"not translatable" and the property falls back to the Kani engine alone.
"""
import re
import itertools


class Untranslatable(Exception):
    pass


KNOWN_ENUMS = {"Option": ["None", "Some"], "Result": ["Ok", "Err"], "ControlFlow": ["Continue", "Break"], "IpAddr": ["V4", "V6"], "SocketAddr": ["V4", "V6"],
               "Entry": ["Occupied", "Vacant"], "RustcEntry": ["Occupied", "Vacant"], "Ordering": ["Less", "Equal", "Greater"], "Bound": ["Included", "Excluded", "Unbounded"], "Poll": ["Ready", "Pending"]}


# ------------------------------------------------------------------------------------------------
# parsing


class Func:
    def __init__(self, name, args, ret, text_lines):
        self.name, self.args, self.ret = name, args, ret
        self.locals = {}
        self.blocks = {}
        self.lines = text_lines
        self.srclines = {}       # block -> [source line of each statement or None] (dumps made with -Zmir-include-spans)
        self.debug = {}          # source variable name -> [MIR locals bound to it, in declaration order]


def split_top(s, sep=","):
    out, depth, cur = [], 0, ""
    pairs = {"(": ")", "[": "]", "<": ">", "{": "}"}
    i = 0
    while i < len(s):
        c = s[i]
        if c == '"':
            # string literal: copy through the closing quote
            j = i + 1
            while j < len(s) and s[j] != '"':
                j += 2 if s[j] == "\\" else 1
            cur += s[i:j + 1]
            i = j + 1
            continue
        if c in "([{<":
            depth += 1
        elif c in ")]}":
            depth -= 1
        elif c == ">" and i > 0 and s[i - 1] not in "-=":
            depth -= 1
        if c == sep and depth == 0:
            out.append(cur.strip())
            cur = ""
        else:
            cur += c
        i += 1
    if cur.strip():
        out.append(cur.strip())
    return out


PROMOTED = {}      # (function name, index) -> (enum path, variant) for promoted constants that are a reference to a field-less enum value


def parse_mir(path):
    funcs = {}
    cur = None
    block = None
    prom = None
    with open(path) as f:
        for raw in f:
            line = raw.rstrip("\n")
            pm = re.match(r"^const (.*)::promoted\[(\d+)\]: &.* = \{$", line)
            if pm:
                prom = (pm.group(1), int(pm.group(2)))
                cur = None
                continue
            if prom is not None:
                em = re.match(r"^\s+_1 = ([\w:]+)::(\w+);", line)
                if em:
                    PROMOTED[prom] = (em.group(1), em.group(2))
                if line == "}":
                    prom = None
                continue
            if line.startswith("fn "):
                m = re.match(r"^fn (.*?)\((.*)\) -> (.*) \{$", line)
                if not m:
                    cur = None
                    continue
                args = []
                for a in split_top(m.group(2)):
                    am = re.match(r"^(_\d+): (.*)$", a)
                    if am:
                        args.append((am.group(1), am.group(2)))
                cur = Func(m.group(1), args, m.group(3), [])
                for a, t in args:
                    cur.locals[a] = t
                cur.locals["_0"] = m.group(3)
                funcs.setdefault(cur.name, cur)
                block = None
                continue
            if cur is None:
                continue
            if line == "}":
                cur = None
                continue
            s = line.strip()
            srcline = None
            cm = re.search(r"\s*// (?:in )?scope \d+ at (?:no-location|(\S+?):(\d+):\d+: \d+:\d+)(?: \(#\d+\))?$", s)
            if cm:
                if cm.group(1):
                    srcline = (cm.group(1), int(cm.group(2)))
                s = s[:cm.start()].rstrip()
            m = re.match(r"^debug (\w+) => (_\d+);$", s)
            if m:
                cur.debug.setdefault(m.group(1), []).append(m.group(2))
                continue
            m = re.match(r"^let (mut )?(_\d+): (.*);$", s)
            if m:
                cur.locals[m.group(2)] = m.group(3)
                continue
            m = re.match(r"^(bb\d+)( \(cleanup\))?: \{$", s)
            if m:
                block = m.group(1)
                cur.blocks[block] = []
                cur.srclines[block] = []
                continue
            if s == "}":
                block = None
                continue
            if block is not None and s and not s.startswith("//"):
                cur.blocks[block].append(s)
                cur.srclines[block].append(srcline)
    return funcs


# ------------------------------------------------------------------------------------------------
# sorts / terms

INT_W = {"u8": 8, "u16": 16, "u32": 32, "u64": 64, "u128": 128, "usize": 64,
         "i8": 8, "i16": 16, "i32": 32, "i64": 64, "i128": 128, "isize": 64}


def sort_of_type(t):
    t = t.strip()
    if t == "bool":
        return ("bool",)
    if t in INT_W:
        return ("bv", INT_W[t], t.startswith("i"))
    if t in ("f32", "f64"):
        return ("bv", 32 if t == "f32" else 64, False)      # floats are opaque bit patterns: moved around, never computed with
    return None


def bvconst(v, w):
    return "(_ bv%d %d)" % (v % (1 << w), w)


class Val:
    __slots__ = ("t", "s")

    def __init__(self, t, s):
        self.t, self.s = t, s


def mk_bool(b):
    return Val("true" if b else "false", ("bool",))


def smt_sort(s):
    return "Bool" if s[0] == "bool" else "(_ BitVec %d)" % s[1]


# ------------------------------------------------------------------------------------------------
# places


class Place:
    """canonical place = root + projections; key() is a flat string"""

    def __init__(self, root, projs=()):
        self.root, self.projs = root, tuple(projs)

    def key(self):
        k = self.root
        for p in self.projs:
            if p[0] == "field":
                k += ".%s" % p[1]
            elif p[0] == "down":
                k += "@%s" % p[1]
            elif p[0] == "idx":
                k += "[%s]" % p[1]
            elif p[0] == "deref":
                k = "*" + k
        return k

    def extend(self, proj):
        return Place(self.root, self.projs + (proj,))


class PlaceParser:
    def __init__(self, text):
        self.s, self.i = text, 0

    def peek(self):
        return self.s[self.i] if self.i < len(self.s) else ""

    def parse(self):
        """returns list of raw projections on a base local: ('base', '_N'), then ops"""
        node = self.atom()
        while self.peek() == "[":
            j = self.s.index("]", self.i)
            inner = self.s[self.i + 1:j]
            self.i = j + 1
            node = ("index", node, inner)
        return node

    def atom(self):
        if self.peek() == "(":
            self.i += 1
            if self.peek() == "*":
                self.i += 1
                inner = self.parse()
                assert self.peek() == ")", self.s
                self.i += 1
                return ("deref", inner)
            inner = self.parse()
            if self.s.startswith(" as ", self.i):
                self.i += 4
                j = self.s.index(")", self.i)
                var = self.s[self.i:j]
                self.i = j + 1
                return ("down", inner, var.strip())
            if self.peek() == ".":
                self.i += 1
                m = re.match(r"(\d+): ", self.s[self.i:])
                self.i += m.end()
                # type runs until the matching ')'
                depth, j = 0, self.i
                while True:
                    c = self.s[j]
                    if c in "([<{":
                        depth += 1
                    elif c in "]}":
                        depth -= 1
                    elif c == ">" and self.s[j - 1] not in "-=":
                        depth -= 1
                    elif c == ")":
                        if depth == 0:
                            break
                        depth -= 1
                    j += 1
                ty = self.s[self.i:j]
                self.i = j + 1
                return ("field", inner, int(m.group(1)), ty)
            raise Untranslatable("place syntax: " + self.s)
        m = re.match(r"_\d+", self.s[self.i:])
        if not m:
            raise Untranslatable("place syntax: " + self.s)
        self.i += m.end()
        return ("base", m.group(0))


# ------------------------------------------------------------------------------------------------
# symbolic state


def has_prefix(key, pre):
    return key == pre or (key.startswith(pre) and key[len(pre)] in ".@#[")


def havoc_epoch(st, key):
    return sum(n for pre, n in st.epoch.items() if has_prefix(key, pre))


class State:
    def __init__(self):
        self.store = {}      # key -> Val
        self.refs = {}       # local -> Place
        self.alias = {}      # aggregate key prefix -> source prefix (copy-on-read)
        self.conds = []      # path condition (smt bool terms)
        self.calls = []      # (callee, [arg descriptors], result key)
        self.visited = ()
        self.epoch = {}      # memory root -> havoc counter
        self.frozen = {}     # frozen pseudo-root -> (original prefix, was_havocked) : snapshot of an aggregate that
                             # was copied from (aliased) and later overwritten at its source
        self.shared = set()  # keys of aggregate fields that hold a SHARED reference (`&T`): callees cannot write through them
        self.ptrmeta = {}    # local holding an opaque fat pointer -> Val standing for its length (PtrMetadata)

    def clone(self):
        n = State()
        n.store = dict(self.store)
        n.refs = dict(self.refs)
        n.alias = dict(self.alias)
        n.conds = list(self.conds)
        n.calls = list(self.calls)
        n.visited = self.visited
        n.epoch = dict(self.epoch)
        n.frozen = dict(self.frozen)
        n.shared = set(self.shared)
        n.ptrmeta = dict(self.ptrmeta)
        return n


class StoreSnapshot(dict):
    """a copy of State.store taken before an opaque call, together with the havoc epochs at that moment"""
    epoch = None


class Path:
    def __init__(self, state, outcome, detail, func):
        self.state, self.outcome, self.detail, self.func = state, outcome, detail, func


class Executor:
    def __init__(self, funcs, enums=None, inline=(), pure=(), modifies=None, max_paths=4000):
        self.funcs = funcs
        self.enums = enums or {}
        self.inline = [re.compile(x) for x in inline]
        self.pure = [re.compile(x) for x in pure]
        self.modifies = modifies or {}   # callee regex -> list of key prefixes the callee may write (everything else is preserved)
        self.stop_at = []                # callee regexes: the path ends (outcome "stop") right before such a call
        self.decls = {}      # smt var name -> sort
        self.inputs = {}     # place key -> var name (first read of untouched input state)
        self.counter = itertools.count()
        self.max_paths = max_paths
        self.slice_end = None
        self.paths = []

    # ---- variables
    def fresh(self, hint, sort):
        name = "|%s#%d|" % (hint.replace("|", "/"), next(self.counter))
        self.decls[name] = sort
        return Val(name, sort)

    def input_var(self, key, sort):
        name = "|in:%s|" % key
        if name in self.decls and self.decls[name] != sort:
            raise Untranslatable("input %s read at two sorts" % key)
        self.decls[name] = sort
        self.inputs[key] = name
        return Val(name, sort)

    # ---- place resolution
    def resolve(self, st, fn, node, frame):
        """raw parsed place -> canonical Place (derefs through known refs resolved)"""
        kind = node[0]
        if kind == "base":
            return Place(frame + node[1])
        if kind == "deref":
            inner = self.resolve(st, fn, node[1], frame)
            k = inner.key()
            if k in st.refs:
                return st.refs[k]
            if st.alias.get(k, "").startswith("call:"):
                # pointer returned by a pure call: memory is rooted at the call, so that two calls
                # with identical arguments denote the same object
                return Place("*" + st.alias[k])
            # reference-typed argument / unknown pointer: memory rooted at that name
            return Place("*" + k)
        if kind == "field":
            return self.resolve(st, fn, node[1], frame).extend(("field", node[2], node[3]))
        if kind == "down":
            return self.resolve(st, fn, node[1], frame).extend(("down", node[2]))
        if kind == "index":
            base = self.resolve(st, fn, node[1], frame)
            idx = node[2].strip()
            m = re.match(r"^(\d+) of \d+$", idx)
            if m:
                return base.extend(("idx", int(m.group(1))))
            if re.match(r"^_\d+$", idx):
                return base.extend(("symidx", frame + idx))
            raise Untranslatable("index " + idx)
        raise Untranslatable("place " + repr(node))

    def parse_place(self, st, fn, text, frame):
        pp = PlaceParser(text.strip())
        node = pp.parse()
        if pp.i != len(pp.s):
            raise Untranslatable("trailing place text: " + text)
        return self.resolve(st, fn, node, frame)

    def type_of_place(self, fn, place, frame):
        # last field projection carries its type; otherwise the local's declared type
        for p in reversed(place.projs):
            if p[0] == "field":
                return p[2]
            if p[0] in ("idx", "symidx"):
                break
            if p[0] == "down":
                return None
        if not place.projs:
            loc = place.root[len(frame):] if place.root.startswith(frame) else None
            if loc in fn.locals:
                return fn.locals[loc]
            return None
        # element of an array: find the array field type
        for i in range(len(place.projs) - 1, -1, -1):
            p = place.projs[i]
            if p[0] in ("idx", "symidx"):
                if i > 0 and place.projs[i - 1][0] == "field":
                    m = re.match(r"^\[(.*); (\d+)\]$", place.projs[i - 1][2].strip())
                    if m:
                        return m.group(1)
                elif i == 0:
                    loc = place.root[len(frame):]
                    m = re.match(r"^\[(.*); (\d+)\]$", fn.locals.get(loc, "").strip())
                    if m:
                        return m.group(1)
                return None
        return None

    def array_len(self, fn, place, upto, frame):
        if upto > 0 and place.projs[upto - 1][0] == "field":
            m = re.match(r"^\[(.*); (\d+)\]$", place.projs[upto - 1][2].strip())
        else:
            loc = place.root[len(frame):]
            m = re.match(r"^\[(.*); (\d+)\]$", fn.locals.get(loc, "").strip())
        if not m:
            raise Untranslatable("symbolic index into non-array")
        return int(m.group(2))

    # ---- reads / writes
    def root_is_input(self, key):
        return True

    def read_key(self, st, key, sort, is_input_ok=True):
        if key in st.store:
            v = st.store[key]
            if v.s != sort and sort is not None:
                if v.s[0] == "bv" and sort[0] == "bv" and v.s[1] == sort[1]:
                    return Val(v.t, sort)
                raise Untranslatable("sort mismatch on %s: %s vs %s" % (key, v.s, sort))
            return v
        # aggregate alias (copied aggregate whose leaf was never materialised)
        best = None
        for pre in st.alias:
            if key == pre or key.startswith(pre + ".") or key.startswith(pre + "@") or key.startswith(pre + "#") or key.startswith(pre + "["):
                if best is None or len(pre) > len(best):
                    best = pre
        if best is not None:
            src = st.alias[best] + key[len(best):]
            v = self.read_key(st, src, sort)
            st.store[key] = v
            return v
        if sort is None:
            raise Untranslatable("read of %s with unknown type" % key)
        for fz, (orig, havocked) in st.frozen.items():
            if has_prefix(key, fz):
                # a leaf of a snapshot that was never materialised: it still denotes the value the
                # original place had before it was overwritten
                okey = orig + key[len(fz):]
                v = self.fresh("havoc-snap:" + okey, sort) if havocked else self.input_var(okey, sort)
                st.store[key] = v
                return v
        ep = havoc_epoch(st, key)
        if ep:
            v = self.fresh("havoc%d:%s" % (ep, key), sort)
        else:
            v = self.input_var(key, sort)
        st.store[key] = v
        return v

    def read_place(self, st, fn, place, sort, frame):
        # symbolic array index -> ite chain
        for i, p in enumerate(place.projs):
            if p[0] == "symidx":
                n = self.array_len(fn, place, i, frame)
                if n > 8:
                    raise Untranslatable("array too long for symbolic index")
                idxv = self.read_key(st, p[1], ("bv", 64, False))
                acc = None
                for k in range(n - 1, -1, -1):
                    pk = Place(place.root, place.projs[:i] + (("idx", k),) + place.projs[i + 1:])
                    v = self.read_place(st, fn, pk, sort, frame)
                    acc = v if acc is None else Val("(ite (= %s %s) %s %s)" % (idxv.t, bvconst(k, 64), v.t, acc.t), v.s)
                return acc
        return self.read_key(st, place.key(), sort)

    def invalidate_aliases(self, st, key):
        """Called before `key` (a leaf or an aggregate prefix) is overwritten: every live aggregate copy
        that still reads lazily through `key` is re-pointed to a frozen snapshot of the old value."""
        hit = [pre for pre, src in st.alias.items() if has_prefix(src, key) or has_prefix(key, src)]
        if not hit:
            return
        for pre in hit:
            src = st.alias[pre]
            fz = "frozen%d:%s" % (next(self.counter), src)
            for k, v in list(st.store.items()):
                if has_prefix(k, src):
                    st.store[fz + k[len(src):]] = v
            # an alias chain below `src` keeps working: the frozen root inherits src's own alias, if any
            for pre2, src2 in list(st.alias.items()):
                if pre2 != pre and has_prefix(src, pre2):
                    st.alias[fz] = src2 + src[len(pre2):]
                    break
            else:
                st.frozen[fz] = (src, havoc_epoch(st, src) > 0)
            st.alias[pre] = fz

    def write_place(self, st, fn, place, val, frame):
        for i, p in enumerate(place.projs):
            if p[0] == "symidx":
                n = self.array_len(fn, place, i, frame)
                idxv = self.read_key(st, p[1], ("bv", 64, False))
                for k in range(n):
                    pk = Place(place.root, place.projs[:i] + (("idx", k),) + place.projs[i + 1:])
                    old = self.read_place(st, fn, pk, val.s, frame)
                    st.store[pk.key()] = Val("(ite (= %s %s) %s %s)" % (idxv.t, bvconst(k, 64), val.t, old.t), val.s)
                return
        key = place.key()
        self.invalidate_aliases(st, key)
        st.store[key] = val

    def clear_prefix(self, st, pre):
        self.invalidate_aliases(st, pre)
        for k in [k for k in st.store if has_prefix(k, pre)]:
            del st.store[k]
        st.alias.pop(pre, None)

    def copy_aggregate(self, st, dst, src):
        if dst == src:
            return
        self.invalidate_aliases(st, dst)
        for k in [k for k in st.store if k == dst or k[:len(dst) + 1] in (dst + ".", dst + "@", dst + "#", dst + "[")]:
            del st.store[k]
        st.alias.pop(dst, None)
        for k, v in list(st.store.items()):
            if k == src or k[:len(src) + 1] in (src + ".", src + "@", src + "#", src + "["):
                st.store[dst + k[len(src):]] = v
        for r, p in list(st.refs.items()):
            if r == src or r.startswith(src + "."):
                st.refs[dst + r[len(src):]] = p
        st.alias[dst] = src

    # ---- operands
    def enum_table(self, path):
        """variant list of the enum named by a (possibly qualified, possibly generic) MIR path"""
        comps = [c for c in re.sub(r"<.*>", "", path).split("::") if c]
        if not comps:
            return None
        if len(comps) >= 2 and (comps[-2] + "::" + comps[-1]) in self.enums:
            return self.enums[comps[-2] + "::" + comps[-1]]
        return self.enums.get(comps[-1]) or KNOWN_ENUMS.get(comps[-1])

    def const_val(self, text, want_sort=None):
        t = text.strip()
        if t in ("true", "false"):
            return mk_bool(t == "true")
        m = re.match(r"^(-?\d+)_([iu]\d+|[iu]size)$", t)
        if m:
            s = sort_of_type(m.group(2))
            return Val(bvconst(int(m.group(1)), s[1]), s)
        m = re.match(r"^(.+?)::(\w+)$", t) if "(" not in t and "{" not in t else None
        if m and self.enum_table(m.group(1)) and m.group(2) in self.enum_table(m.group(1)):
            return ("enum", m.group(1), self.enum_table(m.group(1)).index(m.group(2)))
        m = re.match(r"^(-?[\d.]+(?:[eE][-+]?\d+)?)(f32|f64)$", t)
        if m:
            # a float literal: an uninterpreted constant of its width (the same literal is the same constant)
            srt = ("bv", 32 if m.group(2) == "f32" else 64, False)
            name = "|fconst:%s|" % t
            self.decls[name] = srt
            return Val(name, srt)
        m = re.match(r"^(?:std::|core::)?([iu](?:8|16|32|64|128|size))::(MAX|MIN)$", t)
        if m:
            srt = sort_of_type(m.group(1))
            w, sg = srt[1], srt[2]
            v = ((1 << (w - 1)) - 1 if sg else (1 << w) - 1) if m.group(2) == "MAX" else (-(1 << (w - 1)) if sg else 0)
            return Val(bvconst(v, w), srt)
        m = re.match(r"^[A-Za-z_][\w:]*(?:::<.*>)?\((.*)\)$", t)
        if m:
            # tuple-struct constant `Name(c0, c1, ..)`: its fields (constants without the `const` keyword)
            return ("tuple", [self.const_val(x) for x in split_top(m.group(1))])
        if re.search(r"::promoted\[\d+\]$", t):
            # promoted constant: a `&'static` to data computed at compile time - opaque memory of its own
            return ("ref", Place("*static:" + re.sub(r"\W+", "_", t)[-60:]))
        m = re.match(r"^\{(alloc\d+): &.*\}$", t)
        if m:
            return ("ref", Place("*static:" + m.group(1)))      # reference to a static: opaque memory of its own
        if re.match(r"^\{0x[0-9a-f]+ as \*(?:mut|const) .*\}$", t):
            return ("unit",)      # raw pointer constant (null / dangling sentinel inside Bytes::new() etc.): opaque
        if re.match(r"^[A-Za-z_][\w:<>, ]*\{\{.*\}\}$", t):
            return ("unit",)      # struct constant printed field by field (e.g. alloc Layout): opaque, leaves unconstrained
        if t.startswith('"') or re.match(r"^[A-Za-z_][\w:]*$", t) or t == "()" or t.startswith("PhantomData") or t.startswith("ZeroSized:") or t.startswith("{closure@"):
            return ("unit",)      # field-less ADT constant (unit struct, PhantomData): no leaves
        raise Untranslatable("constant " + t)

    def operand(self, st, fn, text, frame, sort_hint=None):
        t = text.strip()
        if t.startswith("no_retag "):
            t = t[len("no_retag "):]
        if t.startswith("const "):
            pm = re.search(r"::promoted\[(\d+)\]$", t)
            if pm and (fn.name, int(pm.group(1))) in PROMOTED:
                # `&Enum::Variant` promoted to a constant of the current function: its discriminant is known
                r = self.const_val(t[6:], sort_hint)
                en, var = PROMOTED[(fn.name, int(pm.group(1)))]
                table = KNOWN_ENUMS.get(en.split("::")[-1]) or self.enum_table(en)
                if table and var in table and not isinstance(r, Val) and r[0] == "ref":
                    st.store[r[1].key() + "#discr"] = Val(bvconst(table.index(var), 64), ("bv", 64, True))
                return r
            return self.const_val(t[6:], sort_hint)
        m = re.match(r"^(copy|move) (.*)$", t)
        if not m:
            raise Untranslatable("operand " + t)
        place = self.parse_place(st, fn, m.group(2), frame)
        ty = self.type_of_place(fn, place, frame)
        if ty is None:
            # `(*_N)` / `(*(*_N))`: the pointee type of a local declared as a pointer
            dm = re.match(r"^(\(\*)+(_\d+)\)+$", m.group(2).strip())
            if dm:
                decl = (fn.locals.get(dm.group(2)) or "").strip()
                for _ in range(m.group(2).count("(*")):
                    pm = re.match(r"^(?:&(?:'\w+ )?(?:mut )?|\*const |\*mut )(.*)$", decl)
                    decl = pm.group(1).strip() if pm else ""
                if decl and not decl.startswith(("&", "*const", "*mut")):
                    ty = decl
        sort = sort_of_type(ty) if ty else sort_hint
        if sort is None and ty is not None:
            key = place.key()
            if key in st.refs:
                return ("ref", st.refs[key])
            if ty.strip().startswith(("&", "*const", "*mut", "std::ptr::NonNull<", "NonNull<")):
                # reference-typed argument: a pointer to memory rooted at its own name
                return ("ref", Place("*" + key))
            return ("agg", place, ty)
        if sort is None and ty is None and place.projs and all(pp[0] == "deref" for pp in place.projs):
            # `*_N` / `**_N` of a local declared as a (nested) pointer: strip one pointer level per deref
            loc = place.root[len(frame):] if place.root.startswith(frame) else place.root
            decl = (fn.locals.get(loc) or "").strip()
            for _ in place.projs:
                mm = re.match(r"^(?:&(?:'\w+ )?(?:mut )?|\*const |\*mut )(.*)$", decl)
                decl = mm.group(1).strip() if mm else ""
            if decl:
                if decl.startswith(("&", "*const", "*mut")):
                    key = place.key()
                    return ("ref", st.refs.get(key) or Place("*" + key))
                srt = sort_of_type(decl)
                if srt is not None:
                    return self.read_place(st, fn, place, srt, frame)
                return ("agg", place, decl)
        if sort is None and ty is None and place.key().startswith("*") and not place.projs:
            # `*_N` where `_N: &&T` (or deeper): the value read is itself a reference
            loc = place.root.lstrip("*")
            loc = loc[len(frame):] if loc.startswith(frame) else loc
            decl = (fn.locals.get(loc) or "").strip()
            depth = len(place.root) - len(place.root.lstrip("*"))
            amp = len(decl) - len(decl.lstrip("&"))
            if amp > depth:
                key = place.key()
                return ("ref", st.refs.get(key) or Place("*" + key))
        if sort is None:
            raise Untranslatable("operand of unknown type: " + t)
        return self.read_place(st, fn, place, sort, frame)

    # ---- rvalues
    def binop(self, op, a, b):
        if not isinstance(a, Val) or not isinstance(b, Val):
            raise Untranslatable("binop on aggregate")
        if a.s[0] == "bool":
            table = {"Eq": "(= %s %s)", "Ne": "(not (= %s %s))", "BitAnd": "(and %s %s)", "BitOr": "(or %s %s)", "BitXor": "(xor %s %s)"}
            if op not in table:
                raise Untranslatable("bool op " + op)
            return Val(table[op] % (a.t, b.t), ("bool",))
        w, sg = a.s[1], a.s[2]
        if op in ("Shl", "Shr", "ShlUnchecked", "ShrUnchecked"):
            bt = b.t
            if b.s[1] < w:
                bt = "((_ zero_extend %d) %s)" % (w - b.s[1], b.t)
            elif b.s[1] > w:
                bt = "((_ extract %d 0) %s)" % (w - 1, b.t)
            o = "bvshl" if op.startswith("Shl") else ("bvashr" if sg else "bvlshr")
            return Val("(%s %s %s)" % (o, a.t, bt), a.s)
        if b.s[1] != w:
            raise Untranslatable("width mismatch in " + op)
        ar = {"Add": "bvadd", "Sub": "bvsub", "Mul": "bvmul", "BitAnd": "bvand", "BitOr": "bvor", "BitXor": "bvxor",
              "AddUnchecked": "bvadd", "SubUnchecked": "bvsub", "MulUnchecked": "bvmul",
              "Div": "bvsdiv" if sg else "bvudiv", "Rem": "bvsrem" if sg else "bvurem"}
        if op in ar:
            return Val("(%s %s %s)" % (ar[op], a.t, b.t), a.s)
        cmp_ = {"Lt": "bvslt" if sg else "bvult", "Le": "bvsle" if sg else "bvule", "Gt": "bvsgt" if sg else "bvugt", "Ge": "bvsge" if sg else "bvuge"}
        if op in cmp_:
            return Val("(%s %s %s)" % (cmp_[op], a.t, b.t), ("bool",))
        if op == "Eq":
            return Val("(= %s %s)" % (a.t, b.t), ("bool",))
        if op == "Ne":
            return Val("(not (= %s %s))" % (a.t, b.t), ("bool",))
        raise Untranslatable("binop " + op)

    def overflow_op(self, op, a, b):
        w, sg = a.s[1], a.s[2]
        base = op[:-len("WithOverflow")]
        res = self.binop(base, a, b)
        if sg:
            ext = "(_ sign_extend %d)" % w
        else:
            ext = "(_ zero_extend %d)" % w
        wide = {"Add": "bvadd", "Sub": "bvsub", "Mul": "bvmul"}[base]
        full = "(%s (%s %s) (%s %s))" % (wide, ext, a.t, ext, b.t)
        back = "(%s %s)" % (ext, res.t)
        return res, Val("(not (= %s %s))" % (full, back), ("bool",))

    def cast(self, v, ty):
        s = sort_of_type(ty)
        if s is None or not isinstance(v, Val):
            raise Untranslatable("cast to " + ty)
        if v.s[0] == "bool":
            if s[0] == "bool":
                return v
            return Val("(ite %s %s %s)" % (v.t, bvconst(1, s[1]), bvconst(0, s[1])), s)
        if s[0] == "bool":
            raise Untranslatable("int to bool cast")
        if s[1] == v.s[1]:
            return Val(v.t, s)
        if s[1] < v.s[1]:
            return Val("((_ extract %d 0) %s)" % (s[1] - 1, v.t), s)
        ext = "sign_extend" if v.s[2] else "zero_extend"
        return Val("((_ %s %d) %s)" % (ext, s[1] - v.s[1], v.t), s)

    def put_at(self, st, key, v):
        if isinstance(v, Val):
            st.store[key] = v
        elif v[0] == "agg":
            self.copy_aggregate(st, key, v[1].key())
        elif v[0] == "ref":
            st.refs[key] = v[1]
        elif v[0] == "enum":
            st.store[key + "#discr"] = Val(bvconst(v[2], 64), ("bv", 64, True))
        elif v[0] == "unit":
            pass
        elif v[0] == "tuple":
            for i, x in enumerate(v[1]):
                self.put_at(st, key + ".%d" % i, x)
        else:
            raise Untranslatable("aggregate field " + repr(v))

    def put_enum_const(self, st, key, c):
        """constant of a std enum, possibly nested (`Result::<..>::Ok(Option::<..>::None)`): discriminants and scalar payloads;
        payload constants outside the translator are left unconstrained"""
        c = c.strip()
        if re.match(r"^(?:[\w:]*::)?Option::<.*>::None$", c):
            st.store[key + "#discr"] = Val(bvconst(0, 64), ("bv", 64, True))
            return
        mm = re.match(r"^(?:[\w:]*::)?(Result|Option|ControlFlow)::<.*?>::(\w+)\(", c)
        if mm and c.endswith(")"):
            table = KNOWN_ENUMS[mm.group(1)]
            st.store[key + "#discr"] = Val(bvconst(table.index(mm.group(2)), 64), ("bv", 64, True))
            for i, part in enumerate(split_top(c[mm.end():-1])):
                self.put_enum_const(st, key + "@%s.%d" % (mm.group(2), i), part)
            return
        try:
            self.put_at(st, key, self.const_val(c))
        except Untranslatable:
            pass

    def assign(self, st, fn, dst_text, rhs, frame):
        dst = self.parse_place(st, fn, dst_text, frame)
        dty = self.type_of_place(fn, dst, frame)
        dsort = sort_of_type(dty) if dty else None
        rhs = rhs.strip()

        def put(v):
            if isinstance(v, Val):
                self.write_place(st, fn, dst, v, frame)
            elif v[0] == "ref":
                st.refs[dst.key()] = v[1]
            elif v[0] == "agg":
                self.copy_aggregate(st, dst.key(), v[1].key())
            elif v[0] == "unit":
                pass
            elif v[0] == "enum":
                st.store[dst.key() + "#discr"] = Val(bvconst(v[2], 64), ("bv", 64, True))
            elif v[0] == "tuple":
                self.clear_prefix(st, dst.key())
                self.put_at(st, dst.key(), v)
            else:
                raise Untranslatable("assign " + repr(v))

        if re.search(r"\(PointerCoercion\((ReifyFnPointer|ClosureFnPointer|UnsafeFnPointer)", rhs):
            return          # a function pointer (formatting machinery): no data the queries look at
        m = re.match(r"^(\*const|\*mut) .* from \((.*)\)$", rhs)
        if m:
            first = split_top(m.group(2))[0]
            v = self.operand(st, fn, first, frame)
            st.refs[dst.key()] = v[1] if (not isinstance(v, Val) and v[0] == "ref") else Place("*" + dst.key())
            return
        # references
        m = re.match(r"^&(mut |raw const |raw mut )?(.*)$", rhs)
        if m:
            st.refs[dst.key()] = self.parse_place(st, fn, m.group(2), frame)
            return
        m = re.match(r"^discriminant\((.*)\)$", rhs)
        if m:
            p = self.parse_place(st, fn, m.group(1), frame)
            v = self.read_key(st, p.key() + "#discr", ("bv", 64, True))
            put(self.cast(v, dty) if dsort and dsort != v.s else v)
            return
        m = re.match(r"^(\w+)\((.*)\)$", rhs)
        if m and m.group(1) in ("Add", "Sub", "Mul", "Div", "Rem", "BitAnd", "BitOr", "BitXor", "Shl", "Shr", "Eq", "Ne", "Lt", "Le", "Gt", "Ge",
                                "AddUnchecked", "SubUnchecked", "MulUnchecked", "ShlUnchecked", "ShrUnchecked"):
            a, b = split_top(m.group(2))
            fm = re.match(r"^(?:copy|move) (.*)$", a.strip())
            aty = None
            if fm:
                try:
                    aty = self.type_of_place(fn, self.parse_place(st, fn, fm.group(1), frame), frame)
                except Untranslatable:
                    aty = None
            if (aty or "").strip() in ("f32", "f64") or re.search(r"f(32|64)$", a.strip()) or re.search(r"f(32|64)$", b.strip()):
                # floating-point arithmetic / comparison: an arbitrary result of the destination's sort (never computed with)
                put(self.fresh("float:" + dst.key(), dsort or ("bool",)))
                return
            av = self.operand(st, fn, a, frame)
            bv = self.operand(st, fn, b, frame, av.s if isinstance(av, Val) else None)
            if (not isinstance(av, Val) or not isinstance(bv, Val)) and m.group(1) in ("Eq", "Ne", "Lt", "Le", "Gt", "Ge"):
                # comparison of pointers (slice iterators): an arbitrary boolean
                put(self.fresh("ptrcmp:" + dst.key(), ("bool",)))
                return
            put(self.binop(m.group(1), av, bv))
            return
        if m and m.group(1) == "Cmp":
            a, b = split_top(m.group(2))
            av = self.operand(st, fn, a, frame)
            bv_ = self.operand(st, fn, b, frame, av.s)
            lt = self.binop("Lt", av, bv_).t
            eq_ = self.binop("Eq", av, bv_).t
            self.clear_prefix(st, dst.key())
            st.store[dst.key() + "#discr"] = Val("(ite %s %s (ite %s %s %s))" % (lt, bvconst(-1, 64), eq_, bvconst(0, 64), bvconst(1, 64)), ("bv", 64, True))
            return
        if m and m.group(1) in ("AddWithOverflow", "SubWithOverflow", "MulWithOverflow"):
            a, b = split_top(m.group(2))
            av = self.operand(st, fn, a, frame)
            bv = self.operand(st, fn, b, frame, av.s)
            res, ovf = self.overflow_op(m.group(1), av, bv)
            st.store[dst.key() + ".0"] = res
            st.store[dst.key() + ".1"] = ovf
            return
        if m and m.group(1) in ("Not", "Neg"):
            v = self.operand(st, fn, m.group(2), frame)
            if m.group(1) == "Not":
                put(Val("(not %s)" % v.t, v.s) if v.s[0] == "bool" else Val("(bvnot %s)" % v.t, v.s))
            else:
                put(Val("(bvneg %s)" % v.t, v.s))
            return
        m = re.match(r"^(.*) as (.+?) \((\w+)(?:\([\w, ]*\))?\)$", rhs)
        if m:
            v = self.operand(st, fn, m.group(1), frame)
            if not isinstance(v, Val) and v[0] == "ref" and m.group(3) in ("Transmute", "PtrToPtr", "MutToConstPointer", "Unsize", "PointerCoercion"):
                st.refs[dst.key()] = v[1]
                return
            if not isinstance(v, Val) and v[0] == "agg" and m.group(3) == "Transmute" and sort_of_type(m.group(2)) is not None:
                # single-field scalar wrapper (e.g. niche-typed Nanoseconds(u32)) reinterpreted as its field
                put(self.read_key(st, v[1].key() + ".0", sort_of_type(m.group(2))))
                return
            if not isinstance(v, Val) and v[0] == "agg" and m.group(3) == "Transmute" and m.group(2).strip().startswith(("*const", "*mut", "&")):
                # single-pointer wrapper (NonNull / Unique) reinterpreted as a raw pointer
                st.refs[dst.key()] = Place("*" + v[1].key())
                return
            if m.group(3) == "Transmute" and not isinstance(v, Val):
                tgt = m.group(2).strip()
                if v[0] == "unit" and tgt.startswith(("&", "*const", "*mut")):
                    st.refs[dst.key()] = Place("*" + dst.key())      # pointer to opaque constant data
                    return
                if v[0] == "ref" and sort_of_type(tgt) is not None:
                    put(self.fresh("addr:" + dst.key(), sort_of_type(tgt)))   # address of an object: an arbitrary word
                    return
                if v[0] == "unit":
                    self.clear_prefix(st, dst.key())      # opaque constant reinterpreted as an aggregate: leaves unconstrained
                    return
            if m.group(3) == "Transmute" and isinstance(v, Val) and sort_of_type(m.group(2).strip()) is None:
                # scalar reinterpreted as a single-field wrapper (niche-typed Nanoseconds(u32), NonZero..): its only field
                self.clear_prefix(st, dst.key())
                st.store[dst.key() + ".0"] = v
                return
            if m.group(3) in ("FloatToFloat", "FloatToInt", "IntToFloat") and sort_of_type(m.group(2).strip()) is not None:
                put(self.fresh("fcast:" + dst.key(), sort_of_type(m.group(2).strip())))      # float conversion: arbitrary value
                return
            if m.group(3) not in ("IntToInt",):
                raise Untranslatable("cast kind " + m.group(3) + " of " + rhs[:80])
            put(self.cast(v, m.group(2)))
            return
        if rhs.startswith("no_retag "):
            rhs = rhs[len("no_retag "):]
        m = re.match(r"^PtrMetadata\((?:copy|move) (_\d+)\)$", rhs)
        if m and dsort is not None:
            # length of a slice reached through an opaque pointer: an arbitrary value of the destination's type,
            # recorded per path so that an oracle can name it (st.ptrmeta: source local -> value)
            v = self.fresh("ptrmeta:" + m.group(1), dsort)
            st.ptrmeta[m.group(1)] = v
            put(v)
            return
        if rhs.startswith("copy ") or rhs.startswith("move ") or rhs.startswith("const "):
            if rhs.startswith("const "):
                c = rhs[6:].strip()
                mm = re.match(r"^Option::<.*>::None$", c)
                if mm:
                    self.clear_prefix(st, dst.key())
                    st.store[dst.key() + "#discr"] = Val(bvconst(0, 64), ("bv", 64, True))
                    return
                mm = re.match(r"^(?:[\w:]*::)?(Result|Option|ControlFlow)::<.*?>::(\w+)\(", c)
                if mm:
                    self.clear_prefix(st, dst.key())
                    self.put_enum_const(st, dst.key(), c)
                    return
                if c == "()":
                    return
            put(self.operand(st, fn, rhs, frame, dsort))
            return
        # aggregates
        m = re.match(r"^\((.*)\)$", rhs)
        if m and not rhs.startswith("(*") :
            parts = split_top(m.group(1))
            if len(parts) >= 1 and all(re.match(r"^(copy|move|const) ", p) for p in parts):
                for i, p in enumerate(parts):
                    v = self.operand(st, fn, p, frame)
                    self.put_at(st, dst.key() + ".%d" % i, v)
                return
        m = re.match(r"^(.+?) \{ (.*) \}$", rhs)
        if m and not rhs.startswith("const"):
            # struct / closure literal with named fields: fields are addressed by index in MIR
            self.clear_prefix(st, dst.key())
            base = dst.key()
            em = re.match(r"^((?:[\w:]*::)?(\w+))(?:::<.*>)?::(\w+)$", m.group(1).strip())
            if em and self.enum_table(em.group(1)) and em.group(3) in self.enum_table(em.group(1)):
                # struct-like enum variant `Enum::Variant { f: .. }`
                st.store[base + "#discr"] = Val(bvconst(self.enum_table(em.group(1)).index(em.group(3)), 64), ("bv", 64, True))
                base = base + "@" + em.group(3)
            elif em and em.group(2) in KNOWN_ENUMS:
                raise Untranslatable("struct-like variant of " + em.group(1))
            for i, part in enumerate(split_top(m.group(2))):
                fm = re.match(r"^(\w+): (.*)$", part)
                if not fm:
                    raise Untranslatable("struct literal field: " + part)
                v = self.operand(st, fn, fm.group(2), frame)
                self.put_at(st, base + ".%d" % i, v)
                om = re.match(r"^(?:copy|move) (_\d+)$", fm.group(2).strip())
                if om and not isinstance(v, Val) and v[0] == "ref":
                    decl = (fn.locals.get(om.group(1)) or "").strip()
                    if decl.startswith("&") and not re.match(r"^&(?:'\w+ )?mut ", decl):
                        st.shared.add(base + ".%d" % i)
            return
        m = re.match(r"^\[(.*); (\d+)\]$", rhs)
        if m and int(m.group(2)) <= 64:
            v = self.operand(st, fn, m.group(1), frame)
            if not isinstance(v, Val):
                raise Untranslatable("array repeat of aggregates")
            self.clear_prefix(st, dst.key())
            for i in range(int(m.group(2))):
                st.store[dst.key() + "[%d]" % i] = v
            return
        m = re.match(r"^\[(.*)\]$", rhs)
        if m:
            parts = split_top(m.group(1))
            for i, p in enumerate(parts):
                v = self.operand(st, fn, p, frame)
                self.put_at(st, dst.key() + "[%d]" % i, v)       # scalars, and aggregates / references element by element
            return
        m = re.match(r"^([\w:]+?)(?:::<.*?>)?(?:::(\w+))?\((.*)\)$", rhs)
        if m:
            tyname = m.group(1).split("::")[-1] if m.group(2) else None
            variant = m.group(2)
            if variant is None:
                # tuple struct `Name(args)` (no variant)
                tyname, variant = None, None
                base = dst.key()
            else:
                table = KNOWN_ENUMS.get(tyname) or self.enum_table(m.group(1))
                if table is None or variant not in table:
                    raise Untranslatable("enum constructor %s::%s" % (tyname, variant))
                st.store[dst.key() + "#discr"] = Val(bvconst(table.index(variant), 64), ("bv", 64, True))
                base = dst.key() + "@" + variant
            for i, p in enumerate(split_top(m.group(3))):
                v = self.operand(st, fn, p, frame)
                self.put_at(st, base + ".%d" % i, v)
            return
        m = re.match(r"^([\w:]+?)(?:::<.*>)?::(\w+)$", rhs)
        if m:
            tyname = m.group(1).split("::")[-1]
            table = {"Option": ["None", "Some"]}.get(tyname) or self.enum_table(m.group(1))
            if table and m.group(2) in table:
                st.store[dst.key() + "#discr"] = Val(bvconst(table.index(m.group(2)), 64), ("bv", 64, True))
                return
        raise Untranslatable("rvalue: " + rhs)

    # ---- calls
    def find_callee(self, callee):
        base = re.sub(r"::<.*?>", "", callee)
        segs = [x for x in re.sub(r"<.*?>", "", base).split("::") if x]
        method = segs[-1]
        tyname = segs[-2] if len(segs) >= 2 else None
        cands = []
        for name, f in self.funcs.items():
            if not name.endswith("::" + method) and name != method:
                continue
            if tyname is None:
                cands.append(f)
            elif tyname in name.split("::") or (f.args and re.search(r"\b%s\b" % re.escape(tyname), f.args[0][1])) or re.search(r"\b%s\b" % re.escape(tyname), f.ret):
                cands.append(f)
        return cands

    def origin(self, st, key):
        """where an aggregate value came from: follows copy aliases (longest prefix first) to the place or call result"""
        for _ in range(32):
            best = None
            for a in st.alias:
                if (key == a or key[:len(a) + 1] in (a + ".", a + "@", a + "#", a + "[")) and (best is None or len(a) > len(best)):
                    best = a
            if best is None:
                return key
            key = st.alias[best] + key[len(best):]
        return key

    def describe_arg(self, st, v):
        if isinstance(v, Val):
            return ("val", v)
        if v[0] == "ref":
            return ("ref", v[1].key())
        if v[0] == "agg":
            return ("agg", self.origin(st, v[1].key()))
        return ("other", repr(v))

    def builtin(self, short, callee, args, st=None):
        """exact models of a few std functions that are not worth inlining"""
        if re.search(r"^<u64 as (std::convert::)?From<(varint::)?VarInt>>::from$|VarInt::into_inner$", callee) and st is not None and len(args) == 1 \
                and not isinstance(args[0], Val) and args[0][0] == "agg":
            # VarInt(u64) -> u64: the only field
            return self.read_key(st, args[0][1].key() + ".0", ("bv", 64, False))
        m = re.search(r"^<(SpaceId|Dir|Side|Timer) as (?:std::cmp::)?PartialEq>::(eq|ne)$", short)
        if m and st is not None and len(args) == 2 and all(not isinstance(a, Val) and a[0] == "ref" for a in args):
            # derived equality of a field-less enum behind references: equality of the discriminants
            i64 = ("bv", 64, True)
            e = "(= %s %s)" % (self.read_key(st, args[0][1].key() + "#discr", i64).t, self.read_key(st, args[1][1].key() + "#discr", i64).t)
            return Val(e if m.group(2) == "eq" else "(not %s)" % e, ("bool",))
        m = re.search(r"raw_eq::<\[u8; (\d+)\]>$", callee)
        if m and st is not None and int(m.group(1)) <= 32 and len(args) == 2 and all(not isinstance(a, Val) and a[0] == "ref" for a in args):
            # bytewise comparison of two fixed arrays behind references
            n = int(m.group(1))
            u8 = ("bv", 8, False)
            eqs = ["(= %s %s)" % (self.read_key(st, args[0][1].key() + "[%d]" % i, u8).t, self.read_key(st, args[1][1].key() + "[%d]" % i, u8).t) for i in range(n)]
            return Val("(and %s)" % " ".join(eqs), ("bool",))
        def const_of(v):
            m = re.match(r"^\(_ bv(\d+) (\d+)\)$", v.t) if isinstance(v, Val) else None
            return int(m.group(1)) if m else None
        if re.search(r"num::<impl u(8|16|32|64|128|size)>::pow$", callee) and len(args) == 2:
            a, b = const_of(args[0]), const_of(args[1])
            if a is not None and b is not None and a ** b < (1 << args[0].s[1]):
                return Val(bvconst(a ** b, args[0].s[1]), args[0].s)
            return None
        if all(isinstance(a, Val) and a.s[0] == "bv" for a in args) and len(args) == 2 and args[0].s == args[1].s:
            a, b = args
            w, sg = a.s[1], a.s[2]
            lt = "bvslt" if sg else "bvult"
            if re.search(r"(as Ord>::min|cmp::min)$", short):
                return Val("(ite (%s %s %s) %s %s)" % (lt, b.t, a.t, b.t, a.t), a.s)
            if re.search(r"(as Ord>::max|cmp::max)$", short):
                return Val("(ite (%s %s %s) %s %s)" % (lt, a.t, b.t, b.t, a.t), a.s)
            if re.search(r"intrinsics::saturating_add$", short) and not sg:
                return Val("(ite (bvult (bvadd %s %s) %s) %s (bvadd %s %s))" % (a.t, b.t, a.t, bvconst((1 << w) - 1, w), a.t, b.t), a.s)
            if re.search(r"intrinsics::saturating_sub$", short) and not sg:
                return Val("(ite (bvult %s %s) %s (bvsub %s %s))" % (a.t, b.t, bvconst(0, w), a.t, b.t), a.s)
        return None

    def do_call(self, st, fn, dst_text, callee, argtexts, frame):
        args = [self.operand(st, fn, a, frame) for a in argtexts]
        short = re.sub(r"::<.*?>", "", callee)
        bi = self.builtin(short, callee, args, st)
        if bi is not None:
            dstp = self.parse_place(st, fn, dst_text, frame)
            self.write_place(st, fn, dstp, bi, frame)
            return None
        # inline?
        if any(r.search(short) for r in self.inline):
            cands = self.find_callee(callee)
            cands = [c for c in cands if len(c.args) == len(args)]
            if len(cands) != 1:
                raise Untranslatable("cannot resolve callee %s (%d candidates)" % (callee, len(cands)))
            return ("inline", cands[0], args)
        dst = self.parse_place(st, fn, dst_text, frame)
        dty = self.type_of_place(fn, dst, frame)
        dsort = sort_of_type(dty) if dty else None
        desc = [self.describe_arg(st, a) for a in args]
        pure = any(r.search(short) for r in self.pure)
        if pure and dsort is None:
            # pure call with an aggregate result: no memory is havocked; the result's leaves are
            # input-like variables named after the call, so that pre-conditions can constrain them
            sig = (short + "(" + ",".join(d[1].t if d[0] == "val" else str(d[1]) for d in desc) + ")").replace("|", "/")
            self.clear_prefix(st, dst.key())
            st.alias[dst.key()] = "call:" + sig
            st.calls.append((short, desc, "call:" + sig, None))
            return None
        if pure:
            # uninterpreted: same callee + same argument identities/terms => same result variable
            sig = short + "(" + ",".join(d[1].t if d[0] == "val" else str(d[1]) for d in desc) + ")"
            name = "|call:%s|" % sig.replace("|", "/")
            self.decls[name] = dsort
            st.store[dst.key()] = Val(name, dsort)
            st.calls.append((short, desc, name, None))
            return None
        # havoc result and everything reachable through reference arguments (or, if the query
        # declares what the callee may modify, only that)
        snapshot = StoreSnapshot(st.store)        # the store as it was right before the call ...
        snapshot.epoch = dict(st.epoch)           # ... and which memory had been havocked by then
        limited = [v for r, v in self.modifies.items() if re.search(r, short)]
        # an argument of type `&T` (shared) is read-only for the callee: modelled state has no
        # interior mutability, so nothing behind it is havocked
        shared = []
        for a in argtexts:
            ty = None
            m = re.match(r"^(?:copy|move) (.*)$", a.strip())
            if m:
                try:
                    ty = self.type_of_place(fn, self.parse_place(st, fn, m.group(1), frame), frame)
                except Untranslatable:
                    ty = None
            ty = (ty or "").strip()
            shared.append(ty.startswith("&") and not ty.startswith("&mut") and not ty.startswith("&'") or bool(re.match(r"^&'\w+ (?!mut )", ty)))
        # references stored INSIDE an aggregate argument (a closure's captures, a struct of borrows): the callee may
        # write through them as well
        extra = []
        for a in args:
            if not isinstance(a, Val) and a[0] == "agg":
                k0 = a[1].key()
                for rk, target in st.refs.items():
                    if (rk == k0 or rk[:len(k0) + 1] in (k0 + ".", k0 + "@")) and rk not in st.shared:
                        extra.append(("ref", target.key()))
        for d, sh in list(zip(desc, shared)) + [(e, False) for e in extra]:
            if sh and not limited:
                continue
            if d[0] == "ref":
                prefixes = limited[0] if limited else [d[1]]
                for pre in prefixes:
                    st.epoch[pre] = st.epoch.get(pre, 0) + 1
                    for k in [k for k in st.store if has_prefix(k, pre)]:
                        del st.store[k]
        for k in [k for k in st.store if k == dst.key() or k[:len(dst.key()) + 1] in (dst.key() + ".", dst.key() + "@", dst.key() + "#", dst.key() + "[")]:
            del st.store[k]
        st.epoch[dst.key()] = st.epoch.get(dst.key(), 0) + 1
        if dsort is not None:
            st.store[dst.key()] = self.fresh("ret:" + short, dsort)
        st.calls.append((short, desc, dst.key(), snapshot))
        return None

    # ---- execution
    def run(self, fname_regex, start_line=None, end_line=None):
        """start_line / end_line = (source file suffix, line): execute only the slice of the function that begins at the
        first statement coming from that source line, from an ARBITRARY state (every local and all memory unconstrained),
        and ends at return, at a stop_at callee or right before the first statement of end_line"""
        matches = [f for n, f in self.funcs.items() if re.search(fname_regex, n)]
        if len(matches) != 1:
            # ambiguous or written against the signature: `name(_1: T1, _2: T2, ..)`
            matches = [f for n, f in self.funcs.items() if re.search(fname_regex, n + "(" + ", ".join("%s: %s" % (a[0], a[1]) for a in f.args) + ")")]
        if len(matches) != 1:
            raise Untranslatable("function pattern %r matches %d functions" % (fname_regex, len(matches)))
        fn = matches[0]
        st = State()
        self.paths = []
        self.slice_end = ([end_line] if (end_line and not isinstance(end_line, list)) else end_line) or None
        bb, first = "bb0", 0
        if start_line is not None:
            # blocks in breadth-first order from the entry: the slice starts at the EARLIEST statement of that line
            order, seen, queue = {}, {"bb0"}, ["bb0"]
            while queue:
                b = queue.pop(0)
                order[b] = len(order)
                term = fn.blocks.get(b, [""])[-1]
                term = re.sub(r"unwind: bb\d+", "", term)
                for nb in re.findall(r"\bbb\d+\b", term):
                    if nb not in seen and nb in fn.blocks:
                        seen.add(nb)
                        queue.append(nb)
            hit = None
            for b in sorted(order, key=lambda x: order[x]):
                for i, sl in enumerate(fn.srclines.get(b, [])):
                    if sl and sl[0].endswith(start_line[0]) and sl[1] == start_line[1]:
                        hit = (b, i)
                        break
                if hit:
                    break
            if hit is None:
                raise Untranslatable("no MIR statement for source line %s:%d in %s" % (start_line[0], start_line[1], fn.name))
            bb, first = hit
        self.exec_block(st, fn, bb, "", [], first)
        return fn, self.paths

    def exec_block(self, st, fn, bb, frame, stack, first=0):
        started = first > 0 or (frame == "" and not st.visited and self.slice_end is not None)
        while True:
            tag = frame + bb
            if tag in st.visited:
                if getattr(self, "loop_is_stop", False) and frame == "":
                    # the query asked for ONE iteration: re-entering a block ends the path (outcome "stop")
                    self.paths.append(Path(st, "stop", "loop back-edge at %s" % bb, fn))
                    return
                raise Untranslatable("loop at %s in %s" % (bb, fn.name))
            st.visited = st.visited + (tag,)
            if len(self.paths) > self.max_paths:
                raise Untranslatable("too many paths")
            stmts = fn.blocks.get(bb)
            if stmts is None:
                raise Untranslatable("missing block " + bb)
            try:
                sl = fn.srclines.get(bb) or []
                end = getattr(self, "slice_end", None)
                for k, s in enumerate(stmts[:-1]):
                    if k < first:
                        continue
                    if end and frame == "" and k < len(sl) and sl[k] and not (started and k == first) and any(sl[k][0].endswith(e[0]) and sl[k][1] == e[1] for e in end):
                        self.paths.append(Path(st, "stop", "end of slice at line %d" % sl[k][1], fn))
                        return
                    self.exec_stmt(st, fn, s, frame)
                k = len(stmts) - 1
                if end and frame == "" and k < len(sl) and sl[k] and not (started and k == first) and any(sl[k][0].endswith(e[0]) and sl[k][1] == e[1] for e in end):
                    self.paths.append(Path(st, "stop", "end of slice at line %d" % sl[k][1], fn))
                    return
                first, started = 0, False
            except Untranslatable as e:
                # the path must be shown infeasible by the query, otherwise the query is skipped
                self.paths.append(Path(st, "untranslatable", str(e), fn))
                return
            term = stmts[-1].rstrip(";")
            try:
                return self.exec_term(st, fn, bb, term, frame, stack)
            except Untranslatable as e:
                self.paths.append(Path(st, "untranslatable", str(e), fn))
                return

    def exec_term(self, st, fn, bb, term, frame, stack):
        if True:
            # ---- terminators
            m = re.match(r"^goto -> (bb\d+)$", term)
            if m:
                return self.exec_block(st, fn, m.group(1), frame, stack)
            if term == "return":
                if stack:
                    (cfn, cframe, cdst, cbb) = stack[-1]
                    # copy return value into caller destination
                    rty = fn.ret.strip()
                    rsort = sort_of_type(rty)
                    dst = self.parse_place(st, cfn, cdst, cframe)
                    if rsort is not None:
                        self.write_place(st, cfn, dst, self.read_key(st, frame + "_0", rsort), cframe)
                    elif rty != "()":
                        self.copy_aggregate(st, dst.key(), frame + "_0")
                    return self.exec_block(st, cfn, cbb, cframe, stack[:-1])
                self.paths.append(Path(st, "return", None, fn))
                return
            if term in ("unreachable", "resume") or term.startswith("unwind"):
                self.paths.append(Path(st, "unreachable", None, fn))
                return
            m = re.match(r"^switchInt\((.*)\) -> \[(.*)\]$", term)
            if m:
                v = self.operand(st, fn, m.group(1), frame)
                targets = split_top(m.group(2))
                taken = []
                for t in targets:
                    k, b = [x.strip() for x in t.split(":")]
                    if k == "otherwise":
                        cond = "(and %s)" % " ".join(["true"] + ["(not %s)" % c for c in taken])
                    else:
                        if v.s[0] == "bool":
                            cond = v.t if int(k) != 0 else "(not %s)" % v.t
                        else:
                            cond = "(= %s %s)" % (v.t, bvconst(int(k), v.s[1]))
                        taken.append(cond)
                    ns = st.clone()
                    ns.conds.append(cond)
                    self.exec_block(ns, fn, b, frame, stack)
                return
            m = re.match(r"^assert\((!?)(.*?), \"(.*?)\".*\) -> \[success: (bb\d+), unwind.*\]$", term)
            if m:
                v = self.operand(st, fn, m.group(2), frame)
                ok = "(not %s)" % v.t if m.group(1) else v.t
                bad = st.clone()
                bad.conds.append("(not %s)" % ok)
                self.paths.append(Path(bad, "panic", m.group(3), fn))
                if getattr(self, "release_arith", False) and re.match(r"^attempt to compute `\{\} [-+*] \{\}`", m.group(3)):
                    # the same arithmetic in a release build (overflow checks off) wraps and carries on: the checked
                    # operation's `.0` already holds the wrapped result
                    wrapped = st.clone()
                    wrapped.conds.append("(not %s)" % ok)
                    self.exec_block(wrapped, fn, m.group(4), frame, list(stack))
                st.conds.append(ok)
                return self.exec_block(st, fn, m.group(4), frame, stack)
            m = re.match(r"^drop\((.*)\) -> \[return: (bb\d+), unwind.*\]$", term)
            if m:
                return self.exec_block(st, fn, m.group(2), frame, stack)
            m = re.match(r"^(.*?) = (.*) -> \[return: (bb\d+), unwind.*\]$", term)
            if m and m.group(2).endswith(")"):
                dst_text, nxt = m.group(1), m.group(3)
                callexpr = m.group(2)
                # split `callee(args)` at the parenthesis matching the final one
                depth, k = 0, len(callexpr) - 1
                while k >= 0:
                    if callexpr[k] == ")":
                        depth += 1
                    elif callexpr[k] == "(":
                        depth -= 1
                        if depth == 0:
                            break
                    k -= 1
                callee, argtext = callexpr[:k], callexpr[k + 1:-1]
                if any(re.search(r, callee) for r in self.stop_at):
                    st.stop_args = [self.operand(st, fn, a, frame) for a in split_top(argtext)]
                    self.paths.append(Path(st, "stop", callee, fn))
                    return
                r = self.do_call(st, fn, dst_text, callee, split_top(argtext), frame)
                if r is not None:
                    _, cfn, args = r
                    nframe = "%s%s$%d/" % (frame, re.sub(r"\W", "_", cfn.name.split("::")[-1]), next(self.counter))
                    for (an, aty), av in zip(cfn.args, args):
                        if isinstance(av, Val):
                            st.store[nframe + an] = av
                        elif av[0] == "ref":
                            st.refs[nframe + an] = av[1]
                        elif av[0] == "agg":
                            self.copy_aggregate(st, nframe + an, av[1].key())
                        elif av[0] == "enum":
                            st.store[nframe + an + "#discr"] = Val(bvconst(av[2], 64), ("bv", 64, True))
                    return self.exec_block(st, cfn, "bb0", nframe, stack + [(fn, frame, dst_text, nxt)])
                return self.exec_block(st, fn, nxt, frame, stack)
            m = re.match(r"^(.*?)\((.*)\) -> unwind.*$", term) or re.match(r"^(.*?(?:expect_failed|unwrap_failed|panic\w*|slice_\w+_fail|handle_alloc_error|handle_error|capacity_overflow)(?:::<.*>)?)\((.*)\) -> bb\d+$", term)
            if m:
                self.paths.append(Path(st, "panic", "diverging call " + m.group(1), fn))
                return
            raise Untranslatable("terminator: " + term)

    def exec_stmt(self, st, fn, s, frame):
        s = s.rstrip(";")
        # pattern types in place annotations (`(u32) is 0..=999999999`): the base type is what matters here
        s = re.sub(r"\((u\d+|i\d+|usize|isize)\) is [-\d]+\.\.=?[-\d]*", r"\1", s)
        if s.startswith(("StorageLive", "StorageDead", "nop", "FakeRead", "PlaceMention", "Retag", "AscribeUserType", "Coverage", "ConstEvalCounter", "BackwardIncompatibleDropHint")):
            return
        if s.startswith("assume("):
            v = self.operand(st, fn, s[len("assume("):-1], frame)
            st.conds.append(v.t)
            return
        m = re.match(r"^copy_nonoverlapping\(dst = (.*), src = (.*), count = (.*)\)$", s)
        if m:
            # memcpy through raw pointers: the destination object becomes arbitrary
            d = self.operand(st, fn, m.group(1), frame)
            if isinstance(d, Val) or d[0] != "ref":
                raise Untranslatable("copy_nonoverlapping to a non-pointer")
            pre = d[1].key()
            st.epoch[pre] = st.epoch.get(pre, 0) + 1
            for k in [k for k in st.store if has_prefix(k, pre)]:
                del st.store[k]
            return
        m = re.match(r"^(.*?) = (.*)$", s)
        if not m:
            raise Untranslatable("statement: " + s)
        self.assign(st, fn, m.group(1), m.group(2), frame)


# ------------------------------------------------------------------------------------------------
# rust source helpers: enum variant order, struct field order


def scan_enums(src_root):
    import os
    enums = {}
    ambiguous = set()
    for d, _, files in os.walk(src_root):
        for fn in files:
            if not fn.endswith(".rs"):
                continue
            text = open(os.path.join(d, fn)).read()
            for m in re.finditer(r"\benum (\w+)(?:<[^>{;]*>)?\s*\{", text):
                i = m.end()
                depth, j = 1, i
                while depth and j < len(text):
                    if text[j] == "{":
                        depth += 1
                    elif text[j] == "}":
                        depth -= 1
                    j += 1
                body = re.sub(r"//[^\n]*", "", text[i:j - 1])
                body = re.sub(r"#\[[^\]]*\]", "", body)
                variants = []
                for part in split_top(body):
                    vm = re.match(r"^(\w+)", part.strip())
                    if vm:
                        variants.append(vm.group(1))
                if m.group(1) in enums and enums[m.group(1)] != variants:
                    ambiguous.add(m.group(1))
                enums[m.group(1)] = variants
                # also under `<module>::<Name>` (MIR prints paths relative to the crate root)
                rel = os.path.relpath(os.path.join(d, fn), src_root)[:-3].split(os.sep)
                if rel[-1] in ("mod", "lib"):
                    rel = rel[:-1]
                if rel:
                    enums[rel[-1] + "::" + m.group(1)] = variants
    for a in ambiguous:
        enums.pop(a, None)
    return enums


def struct_fields(src_file, struct_name, skip_cfg=("qlog",)):
    text = open(src_file).read()
    m = re.search(r"\bstruct %s\b[^{;]*\{" % re.escape(struct_name), text)
    if not m:
        raise Untranslatable("struct %s not found in %s" % (struct_name, src_file))
    i = m.end()
    depth, j = 1, i
    while depth:
        if text[j] == "{":
            depth += 1
        elif text[j] == "}":
            depth -= 1
        j += 1
    body = re.sub(r"//[^\n]*", "", text[i:j - 1])
    fields = []
    skip_next = False
    for part in split_top(body):
        attrs = re.findall(r"#\[([^\]]*)\]", part)
        skip = any("cfg(" in a and any(s in a for s in skip_cfg) for a in attrs)
        part = re.sub(r"#\[[^\]]*\]", "", part).strip()
        fm = re.match(r"^(?:pub(?:\([^)]*\))?\s+)?(\w+)\s*:", part)
        if fm and not skip:
            fields.append(fm.group(1))
    return fields
