"""Harness table support: one `H(...)` entry per solver obligation.

Every entry names a *harness body* that lives in /verif/hooks/<crate>/<module>.rs and is
compiled inside the real quinn crate (feature `__verif-hooks`), so the real functions are
called directly with access to private state.  The body is an ordinary Rust function over
scalar / array arguments; this table records the argument types so that

  * the Kani wrapper (`#[kani::proof]`, every argument = `kani::any()`) can be generated,
  * a counterexample (`--concrete-playback=print` byte vectors) can be decoded back into
    typed arguments and replayed natively against the same body.
"""
import re

PRIMS = {"u8": 1, "u16": 2, "u32": 4, "u64": 8, "u128": 16, "usize": 8, "i64": 8, "i32": 4, "bool": 1}


class Harness:
    def __init__(self, name, props, tier, fn, args, unwind, covers, funcs, bounds,
                 heavy=False, timeout=None, crate="quinn_proto", stubs=(), note="",
                 assumes=(), solver=None, unwind_probe=None):
        self.name = name
        self.props = props if isinstance(props, (list, tuple)) else [props]
        self.tier = tier            # "quick" (also run in thorough) or "thorough"
        self.fn = fn                # path below <crate>::verif::
        self.args = args            # [(name, type)]
        self.unwind = unwind
        self.covers = covers        # names of witness bits (bit i of the u32 result)
        self.funcs = funcs          # real functions encoded (for evidence)
        self.bounds = bounds        # stated bounds (for evidence)
        self.heavy = heavy
        self.timeout = timeout
        self.crate = crate
        self.stubs = stubs          # [(original path, stub fn name)]
        self.note = note
        self.assumes = list(assumes)
        self.solver = solver
        # (replay-only harness, {arg: value}): where the loop bound IS the property ("bounded step count per input"), a
        # failed unwinding assertion is a candidate; the named native body runs the operation under a watchdog
        self.unwind_probe = unwind_probe

    # ---- wrapper generation -------------------------------------------------
    def wrapper(self):
        out = ["#[cfg(kani)]", "#[kani::proof]", "#[kani::unwind(%d)]" % self.unwind]
        for orig, stub in self.stubs:
            out.append("#[kani::stub(%s, %s)]" % (orig, stub))
        if self.solver:
            out.append("#[kani::solver(%s)]" % self.solver)
        out.append("fn %s() {" % self.name)
        for arg in self.args:
            an, at = arg[0], arg[1]
            if len(arg) > 2:
                out.append("    let %s: %s = %s;" % (an, at, self.rust_literal(at, arg[2])))
            else:
                out.append("    let %s: %s = kani::any();" % (an, at))
        call = "%s::verif::%s(%s)" % (self.crate, self.fn, ", ".join(a[0] for a in self.args))
        out.append("    let r: u32 = %s;" % call)
        for i, c in enumerate(self.covers):
            if c is not None:      # None = this witness bit is not expected to be reachable for this instance
                out.append('    kani::cover!(r & %d != 0, "%s");' % (1 << i, c))
        out.append("}")
        return "\n".join(out)

    # ---- counterexample decoding ---------------------------------------------
    def decode(self, vecs):
        """vecs: list of byte lists as printed by concrete playback, in any() order."""
        vals = []
        it = iter(vecs)
        for arg in self.args:
            an, at = arg[0], arg[1]
            if len(arg) > 2:
                vals.append((an, at, arg[2]))   # concrete (enumerated) argument
                continue
            m = re.match(r"\[\s*(\w+)\s*;\s*(\d+)\s*\]$", at)
            if m:
                et, n = m.group(1), int(m.group(2))
                elems = []
                for _ in range(n):
                    v = next(it)
                    if len(v) != PRIMS[et]:
                        raise ValueError("width mismatch for %s" % an)
                    elems.append(int.from_bytes(bytes(v), "little"))
                vals.append((an, at, elems))
            else:
                v = next(it)
                if len(v) != PRIMS[at]:
                    raise ValueError("width mismatch for %s: %d vs %s" % (an, len(v), at))
                x = int.from_bytes(bytes(v), "little", signed=at.startswith("i"))
                vals.append((an, at, x))
        rest = list(it)
        if rest:
            raise ValueError("%d extra concrete values" % len(rest))
        return vals

    @staticmethod
    def rust_literal(at, v):
        m = re.match(r"\[\s*(\w+)\s*;\s*(\d+)\s*\]$", at)
        if m:
            if m.group(1) == "bool":
                return "[" + ", ".join("true" if x else "false" for x in v) + "]"
            return "[" + ", ".join("%d%s" % (x, m.group(1)) for x in v) + "]"
        if at == "bool":
            return "true" if v else "false"
        return "%d%s" % (v, at)


HARNESSES = []


def H(*a, **k):
    h = Harness(*a, **k)
    assert all(x.name != h.name for x in HARNESSES), "duplicate harness " + h.name
    HARNESSES.append(h)
    return h
