"""E2 driver: nightly MIR of /repo's current tree -> mir2smt -> z3 (cvc5 cross-check in thorough).

A query = one real function (by MIR name pattern) + a pre-condition + a post-condition over its
inputs, outputs and opaque-call results, written as SMT-LIB terms (see e2spec.py).  For every
path of the function the solver must refute `pre AND path-condition AND NOT post` (panic paths:
`pre AND path-condition` itself).  `unsat` on all = holds for every 64-/128-bit value; `sat` = a
model, which is handed to the native replay body named by the query.
"""
import os, re, sys, json, time, shutil, subprocess, hashlib

VERIF = os.path.dirname(os.path.dirname(os.path.abspath(__file__)))
REPO = os.environ.get("QUINN_REPO", "/repo")
BUILD = os.environ.get("VERIF_BUILD") or os.path.join(VERIF, ".build")
MIRDIR = os.path.join(BUILD, "mir")
sys.path.insert(0, os.path.join(VERIF, "mir2smt"))
import mir2smt
from mir2smt import Untranslatable

_cache = {}


MIRWS_TOML = """[package]
name = "quinn-verif-mir"
version = "0.0.0"
edition = "2021"
publish = false

[workspace]

[dependencies]
quinn-proto = { path = "%s/quinn-proto", default-features = false, features = ["bloom"] }
quinn-udp = { path = "%s/quinn-udp", default-features = false }

[patch.crates-io]
tracing = { path = "%s/kani/shims/tracing" }
"""


MIRWS_QUINN_TOML = """[package]
name = "quinn-verif-mir-quinn"
version = "0.0.0"
edition = "2021"
publish = false

[workspace]

[dependencies]
quinn = { path = "%s/quinn", default-features = false }
"""


def dump_mir(logdir, crate="quinn-proto"):
    """(Re)generates the MIR dump of quinn-proto (or quinn-udp) from the current working tree, built the same
    way as for Kani: no default features, `tracing` replaced by the no-op shim (logging has an empty body)."""
    os.makedirs(MIRDIR, exist_ok=True)
    out = os.path.join(MIRDIR, crate.replace("-", "_") + ".mir")
    tag = "" if os.path.abspath(REPO) == "/repo" else "-" + hashlib.sha256(os.path.abspath(REPO).encode()).hexdigest()[:8]
    ws = os.path.join(BUILD, ("mirws-quinn" if crate == "quinn" else "mirws") + tag)       # one workspace per source tree: concurrent runs on different trees never share one
    os.makedirs(os.path.join(ws, "src"), exist_ok=True)
    toml = (MIRWS_QUINN_TOML % REPO) if crate == "quinn" else (MIRWS_TOML % (REPO, REPO, VERIF))
    if not os.path.exists(os.path.join(ws, "Cargo.toml")) or open(os.path.join(ws, "Cargo.toml")).read() != toml:
        open(os.path.join(ws, "Cargo.toml"), "w").write(toml)
    open(os.path.join(ws, "src", "lib.rs"), "w").write("")
    shutil.copyfile(os.path.join(REPO, "Cargo.lock"), os.path.join(ws, "Cargo.lock"))
    tdir = os.path.join(BUILD, ("mir-target-quinn" if crate == "quinn" else "mir-target") + tag)
    # force rustc to run again for quinn-proto without touching files in /repo
    p = os.path.join(tdir, "debug", ".fingerprint")
    if os.path.isdir(p):
        for e in os.listdir(p):
            if e.startswith(crate + "-"):
                shutil.rmtree(os.path.join(p, e), ignore_errors=True)
    env = dict(os.environ, CARGO_TARGET_DIR=tdir, CARGO_NET_OFFLINE="true")
    env.pop("RUSTFLAGS", None)
    t0 = time.time()
    with open(out, "w") as fo, open(os.path.join(logdir, "mir_dump.log"), "w") as fe:
        rc = subprocess.call(["cargo", "+nightly", "rustc", "--offline", "-p", crate, "--lib", "--",
                              "-Zunpretty=mir", "-Zmir-opt-level=2", "-Zinline-mir=yes", "-Zmir-include-spans=yes", "-C", "overflow-checks=on", "-C", "debug-assertions=off"],
                             cwd=ws, stdout=fo, stderr=fe, env=env)
    if rc != 0 or os.path.getsize(out) < 20000:
        raise RuntimeError("MIR dump failed (rc=%d), see %s" % (rc, os.path.join(logdir, "mir_dump.log")))
    return out, time.time() - t0


def load(logdir, crate="quinn-proto"):
    if ("funcs", crate) not in _cache:
        path, dt = dump_mir(logdir, crate)
        t0 = time.time()
        _cache[("funcs", crate)] = mir2smt.parse_mir(path)
        _cache[("enums", crate)] = mir2smt.scan_enums(os.path.join(REPO, crate, "src"))
        _cache["dump_s"] = _cache.get("dump_s", 0) + dt
        _cache["parse_s"] = _cache.get("parse_s", 0) + time.time() - t0
    return _cache[("funcs", crate)], _cache[("enums", crate)]


class Ctx:
    """Helper handed to pre/post builders."""

    def __init__(self, ex, fn):
        self.ex, self.fn = ex, fn

    def field(self, src_rel, struct, name, crate="quinn-proto"):
        fields = mir2smt.struct_fields(os.path.join(REPO, crate, "src", src_rel), struct)
        if name not in fields:
            raise Untranslatable("field %s.%s not found" % (struct, name))
        return fields.index(name)

    def inp(self, key, sort):
        name = "|in:%s|" % key
        if name in self.ex.decls and self.ex.decls[name] != sort:
            raise Untranslatable("input %s at two sorts" % key)
        self.ex.decls[name] = sort
        return name

    def bv(self, v, w=64):
        return mir2smt.bvconst(v, w)


class PathView:
    def __init__(self, ctx, path):
        self.ctx, self.p = ctx, path

    def out(self, key, sort):
        """final value of a place (its input value if the path never wrote it)"""
        st = self.p.state
        if key in st.store:
            return st.store[key].t
        if mir2smt.havoc_epoch(st, key):
            raise Untranslatable("output %s was havocked by an opaque call" % key)
        return self.ctx.inp(key, sort)

    def ret(self, sub="", sort=None):
        st = self.p.state
        key = "_0" + sub
        if key in st.store:
            return st.store[key].t
        # aliases (returned aggregate copied from another local)
        try:
            return self.ctx.ex.read_key(st, key, sort).t
        except Untranslatable:
            raise

    def called(self, pattern):
        return [c for c in self.p.state.calls if re.search(pattern, c[0])]

    def call_result(self, pattern):
        cs = self.called(pattern)
        return cs[0][2] if cs else None


def run_solver(script, solver, timeout):
    t0 = time.time()
    if solver == "z3":
        cmd = ["/usr/bin/z3", "-in", "-smt2", "-T:%d" % timeout]
    else:
        cmd = ["cvc5", "--lang", "smt2", "--incremental", "--tlimit=%d" % (timeout * 1000)]
    try:
        p = subprocess.run(cmd, input=script, stdout=subprocess.PIPE, stderr=subprocess.STDOUT, text=True, timeout=timeout + 30)
        out = p.stdout
    except subprocess.TimeoutExpired:
        out = "timeout"
    return out, time.time() - t0


def and_(xs):
    xs = [x for x in xs if x and x != "true"]
    if not xs:
        return "true"
    if len(xs) == 1:
        return xs[0]
    return "(and %s)" % " ".join(xs)


def check_query(q, funcs, enums, tier, logdir):
    """returns a result dict (verdict holds / violation-candidate / inconclusive / not-translatable)"""
    t0 = time.time()
    res = dict(name=q["name"], function=q["func"], bounds=q["bounds"], functions_encoded=q.get("functions", []), obligation=q["name"])
    try:
        ex = mir2smt.Executor(funcs, enums, inline=q.get("inline", ()), pure=q.get("pure", ()), max_paths=q.get("max_paths", 4000))
        ctx = Ctx(ex, None)
        if q.get("modifies"):
            ex.modifies = q["modifies"](ctx)
        ex.stop_at = list(q.get("stop_at", ()))
        ex.loop_is_stop = bool(q.get("loop_is_stop"))
        ex.release_arith = bool(q.get("release_arith"))
        sl = el = None
        if q.get("start_line") or q.get("end_line"):
            # slice of a large function, located through source text so that unrelated edits do not move it
            src = os.path.join(REPO, q.get("crate", "quinn-proto"), "src", q["src"])
            lines = open(src).read().splitlines()
            def locate(rx, after=0, fuzzy=False):
                alts = rx if isinstance(rx, list) else [rx]
                code = lambda l: l.strip() and not l.strip().startswith("//")
                for r in alts:
                    # `(?#before)rx` / `(?#after)rx`: the nearest line of code before / after the first match of rx - anchors
                    # that survive an edit of the line itself
                    mode = re.match(r"^\(\?#(before|after)\)", r)
                    hits = [i + 1 for i, l in enumerate(lines) if i + 1 > after and re.search(r, l)]
                    if hits and not mode:
                        return hits[0]
                    if hits:
                        rng = range(hits[0] - 2, after - 1, -1) if mode.group(1) == "before" else range(hits[0], len(lines))
                        near = next((i + 1 for i in rng if code(lines[i])), None)
                        if near:
                            return near
                if fuzzy and after:
                    # the anchor line itself was edited: take the line of the same function that is closest to the
                    # anchor's literal text (reported in the result); a wrong guess can only produce a candidate that
                    # does not replay (inconclusive), never a pass
                    import difflib
                    lit = re.sub(r"\\(.)", r"\1", re.sub(r"^\^\s*|\$$|\(\?#\w+\)", "", alts[0])).strip()
                    end = next((i + 1 for i, l in enumerate(lines) if i + 1 > after and re.match(r"^    \}\s*$", l)), len(lines))
                    scored = sorted(((difflib.SequenceMatcher(None, lit, lines[i].strip()).ratio(), i + 1) for i in range(after, end)), reverse=True)
                    if scored and scored[0][0] >= 0.55 and (len(scored) < 2 or scored[0][0] - scored[1][0] >= 0.05):
                        res["slice_located_approximately"] = "anchor /%s/ not found; using line %d (%r, similarity %.2f)" % (alts[0], scored[0][1], lines[scored[0][1] - 1].strip()[:80], scored[0][0])
                        return scored[0][1]
                raise Untranslatable("source line /%s/ not found in %s" % (alts[0], q["src"]))
            base = locate(q["within"]) if q.get("within") else 0
            if q.get("start_line"):
                sl = (q["src"], locate(q["start_line"], base, fuzzy=True))
            if q.get("end_line"):
                ends = q["end_line"] if isinstance(q["end_line"], list) else [q["end_line"]]
                # an end marker may lie before the start (a loop head): each is searched from the function's first line
                el = [(q["src"], locate(rx, (sl[1] if sl else base) if not rx.startswith("(?#loophead)") else base)) for rx in ends]
        ctx.slice = dict(start=sl, ends=el)
        fn, paths = ex.run(q["func"], sl, el)
        ctx.fn = fn
        pre = q["pre"](ctx)
        items = []
        for i, p in enumerate(paths):
            pv = PathView(ctx, p)
            if q.get("assume") and p.outcome != "untranslatable":
                # contracts of opaque callees, stated over the actual arguments of this path
                p.state.conds.append(q["assume"](ctx, pv))
            if p.outcome == "unreachable":
                # rustc emits `unreachable` only where the type's validity invariant excludes the
                # branch (e.g. discriminant of an Option outside {0,1}); such paths are infeasible
                continue
            elif p.outcome == "untranslatable":
                if q.get("ignore_untranslatable") and re.search(q["ignore_untranslatable"], p.detail or ""):
                    # stated bound of the query: paths that enter this construct (e.g. a loop) are outside the claim
                    res["paths_outside_bound"] = res.get("paths_outside_bound", 0) + 1
                    continue
                items.append((i, p, None))
            elif p.outcome == "panic":
                allowed = q.get("allowed_panics")
                if allowed and re.search(allowed, p.detail or ""):
                    continue
                items.append((i, p, None))
            elif p.outcome == "stop" and not q.get("check_stop"):
                continue
            else:
                items.append((i, p, q["post"](ctx, pv)))
        decls = "".join("(declare-const %s %s)\n" % (n, mir2smt.smt_sort(s)) for n, s in sorted(ex.decls.items()))
        inputs = sorted(n for n in ex.decls if n.startswith("|in:") or n.startswith("|call:"))
        script = ["(set-logic ALL)", "(set-option :produce-models true)", decls, "(assert %s)" % pre]
        # vacuity twin: the pre-condition together with at least one returning path is satisfiable
        rets = [and_(p.state.conds) for (_, p, post) in items if post is not None]
        script.append("(push)\n(assert (or false %s))\n(check-sat)\n(pop)" % " ".join(rets))
        head = list(script)
        for (i, p, post) in items:
            script.append("(push)")
            script.append("(assert %s)" % and_(p.state.conds))
            if post is not None:
                script.append("(assert (not %s))" % post)
            script.append("(check-sat)")
            script.append("(pop)")
        text = "\n".join(script) + "\n"
        with open(os.path.join(logdir, "e2_%s.smt2" % q["name"]), "w") as f:
            f.write(text)
        res["paths"] = len(paths)
        res["queries"] = len(items) + 1
        res["smt_hash"] = hashlib.sha256(text.encode()).hexdigest()[:16]
        cap = q.get("timeout", 120 if tier == "quick" else 900)
        out, dt = run_solver(text, "z3", cap)
        res["solver_s"] = round(dt, 2)
        with open(os.path.join(logdir, "e2_%s.z3.out" % q["name"]), "w") as f:
            f.write(out)
        verdicts = parse_solver_output(out, len(items) + 1, False)
        if verdicts is None:
            res.update(verdict="inconclusive", why="solver output not understood / error / timeout: %s" % out[-300:].replace("\n", " "))
            return res
        res["z3"] = [v[0] for v in verdicts]
        if tier == "thorough" and shutil.which("cvc5"):
            out2, dt2 = run_solver(text.replace("(set-logic ALL)", "(set-logic QF_BV)"), "cvc5", cap)
            v2 = parse_solver_output(out2, len(items) + 1, False)
            if v2 is None:
                res.update(verdict="inconclusive", why="cvc5 output not understood / error / timeout: %s" % out2[-300:].replace("\n", " "))
                return res
            res["cvc5"] = [v[0] for v in v2]
            res["cvc5_s"] = round(dt2, 2)
            if [v[0] for v in v2] != [v[0] for v in verdicts]:
                res.update(verdict="inconclusive", why="z3 and cvc5 disagree: %s vs %s" % (res["z3"], res["cvc5"]))
                return res
        if verdicts is None or any(v[0] not in ("sat", "unsat") for v in verdicts):
            res.update(verdict="inconclusive", why="solver output not understood / error / timeout: %s" % out[-300:].replace("\n", " "))
            return res
        res["sat_twin"] = verdicts[0][0]
        if verdicts[0][0] != "sat":
            res.update(verdict="inconclusive", why="vacuous: pre-condition excludes every returning path")
            return res
        bad = [(items[k][0], items[k][1], items[k][2]) for k in range(len(items)) if verdicts[k + 1][0] == "sat"]
        if not bad:
            res.update(verdict="holds")
            return res
        # second pass: model of the first violated obligation
        if any(pp.outcome == "untranslatable" for (_, pp, _) in bad):
            pp = next(pp for (_, pp, _) in bad if pp.outcome == "untranslatable")
            res.update(verdict="not-translatable", why="a feasible path contains a construct outside the translator: " + str(pp.detail))
            return res
        # models of the first few violated obligations: each is a candidate input for the native replay (a candidate
        # that does not reproduce - e.g. an arithmetic panic only an over-approximated callee result can reach - must
        # not hide a later one that does)
        models = []
        for (bi, bp, bpost) in bad[:4]:
            s2 = list(head[:4]) + ["(assert %s)" % and_(bp.state.conds)] + (["(assert (not %s))" % bpost] if bpost is not None else []) + ["(check-sat)"]
            if inputs:
                s2.append("(get-value (%s))" % " ".join(inputs))
            out2, _ = run_solver("\n".join(s2) + "\n", "z3", cap)
            mv = parse_solver_output(out2, 1, bool(inputs))
            models.append(mv[0][1] if mv and mv[0][0] == "sat" else None)
        res["models"] = [dict(path=bi, outcome=bp.outcome, detail=bp.detail, model=m) for (bi, bp, _), m in zip(bad[:4], models)]
        i, p, _ = bad[0]
        model = models[0]
        res["counterexample_path"] = dict(index=i, outcome=p.outcome, detail=p.detail)
        res["model"] = {k: v for k, v in (model or {}).items()}
        res.update(verdict="candidate", why="path %d (%s%s) violates the post-condition" % (i, p.outcome, (": " + p.detail) if p.detail else ""))
        return res
    except Untranslatable as e:
        res.update(verdict="not-translatable", why=str(e))
        return res
    finally:
        res["wall_s"] = round(time.time() - t0, 2)


def parse_solver_output(out, n, with_values):
    if "(error" in out:
        return None
    toks = []
    lines = out.splitlines()
    i = 0
    while i < len(lines):
        l = lines[i].strip()
        if l in ("sat", "unsat", "unknown", "timeout"):
            model = None
            if l == "sat" and with_values:
                # read the balanced get-value s-expression that follows
                j = i + 1
                buf = ""
                depth = 0
                started = False
                while j < len(lines):
                    buf += lines[j] + "\n"
                    depth += lines[j].count("(") - lines[j].count(")")
                    started = True
                    j += 1
                    if started and depth <= 0:
                        break
                model = {}
                for m in re.finditer(r"\((\|[^|]*\|)\s+(#x[0-9a-fA-F]+|#b[01]+|true|false|\(_ bv(\d+) \d+\))\)", buf):
                    v = m.group(2)
                    if v.startswith("#x"):
                        model[m.group(1)] = int(v[2:], 16)
                    elif v.startswith("#b"):
                        model[m.group(1)] = int(v[2:], 2)
                    elif v in ("true", "false"):
                        model[m.group(1)] = 1 if v == "true" else 0
                    else:
                        model[m.group(1)] = int(m.group(3))
                i = j - 1
            toks.append((l, model))
        i += 1
    if len(toks) != n:
        return None
    return toks


def run(prop, tier, logdir, only=None):
    import e2spec
    qs = [q for q in e2spec.QUERIES if (prop in q["props"] if only is None else q["name"] in only) and (tier == "thorough" or q.get("tier", "quick") == "quick")]
    if not qs:
        return []
    results = []
    for q in qs:
        funcs, enums = load(logdir, q.get("crate", "quinn-proto"))
        r = check_query(q, funcs, enums, tier, logdir)
        r["engine"] = "mir2smt/z3"
        if r["verdict"] == "candidate":
            r = replay(q, r, prop if only is None else q["props"][0], logdir)
        elif r["verdict"] == "not-translatable":
            # every query translates on the pinned tree; if a source change puts the function outside
            # the translator the honest answer is "inconclusive" (exit 2), never a silent pass
            r["verdict"] = "inconclusive"
            r["why"] = "function no longer translatable: " + str(r.get("why"))
        results.append(r)
    return results


def replay(q, r, prop, logdir):
    """E2 counterexamples are replayed natively through the body named by the query."""
    import driver, spec
    rp = q.get("replay")
    if not rp:
        r.update(verdict="inconclusive", why=r["why"] + " (no native replay body for this query)")
        return r
    hname, argfn = rp
    if hname.startswith("quinn-test:"):
        return replay_quinn_test(q, r, prop, logdir, hname)
    h = next(x for x in spec.HARNESSES if x.name == hname)
    argsets = []
    try:
        for mm in ([x.get("model") for x in r.get("models", [])] or [r.get("model")]):
            a = argfn(mm or {})
            for one in ([a] if isinstance(a, dict) else a):
                if one not in argsets:
                    argsets.append(one)
    except Exception as e:  # noqa
        r.update(verdict="inconclusive", why=r["why"] + " (cannot map model to replay arguments: %r)" % (e,))
        return r
    # where opaque callees stand between the model and concrete inputs, the query names a few
    # candidate argument sets; the violation is reported only if one of them fails natively
    out, vals = None, None
    for k, argvals in enumerate(argsets):
        vals = []
        for arg in h.args:
            a, at = arg[0], arg[1]
            vals.append((a, at, arg[2] if len(arg) > 2 else argvals[a]))
        with driver.Lock("replay.lock"):
            out = driver.replay_native(h, vals, logdir, tag="e2_%s_%d" % (q["name"], k))
        if out.get("dev", {}).get("panicked"):
            break
    r["replay"] = {p: {k: v for k, v in d.items() if k != "output"} for p, d in out.items()}
    rfile = os.path.join(driver.OUT, "replay", "%s_E2_%s.json" % (prop, q["name"]))
    os.makedirs(os.path.dirname(rfile), exist_ok=True)
    json.dump(dict(property=prop, harness=h.name, fn=h.fn, crate=h.crate,
                   args=[[a, at, (v if isinstance(v, list) else str(v))] for a, at, v in vals], e2_query=q["name"], model=r.get("model"), replay=out),
              open(rfile, "w"), indent=1)
    r["replay_file"] = rfile
    if out.get("dev", {}).get("panicked"):
        known = driver.load_known()
        k = driver.match_known(known, prop, h, out, vals)
        if k:
            r.update(verdict="known-finding", known=k.get("what"))
        else:
            r.update(verdict="violation")
    else:
        r.update(verdict="inconclusive", why=r["why"] + " - but the model does not reproduce natively (encoding or replay mapping is wrong)")
    return r


class _TestHarness:
    """Stands in for a spec.Harness where the replay body is a test of the `quinn` crate (async layer)."""
    def __init__(self, name):
        self.name, self.fn, self.crate, self.args = name, name.split(":", 1)[1], "quinn", []


def replay_quinn_test(q, r, prop, logdir, hname):
    """Candidates of queries over the `quinn` crate are replayed by a test that drives the real async API
    over loopback sockets (hooks/quinn/tests.rs, included into quinn's test module behind `__verif-hooks`)."""
    import driver
    h = _TestHarness(hname)
    with driver.Lock("replay.lock"):
        out = driver.replay_quinn_test(h.fn, logdir, tag="e2_%s" % q["name"])
    r["replay"] = {p: {k: v for k, v in d.items() if k != "output"} for p, d in out.items()}
    rfile = os.path.join(driver.OUT, "replay", "%s_E2_%s.json" % (prop, q["name"]))
    os.makedirs(os.path.dirname(rfile), exist_ok=True)
    json.dump(dict(property=prop, harness=h.name, fn=h.fn, crate=h.crate, args=[], e2_query=q["name"], model=r.get("model"), replay=out),
              open(rfile, "w"), indent=1)
    r["replay_file"] = rfile
    if out.get("dev", {}).get("panicked"):
        known = driver.load_known()
        k = driver.match_known(known, prop, h, out, [])
        if k:
            r.update(verdict="known-finding", known=k.get("what"))
        else:
            r.update(verdict="violation")
    else:
        r.update(verdict="inconclusive", why=r["why"] + " - but the candidate does not reproduce natively (encoding or replay body is wrong)")
    return r


def setup():
    logdir = os.path.join(BUILD, "setup-logs")
    os.makedirs(logdir, exist_ok=True)
    try:
        dump_mir(logdir)
        dump_mir(logdir, "quinn-udp")
        dump_mir(logdir, "quinn")
        print("MIR dump ok")
        return 0
    except Exception as e:  # noqa
        print("MIR dump failed:", e)
        return 1
