"""The obligation table: every solver harness, which properties it serves, tier, bounds."""
from spec import H

# ------------------------------------------------------------------ varint (C10, C03)
H("varint_roundtrip", ["C10", "C03"], "quick", "varint::roundtrip", [("x", "u64")], 10,
  ["decoded", "8-byte form", "1-byte form"],
  ["VarInt::from_u64", "VarInt::size", "VarInt::encode", "VarInt::decode"],
  "every x: u64 (values >= 2^62 must be rejected by from_u64)")
H("varint_decode_total", ["C10", "C03"], "quick", "varint::decode_total", [("bytes", "[u8; 9]"), ("len", "usize")], 10,
  ["Ok", "UnexpectedEnd"],
  ["VarInt::decode"],
  "every buffer of 0..=9 arbitrary bytes")
