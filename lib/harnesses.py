"""The obligation table: every solver harness, which properties it serves, tier, bounds."""
from spec import H

# ------------------------------------------------------------------ varint (C10, C03)
H("varint_roundtrip", ["C10", "C03"], "quick", "varint::roundtrip", [("x", "u64")], 10,
  ["decoded", "8-byte form", "1-byte form"],
  ["VarInt::from_u64", "VarInt::size", "VarInt::encode", "VarInt::decode"],
  "every x: u64 (values >= 2^62 must be rejected by from_u64)")
H("varint_decode_total", ["C10", "C03"], "quick", "varint::decode_total", [("bytes", "[u8; 9]"), ("len", "usize")], 10,
  ["Ok", "UnexpectedEnd"],
  ["VarInt::decode"],
  "every buffer of 0..=9 arbitrary bytes")

# ------------------------------------------------------------------ spaces.rs: Dedup (C01.a, C04), PendingAcks (C03.f)
H("dedup_insert_step", ["C01", "C04"], "quick", "connection::spaces::dedup_insert_step",
  [("window", "u128"), ("next", "u64"), ("p", "u64"), ("q", "u64")], 4,
  ["reached", "duplicate via bitfield", "late fresh packet accepted", "jump beyond window", "left of window"],
  ["Dedup::insert", "Dedup::highest"],
  "every window: u128, next <= 2^62, packet numbers p, q < 2^62 (one inductive step from an arbitrary state)")
H("dedup_new_is_empty", ["C01", "C04"], "quick", "connection::spaces::dedup_new_is_empty", [("x", "u64")], 4,
  ["reached"], ["Dedup::new", "Dedup::insert"], "every x: u64 (base case of the induction)")
H("dedup_smallest_missing", ["C03"], "quick", "connection::spaces::dedup_smallest_missing",
  [("window", "u128"), ("next", "u64"), ("lo", "u64"), ("hi", "u64"), ("y", "u64")], 4,
  ["Some", "None"], ["Dedup::smallest_missing_in_interval", "Dedup::missing_in_interval"],
  "every window: u128, 1 <= next <= 2^62, lo <= hi <= next-1, witness y: u64")
H("pending_acks_packet_received", ["C03"], "quick", "connection::spaces::pending_acks_packet_received",
  [("window", "u128"), ("next", "u64"), ("pn", "u64"), ("ack_eliciting", "bool"), ("immediate", "bool"),
   ("eliciting", "u64"), ("non_eliciting", "u64"), ("threshold", "u64"), ("reordering", "u64"), ("armed", "bool"),
   ("has_le", "bool"), ("le", "u64"), ("has_la", "bool"), ("la", "u64")], 4,
  ["reached", "non-eliciting", "threshold exceeded", "older than previous largest", "no ack needed", "draft reordering rule"],
  ["PendingAcks::packet_received", "PendingAcks::is_out_of_order", "PendingAcks::can_send", "Dedup::smallest_missing_in_interval"],
  "every peer-chosen ack_eliciting_threshold / reordering_threshold < 2^62, counters < 2^62, any dedup state containing pn; ranges empty")
H("pending_acks_bookkeeping", ["C03"], "quick", "connection::spaces::pending_acks_bookkeeping",
  [("immediate", "bool"), ("eliciting", "u64"), ("non_eliciting", "u64"), ("threshold", "u64"), ("has_le", "bool"), ("le", "u64"), ("which", "u8")], 4,
  ["acks_sent", "max_ack_delay timeout", "lazy ack"],
  ["PendingAcks::acks_sent", "PendingAcks::on_max_ack_delay_timeout", "PendingAcks::maybe_ack_non_eliciting", "PendingAcks::can_send"],
  "all u64 counters")
H("detect_ecn", ["C03"], "quick", "connection::spaces::detect_ecn",
  [("newly_acked", "u64"), ("e0", "u64"), ("e1", "u64"), ("ce", "u64"), ("f0", "u64"), ("f1", "u64"), ("fce", "u64")], 4,
  ["Ok no congestion", "Ok congestion", "Err"], ["PacketSpace::detect_ecn", "PacketSpace::new"],
  "every ECN counter < 2^62 (varint domain), newly_acked: u64")
H("pn_filter_check_ack", ["C03", "C12"], "quick", "connection::spaces::pn_filter_check_ack",
  [("next_skipped", "u64"), ("has_prev", "bool"), ("prev", "u64"), ("exponent", "u32"), ("space", "u8"), ("lo", "u64"), ("hi", "u64"), ("next_pn", "u64")], 4,
  ["accepted", "rejected"], ["PacketNumberFilter::check_ack", "PacketNumberFilter::peek"],
  "all u64 values, all three spaces")
H("get_tx_number", ["C12"], "quick", "connection::spaces::get_tx_number", [("next_pn", "u64"), ("sent_with_keys", "u64")], 8,
  ["reached"], ["PacketSpace::get_tx_number"], "next_packet_number < 2^62-1")

# ------------------------------------------------------------------ packet.rs / shared.rs (C10, C01.b, C03)
H("pn_roundtrip", ["C10", "C01"], "quick", "packet::pn_roundtrip",
  [("n", "u64"), ("largest_acked", "u64"), ("expected", "u64")], 6,
  ["reached", "1-byte", "2-byte", "3-byte", "4-byte", "n below expected", "n above expected"],
  ["PacketNumber::new", "PacketNumber::len", "PacketNumber::tag", "PacketNumber::encode", "PacketNumber::decode_len",
   "PacketNumber::decode", "PacketNumber::expand"],
  "every largest_acked <= n < 2^62 with 2(n-largest_acked) < 2^32, every expected <= 2^62 with expected-hwin < n <= expected+hwin")
H("pn_decode_expand_total", ["C10", "C03"], "quick", "packet::pn_decode_expand_total",
  [("bytes", "[u8; 4]"), ("tag", "u8"), ("expected", "u64")], 6,
  ["1-byte", "2-byte", "3-byte", "4-byte"],
  ["PacketNumber::decode_len", "PacketNumber::decode", "PacketNumber::expand"],
  "every first-byte tag, every 4 wire bytes, every expected <= 2^62")
H("packet_header_decode_bounds_native", ["C03", "C10"], "replay-only", "packet::header_decode_bounds_native",
  [("first", "u8")], 4, [], ["PartialDecode::new", "ProtectedHeader::decode"], "native replay body of E2 query e2_header_decode_advance (loops over claimed token lengths and tails)")
H("long_type_roundtrip", ["C10"], "quick", "packet::long_type_roundtrip", [("b", "u8")], 4,
  ["Initial", "Retry", "Handshake", "0-RTT"], ["LongHeaderType::from_byte", "From<LongHeaderType> for u8"],
  "every first byte with the long-header bit set")
H("cid_long_roundtrip", ["C10"], "quick", "shared::cid_long_roundtrip", [("bytes", "[u8; 20]"), ("len", "usize")], 22,
  ["reached", "zero-length", "20 bytes"],
  ["ConnectionId::new", "ConnectionId::encode_long", "ConnectionId::decode_long", "ConnectionId::from_buf"],
  "every length 0..=20, every content")
H("cid_decode_long_total", ["C10", "C03"], "quick", "shared::cid_decode_long_total", [("buf", "[u8; 22]"), ("n", "usize")], 24,
  ["Some", "None"], ["ConnectionId::decode_long"], "every buffer of 0..=22 arbitrary bytes")

# ------------------------------------------------------------------ send_buffer.rs (C01.c)
H("sendbuf_poll_transmit_new", ["C01"], "quick", "connection::send_buffer::poll_transmit_new",
  [("offset", "u64"), ("unsent", "u64"), ("unacked_len", "usize"), ("max_len", "usize")], 12,
  ["reached", "length encoded", "length omitted (fills packet)", "partial", "8-byte offset"],
  ["SendBuffer::poll_transmit", "SendBuffer::has_unsent_data", "VarInt::size"],
  "every buffer state offset-unacked_len <= unsent <= offset < 2^62, 16 <= max_len <= 2^20; empty retransmit set")
H("sendbuf_accessors", ["C01"], "quick", "connection::send_buffer::accessors",
  [("offset", "u64"), ("unsent", "u64"), ("unacked_len", "usize")], 6, ["reached"],
  ["SendBuffer::offset", "SendBuffer::is_fully_acked", "SendBuffer::has_unsent_data", "SendBuffer::unacked"], "all u64 states")
# ------------------------------------------------------------------ streams/send.rs (C05.b, C11.a)
H("send_write", ["C05", "C11"], "quick", "connection::streams::send::write",
  [("kind", "u8"), ("stopped", "bool"), ("stop_code", "u64"), ("max_data", "u64"), ("offset", "u64"), ("limit", "u64"), ("src_len", "usize")], 6,
  ["accepted", "ClosedStream", "Stopped", "Blocked", "cut by stream credit", "cut by limit"],
  ["Send::write", "Send::is_writable", "SendBuffer::write", "SendBuffer::offset"],
  "every half-state, offset <= max_data < 2^62, any limit: u64, source length <= 65536 (one chunk, static bytes)")
H("send_half_state_ops", ["C11", "C05"], "quick", "connection::streams::send::half_state_ops",
  [("kind", "u8"), ("stopped", "bool"), ("stop_code", "u64"), ("fin_pending", "bool"), ("max_data", "u64"), ("offset", "u64"), ("op", "u8"), ("arg", "u64")], 6,
  ["finish", "reset", "try_stop", "increase_max_data", "queries"],
  ["Send::finish", "Send::reset", "Send::try_stop", "Send::increase_max_data", "Send::is_writable", "Send::is_reset", "Send::is_pending"],
  "every abstract half-state {Ready, DataSent{acked?}, ResetSent} x stopped? x every u64 argument < 2^62")
H("send_ack_completion", ["C11"], "quick", "connection::streams::send::ack_completion",
  [("kind", "u8"), ("fin", "bool"), ("outstanding", "bool")], 6,
  ["not complete", "complete"], ["Send::ack", "SendBuffer::ack", "SendBuffer::is_fully_acked"],
  "every half-state x fin x {0, 5} bytes outstanding; acknowledged range empty (range-set mechanics outside the claim)")

# ------------------------------------------------------------------ streams/recv.rs (C06.a, C01.d, C11.b)
H("recv_ingest_stopped", ["C06", "C01", "C11", "C03"], "quick", "connection::streams::recv::ingest_stopped",
  [("kind", "u8"), ("size", "u64"), ("sent_max", "u64"), ("end", "u64"), ("offset", "u64"), ("len", "u16"), ("fin", "bool"), ("received", "u64"), ("max_data", "u64")], 6,
  ["accepted", "offset overflow", "FINAL_SIZE_ERROR", "FLOW_CONTROL_ERROR", "pure duplicate", "fin"],
  ["Recv::ingest", "Recv::credit_consumed_by", "Recv::final_offset"],
  "stopped stream; every state with end <= sent_max <= 2^62 (and end <= final size), offset < 2^62, length <= 65535, received/max_data < 2^62")
H("recv_reset", ["C06", "C11", "C03"], "quick", "connection::streams::recv::reset",
  [("kind", "u8"), ("size", "u64"), ("code0", "u64"), ("sent_max", "u64"), ("end", "u64"), ("stopped", "bool"), ("final_offset", "u64"), ("code", "u64"), ("received", "u64"), ("max_data", "u64")], 6,
  ["reset accepted", "FINAL_SIZE_ERROR", "FLOW_CONTROL_ERROR", "redundant"],
  ["Recv::reset", "Recv::credit_consumed_by", "Recv::reset_code", "Recv::is_receiving"],
  "every state, final_offset/code < 2^62")
H("recv_stop", ["C06", "C11"], "quick", "connection::streams::recv::stop",
  [("kind", "u8"), ("size", "u64"), ("sent_max", "u64"), ("end", "u64"), ("bytes_read", "u64"), ("stopped", "bool")], 6,
  ["stopped now", "already stopped"], ["Recv::stop", "Assembler::clear", "Assembler::bytes_read"], "every state with bytes_read <= end; empty reassembly buffer")
H("recv_max_stream_data", ["C06"], "quick", "connection::streams::recv::max_stream_data",
  [("kind", "u8"), ("size", "u64"), ("sent_max", "u64"), ("end", "u64"), ("bytes_read", "u64"), ("stopped", "bool"), ("window", "u64"), ("sent_value", "u64")], 6,
  ["no update", "update wanted"], ["Recv::max_stream_data", "Recv::record_sent_max_stream_data", "Recv::can_send_flow_control"],
  "every state with sent_max <= bytes_read + window, window < 2^62")

# ------------------------------------------------------------------ streams/state.rs (C05.a, C06.b, C06.c)
H("streams_write_limit", ["C05"], "quick", "connection::streams::state::write_limit_and_max_data",
  [("max_data", "u64"), ("data_sent", "u64"), ("unacked", "u64"), ("send_window", "u64"), ("update", "u64")], 6,
  ["reached", "stale MAX_DATA", "no credit", "send window shrunk below unacked"],
  ["StreamsState::write_limit", "StreamsState::received_max_data"], "data_sent <= max_data < 2^62, every unacked/send_window: u64, update < 2^62")
H("streams_received_max_streams", ["C05", "C03"], "quick", "connection::streams::state::received_max_streams",
  [("uni", "bool"), ("cur", "u64"), ("count", "u64"), ("blocked", "bool")], 6,
  ["raised", "FRAME_ENCODING_ERROR", "stale"], ["StreamsState::received_max_streams"], "cur <= 2^60, every count: u64")
H("streams_validate_receive_id", ["C06", "C03"], "quick", "connection::streams::state::validate_receive_id",
  [("server", "bool"), ("raw_id", "u64"), ("next_bi", "u64"), ("max_remote_bi", "u64"), ("max_remote_uni", "u64")], 6,
  ["own bidi ok", "STREAM_STATE_ERROR", "STREAM_LIMIT_ERROR", "remote ok"], ["StreamsState::validate_receive_id", "StreamId::initiator", "StreamId::dir", "StreamId::index"],
  "every stream id < 2^62, both sides, every limit: u64")
H("streams_add_read_credits", ["C06"], "quick", "connection::streams::state::add_read_credits",
  [("local_max", "u64"), ("sent_max", "u64"), ("window", "u64"), ("debt", "u64"), ("credits", "u64")], 6,
  ["no update", "update wanted", "debt paid off", "limit beyond varint"], ["StreamsState::add_read_credits"],
  "sent_max <= local_max, sent_max/window < 2^62, every debt/credits: u64")
H("streams_set_receive_window", ["C06"], "quick", "connection::streams::state::set_receive_window",
  [("local_max", "u64"), ("window", "u64"), ("debt", "u64"), ("new_window", "u64")], 6,
  ["expanded", "shrunk"], ["StreamsState::set_receive_window"], "windows < 2^62, every local_max/debt: u64")
H("streams_queue_max_stream_id", ["C06"], "quick", "connection::streams::state::queue_max_stream_id",
  [("max_remote_bi", "u64"), ("sent_bi", "u64"), ("conc_bi", "u64"), ("max_remote_uni", "u64"), ("sent_uni", "u64"), ("conc_uni", "u64")], 6,
  ["reached", "bidi queued", "uni queued"], ["StreamsState::queue_max_stream_id"], "sent <= max_remote, all u64")
H("streams_zero_rtt_rejected_restart", ["C05", "C17"], "quick", "connection::streams::state::zero_rtt_rejected_restart",
  [("remembered_max_data", "u64"), ("early_sent", "u64"), ("early_unacked", "u64"), ("old_bi", "u64"), ("old_uni", "u64"), ("new_max_data", "u64"), ("new_bi", "u64"), ("new_uni", "u64")], 4,
  ["fresh limit lower than the remembered one", "fresh limit not lower"],
  ["StreamsState::zero_rtt_rejected", "StreamsState::set_params", "StreamsState::received_max_data"],
  "every remembered and fresh connection / stream-count limit < 2^62, every amount of early data sent and unacknowledged; no stream open (empty hash maps: the per-stream loops run zero times)")
H("streams_max_send_data", ["C05"], "quick", "connection::streams::state::max_send_data",
  [("server", "bool"), ("raw_id", "u64"), ("uni", "u64"), ("bidi_local", "u64"), ("bidi_remote", "u64")], 6,
  ["reached"], ["StreamsState::max_send_data", "StreamsState::is_local_unopened"], "every id/limit < 2^62")

# ------------------------------------------------------------------ mtud.rs (C13)
_M = [("current", "u16"), ("min_mtu", "u16"), ("enabled", "bool"), ("phase", "u8"), ("peer_max", "u16"), ("cfg_upper", "u16"),
      ("min_change", "u16"), ("lower", "u16"), ("upper", "u16"), ("last_probed", "u16"), ("in_flight", "bool"),
      ("in_flight_pn", "u64"), ("lost", "u8"), ("complete_secs", "u32"), ("interval_secs", "u32"), ("cooldown_secs", "u32"), ("ghost_min_peer", "u16")]
H("mtud_search_step", ["C13", "C16"], "quick", "connection::mtud::search_step",
  _M + [("op", "u8"), ("now_secs", "u32"), ("pn", "u64"), ("len", "u16"), ("space", "u8"), ("new_peer_max", "u16")], 8,
  ["reached", "probe retransmitted", "fresh probe size", "no probe", "probe acked: estimate raised", "probe lost", "discovery disabled", "peer limit received", "reset after path change"],
  ["MtuDiscovery::poll_transmit", "EnabledMtuDiscovery::poll_transmit", "SearchState::new", "SearchState::next_mtu_to_probe",
   "MtuDiscovery::on_acked", "EnabledMtuDiscovery::on_probe_acked", "MtuDiscovery::on_probe_lost", "MtuDiscovery::in_flight_mtu_probe",
   "MtuDiscovery::on_peer_max_udp_payload_size_received", "MtuDiscovery::reset"],
  "one step from EVERY state satisfying the representation invariant: all u16 sizes/configs (min_mtu, peer limit >= 1200), all phases, all u64 packet numbers, all u32-second instants")
H("mtud_new_establishes_inv", ["C13"], "quick", "connection::mtud::new_establishes_inv",
  [("initial", "u16"), ("min_mtu", "u16"), ("has_peer", "bool"), ("peer_max", "u16"), ("cfg_upper", "u16"), ("min_change", "u16"), ("disabled", "bool"), ("pn", "u64")], 8,
  ["reached", "first probe", "no probe", "disabled"],
  ["MtuDiscovery::new", "MtuDiscovery::disabled", "MtuDiscovery::poll_transmit", "SearchState::new"],
  "every validated configuration: 1200 <= min_mtu <= initial_mtu, peer limit >= 1200, upper bound <= 65527")
H("mtud_black_hole_step", ["C13"], "quick", "connection::mtud::black_hole_step",
  [("current", "u16"), ("min_mtu", "u16"), ("nbursts", "u8"), ("b0", "u16"), ("b1", "u16"), ("b2", "u16"), ("b3", "u16"),
   ("has_cur", "bool"), ("cur_size", "u16"), ("cur_pn", "u64"), ("largest_post_loss", "u64"), ("acked_mtu", "u16"),
   ("enabled", "bool"), ("op", "u8"), ("pn", "u64"), ("len", "u16"), ("now_secs", "u32"), ("cooldown_secs", "u32"), ("peer_max", "u16")], 8,
  ["reached", "loss extends burst", "loss starts burst", "non-probe acked", "black hole detected", "no black hole"],
  ["BlackHoleDetector::on_non_probe_lost", "BlackHoleDetector::on_non_probe_acked", "BlackHoleDetector::black_hole_detected",
   "BlackHoleDetector::finish_loss_burst", "MtuDiscovery::black_hole_detected", "EnabledMtuDiscovery::on_black_hole_detected"],
  "one step from every detector state with 0..=4 stored bursts, all u16 sizes, all u64 packet numbers (losses reported in increasing order)")
H("mtud_history_lossy_search", ["C13"], "thorough", "connection::mtud::history_all_probes_lost",
  [("initial", "u16"), ("cfg_upper", "u16"), ("min_change", "u16"), ("ack_below", "u16")], 66,
  ["reached", "a probe was acked", "a probe was lost", "search completed"],
  ["MtuDiscovery::new", "MtuDiscovery::poll_transmit", "MtuDiscovery::on_acked", "MtuDiscovery::on_probe_lost", "SearchState::next_mtu_to_probe"],
  "whole search histories from MtuDiscovery::new (<= 64 probes): initial = min_mtu in 1200..=1300, upper bound <= 1500, 1 <= minimum_change <= 32, every delivery threshold (probes below it are acked, others lost)",
  heavy=True)

# ------------------------------------------------------------------ ack_frequency.rs (C03.f)
H("ackfreq_candidate_max_ack_delay", ["C03"], "quick", "connection::ack_frequency::candidate_max_ack_delay",
  [("rtt_s", "u32"), ("rtt_ns", "u32"), ("peer_s", "u32"), ("peer_ns", "u32"), ("peer_tp_max_ack_delay_ms", "u16"), ("has_min", "bool"), ("min_ack_delay_us", "u32"), ("has_cfg", "bool"), ("cfg_s", "u32"), ("cfg_ns", "u32")], 8,
  ["reached", "peer minimum above automatic bound", "base value used"],
  ["AckFrequencyState::candidate_max_ack_delay", "Duration::clamp"],
  "every rtt / current delay / configured delay < 2^32 s at ns resolution; every peer (max_ack_delay < 2^14 ms, min_ack_delay <= max_ack_delay*1000 us) that TransportParameters::read accepts")
H("ackfreq_received", ["C03"], "quick", "connection::ack_frequency::ack_frequency_received",
  [("seq", "u64"), ("delay_us", "u32"), ("threshold", "u64"), ("reordering", "u64"), ("has_last", "bool"), ("last", "u64"), ("old_delay_us", "u16")], 8,
  ["adopted", "stale", "PROTOCOL_VIOLATION"],
  ["AckFrequencyState::ack_frequency_received", "PendingAcks::set_ack_frequency_params"], "sequence/thresholds < 2^62, requested delay < 2^32 us, previous delay < 2^16 us (full-width 64-bit division by 10^6 does not finish in the SAT back end)")
H("ackfreq_sender_bookkeeping", ["C03"], "quick", "connection::ack_frequency::sender_bookkeeping",
  [("peer_us", "u16"), ("has_in_flight", "bool"), ("in_pn", "u64"), ("in_us", "u16"), ("acked_pn", "u64"), ("next_seq", "u64"), ("sent_pn", "u64"), ("sent_us", "u16")], 8,
  ["reached", "request acknowledged"],
  ["AckFrequencyState::max_ack_delay_for_pto", "AckFrequencyState::on_acked", "AckFrequencyState::next_sequence_number", "AckFrequencyState::ack_frequency_sent"],
  "all durations < 2^16 us, all u64 packet numbers")

# ------------------------------------------------------------------ congestion controllers (C12.a)
H("bbr_new_window_native", ["C12"], "replay-only", "congestion::bbr::new_window_native",
  [("initial_window", "u32"), ("mtu", "u16")], 4, [], ["Bbr::new", "Bbr::window"], "native replay body of E2 query e2_bbr_new_window_floor")
H("controllers_new_window_floor", ["C12"], "quick", "congestion::new_reno::new_window_floor",
  [("kind", "u8"), ("initial_window", "u64"), ("mtu", "u16")], 6,
  ["NewReno", "Cubic"],
  ["NewReno::new", "Cubic::new", "Controller::window"],
  "every configured initial window below 2^62 and every initial MTU >= 1200, NewReno and Cubic (the base case the one-step obligations assume; Bbr::new: E2 query e2_bbr_new_window_floor)")
H("newreno_step", ["C12"], "quick", "congestion::new_reno::step",
  [("window", "u64"), ("ssthresh", "u64"), ("bytes_acked", "u64"), ("mtu", "u16"), ("recovery_secs", "u32"), ("op", "u8"),
   ("now_secs", "u32"), ("sent_secs", "u32"), ("bytes", "u32"), ("app_limited", "bool"), ("persistent", "bool"), ("ecn", "bool"), ("new_mtu", "u16"), ("factor_q", "u8")], 6,
  ["on_ack", "on_congestion_event", "on_mtu_update", "on_spurious_congestion_event"],
  ["NewReno::on_ack", "NewReno::on_congestion_event", "NewReno::on_mtu_update", "NewReno::window", "NewReno::minimum_window"],
  "one event from every state with 2*mtu <= window < 2^62, every ssthresh: u64, mtu/new_mtu >= 1200, acked/lost bytes < 2^32, loss_reduction_factor in {0, .25, .5, .75, 1}",
  assumes=["controller starts with window >= 2 * mtu - the base case, decided by controllers_new_window_floor / e2_bbr_new_window_floor"])
H("cubic_step", ["C12"], "quick", "congestion::cubic::step",
  [("window", "u64"), ("ssthresh", "u64"), ("cwnd_inc", "u64"), ("mtu", "u16"), ("has_rec", "bool"), ("recovery_secs", "u32"), ("w_max_q", "u32"),
   ("has_prior", "bool"), ("prior_window", "u64"), ("op", "u8"), ("now_secs", "u32"), ("sent_secs", "u32"), ("bytes", "u32"), ("persistent", "bool"), ("ecn", "bool"), ("new_mtu", "u16")], 6,
  ["slow-start ack", "on_congestion_event", "on_mtu_update", "on_spurious_congestion_event"],
  ["Cubic::on_ack (slow start)", "Cubic::on_congestion_event", "Cubic::on_spurious_congestion_event", "Cubic::on_mtu_update", "Cubic::window", "State::cubic_k"],
  "one event from every state with 2*mtu <= window < 2^40, mtu/new_mtu >= 1200; congestion-avoidance branch of on_ack outside the claim", timeout=900,
  stubs=[("f64::cbrt", "cbrt_any")], assumes=["f64::cbrt is stubbed by an arbitrary f64 (over-approximation; CBMC has no model of the C cbrt function)"])
H("bbr_window_step", ["C12"], "quick", "congestion::bbr::window_step",
  [("initial_window", "u64"), ("mtu", "u16"), ("mode", "u8"), ("rec", "u8"), ("cwnd", "u64"), ("recovery_window", "u64"), ("op", "u8"), ("new_mtu", "u16"), ("acked", "u32"), ("lost", "u32"), ("in_flight", "u32")], 6,
  ["on_mtu_update", "calculate_recovery_window", "mtu update while in recovery outside Startup"],
  ["Bbr::on_mtu_update", "Bbr::window", "Bbr::calculate_recovery_window", "calculate_min_window"],
  "one step from every state with cwnd >= 4*mtu (and recovery_window >= 4*mtu while in recovery), modes Startup/Drain/ProbeBw (ProbeRtt's f64 BDP target outside the claim), mtu/new_mtu >= 1200")

# ------------------------------------------------------------------ paths.rs (C07.a, C12.b, C03)
H("path_anti_amplification", ["C07"], "quick", "connection::paths::anti_amplification",
  [("validated", "bool"), ("total_sent", "u64"), ("total_recvd", "u64"), ("bytes_to_send", "u64")], 6,
  ["unvalidated within budget", "blocked", "validated"], ["PathData::anti_amplification_blocked"],
  "every counter < 2^62 (overflow of 3*total_recvd needs >= 2^64/3 received bytes on one unvalidated path: outside the bound)")
H("path_in_flight_accounting", ["C12", "C15"], "quick", "connection::paths::in_flight_accounting",
  [("bytes", "u64"), ("ack_eliciting", "u64"), ("path_gen", "u64"), ("pkt_gen", "u64"), ("size", "u16"), ("eliciting", "bool")], 6,
  ["same path: exact inverse", "other path generation: untouched"], ["InFlight::insert", "InFlight::remove", "PathData::remove_in_flight"],
  "every counter < 2^62, every packet size: u16, every generation pair")
H("path_responses", ["C03"], "quick", "connection::paths::path_responses",
  [("p1", "u64"), ("t1", "u64"), ("port1", "u16"), ("p2", "u64"), ("t2", "u64"), ("port2", "u16"), ("on_port", "u16")], 20,
  ["reached", "same remote coalesced", "on-path pop", "off-path pop"],
  ["PathResponses::push", "PathResponses::pop_on_path", "PathResponses::pop_off_path"], "two challenges, arbitrary packet numbers/tokens/ports")

# ------------------------------------------------------------------ timer.rs, idle negotiation (C08)
H("timer_table", ["C08"], "quick", "connection::timer::table",
  [("i0", "u8"), ("s0", "u32"), ("i1", "u8"), ("s1", "u32"), ("i2", "u8"), ("s2", "u32"), ("n2", "u32"),
   ("stop", "u8"), ("q", "u8"), ("now_s", "u32"), ("now_n", "u32")], 12,
  ["reached", "nothing armed", "same timer set twice", "something expired"],
  ["TimerTable::set", "TimerTable::get", "TimerTable::stop", "TimerTable::next_timeout", "TimerTable::is_expired", "Timer::VALUES"],
  "three sets + one stop over all 9 timers, instants = arbitrary (u32 s, ns < 10^9) offsets from a base instant")
H("negotiate_idle_timeout", ["C08"], "quick", "connection::negotiate_idle",
  [("has_x", "bool"), ("x", "u16"), ("has_y", "bool"), ("y", "u16")], 6,
  ["some timeout", "no timeout"], ["negotiate_max_idle_timeout"], "both values absent or any u16 milliseconds (wider values put 64-bit divisions by 1000 from Duration::from_millis into the formula)")

# ------------------------------------------------------------------ cid_queue.rs (C03.g, C09)
H("cidq_insert_step", ["C03", "C09", "C04"], "quick", "cid_queue::insert_step",
  [("cursor", "u8"), ("offset", "u32"), ("occ", "[bool; 5]"), ("tag", "[u8; 5]"), ("has_tok", "[bool; 5]"),
   ("sequence", "u32"), ("retire_prior_to", "u32"), ("new_tag", "u8"), ("probe", "u8")], 22,
  ["stored, nothing retired", "Retired", "ExceedsLimit", "retired range reported"],
  ["CidQueue::insert", "CidQueue::iter", "CidQueue::active", "CidQueue::active_seq"],
  "one step from every ring state satisfying the invariant (any cursor, any occupancy of the 5 slots), offset / retire_prior_to <= sequence < 2^32; CIDs are 8 bytes built from one symbolic tag byte per slot",
  unwind_probe=("cidq_insert_step_count_native", {"retire_prior_to": (1 << 62) - 1}))
H("cidq_insert_step_count_native", ["C03"], "replay-only", "cid_queue::insert_step_count_native",
  [("retire_prior_to", "u64")], 4, [], ["CidQueue::insert"], "native probe run when the unwinding assertion of cidq_insert_step fails: the insertion must return within 10 s for retire_prior_to = 2^62 - 1")
H("cidq_next_step", ["C03", "C09"], "quick", "cid_queue::next_step",
  [("cursor", "u8"), ("offset", "u64"), ("occ", "[bool; 5]"), ("tag", "[u8; 5]"), ("has_tok", "[bool; 5]")], 22,
  ["switched", "no other CID"], ["CidQueue::next", "CidQueue::iter", "CidQueue::active"],
  "one step from every ring state satisfying the invariant")
H("cidq_new_is_valid", ["C03", "C09"], "quick", "cid_queue::new_is_valid", [("t0", "u8"), ("t1", "u8")], 22,
  ["reached"], ["CidQueue::new", "CidQueue::update_initial_cid", "CidQueue::next"], "base case of the induction")

# ------------------------------------------------------------------ constant_time.rs / token.rs (C04, C14)
H("constant_time_eq", ["C04", "C14"], "quick", "constant_time::eq_is_equality",
  [("a", "[u8; 16]"), ("b", "[u8; 16]"), ("la", "usize"), ("lb", "usize")], 18,
  ["equal", "different"], ["constant_time::eq", "constant_time_ne", "ResetToken::eq"], "every pair of byte strings of length 0..=16")
H("path_amplification_allowance", ["C07"], "quick", "connection::paths::amplification_allowance",
  [("total_sent", "u64"), ("total_recvd", "u64"), ("segment_size", "u16"), ("k", "u8")], 6,
  ["gate passes", "gate blocks"], ["PathData::anti_amplification_blocked"],
  "every counter < 2^62, every segment size: u16, batches of up to 10 datagrams",
  assumes=["the gate argument `segment_size * num_datagrams + 1` is copied from the call site in Connection::poll_transmit (the call site itself is not encoded)"])

# ------------------------------------------------------------------ datagrams.rs (C16.a, C06.d)
# (dgram_received - the Kani form of DatagramState::received - was retired with fix 19: the repaired function has two
#  drop loops over the VecDeque and CBMC's solver runs out of memory on it even with a concrete queue shape; the E2 query
#  e2_dgram_received_bounds decides refusal, both bounds, drop-only-when-needed and what is appended)
H("dgram_received_count_native", ["C03", "C06", "C16"], "replay-only", "connection::datagrams::received_count_native",
  [("window", "u16"), ("n", "u16")], 4, [], ["DatagramState::received", "DatagramState::recv"], "native replay body of E2 query e2_dgram_received_bounds; demonstration for finding 19")
H("dgram_recv_in_order", ["C16"], "quick", "connection::datagrams::recv_in_order",
  [("k", "u8"), ("l0", "u8"), ("l1", "u8")], 6,
  ["empty queue", "one datagram", "two datagrams"], ["DatagramState::recv"], "0..=2 datagrams buffered, every length: u8")
H("dgram_send_space", ["C16"], "quick", "connection::datagrams::send_space",
  [("k", "u8"), ("l0", "u8"), ("l1", "u8"), ("len", "usize"), ("bound", "usize")], 6,
  ["reached", "oldest dropped", "had space"],
  ["DatagramState::has_send_buffer_space", "DatagramState::make_space_for"], "0..=1 datagram queued, every length: u8, every len/bound: usize")
H("dgram_write_native", ["C16", "C13"], "replay-only", "connection::datagrams::write_native",
  [("l0", "u8"), ("used", "u8"), ("max_size", "u16")], 6, [], ["DatagramState::write", "Datagram::size", "Datagram::encode"], "native replay body of E2 query e2_dgram_write")
H("dgram_drop_oversized_native", ["C16", "C13"], "replay-only", "connection::datagrams::drop_oversized_native",
  [("first_big", "bool")], 6, [], ["DatagramState::drop_oversized"], "native replay body of E2 queries e2_drop_oversized_whole_queue / e2_drop_oversized_predicate")
H("dgram_send_space_overflow_guard", ["C16"], "quick", "connection::datagrams::send_space_overflow_guard",
  [("total", "usize"), ("len", "usize"), ("bound", "usize")], 6, ["space", "no space"],
  ["DatagramState::has_send_buffer_space"], "every usize triple")

# ------------------------------------------------------------------ frame.rs (C10, C03.b)
# NOTE: every obligation that goes through frame::Iter (which owns a `Bytes`) was removed from the table: even with
# static-backed Bytes and one-byte varints a single frame class exhausts 20 GB in CBMC's propositional conversion after
# ~12 minutes (measured 2026-09-26).  The bodies remain in hooks/proto/frame.rs (fixed_frame_roundtrip, new_cid_roundtrip,
# stream_roundtrip, iter_step_total) for a future engine.
H("ack_scan_and_iter_small", ["C03", "C10"], "quick", "frame::ack_scan_and_iter",
  [("buf", "[u8; 12]"), ("len", "usize"), ("largest", "u64"), ("n", "u8"), ("small", "bool", 1)], 7,
  ["accepted", "rejected", "with extra blocks"], ["scan_ack_blocks", "AckIter::next", "VarInt::decode"],
  "every buffer of 0..=12 bytes each < 0x40 (one-byte varints), largest < 2^62, 0..=3 announced extra blocks")
H("ack_scan_and_iter", ["C03", "C10"], "thorough", "frame::ack_scan_and_iter",
  [("buf", "[u8; 12]"), ("len", "usize"), ("largest", "u64"), ("n", "u8"), ("small", "bool", 0)], 7,
  ["accepted", "rejected", "with extra blocks"], ["scan_ack_blocks", "AckIter::next", "VarInt::decode"],
  "every buffer of 0..=12 arbitrary bytes (all varint widths), largest < 2^62, 0..=3 announced extra blocks", heavy=True, timeout=1700)
# NOTE ack_blocks_roundtrip (thorough-only) retired: CBMC times out on it at the thorough cap in this sandbox (final sweep), so it only ever made `./check C10 thorough` inconclusive.
H("stream_type_bits", ["C10"], "quick", "frame::stream_type_bits", [("ty", "u64")], 4,
  ["STREAM", "DATAGRAM", "other"], ["FrameType::stream", "FrameType::datagram", "StreamInfo", "DatagramInfo"], "every u64 frame type")
H("recv_reinit", ["C06", "C11"], "quick", "connection::streams::recv::reinit",
  [("kind", "u8"), ("size", "u64"), ("code", "u64"), ("sent_max", "u64"), ("end", "u64"), ("bytes_read", "u64"), ("stopped", "bool"), ("initial_max_data", "u64")], 6,
  ["reached"], ["Recv::reinit", "Recv::new", "Assembler::reinit"], "every previous state, every new initial limit: u64")

# ------------------------------------------------------------------ native replay bodies for E2 queries (never run under Kani)
H("streams_stream_freed_native", ["C11"], "replay-only", "connection::streams::state::stream_freed_native",
  [("server", "bool"), ("raw_id", "u64"), ("half_recv", "bool"), ("other_present", "bool")], 4, [],
  ["StreamsState::stream_freed"], "native replay body of E2 query e2_stream_freed")
H("streams_sendstream_reset_native", ["C05"], "replay-only", "connection::streams::sendstream_reset_native",
  [("written", "u8"), ("other_data_sent", "u16")], 4, [],
  ["SendStream::reset"], "native replay body of E2 query e2_sendstream_reset")
H("sendbuf_poll_transmit_retransmit_native", ["C01"], "replay-only", "connection::send_buffer::poll_transmit_native",
  [("offset", "u64"), ("unsent", "u64"), ("max_len", "usize"), ("has_range", "bool"), ("lo", "u64"), ("hi", "u64")], 4, [],
  ["SendBuffer::poll_transmit"], "native replay body of E2 query e2_sendbuf_poll_transmit")
H("endpoint_stateless_reset_native", ["C03", "C07"], "replay-only", "endpoint::stateless_reset_native",
  [("inciting_len", "u16")], 4, [], ["Endpoint::stateless_reset"], "native replay body of E2 query e2_stateless_reset")
H("endpoint_add_connection_cids_native", ["C09", "C08"], "replay-only", "endpoint::add_connection_cids_native",
  [("pref", "bool")], 4, [], ["Endpoint::add_connection", "Endpoint::send_new_identifiers", "ConnectionIndex::remove"], "native replay body of E2 slice query e2_endpoint_add_connection_cids_slice")
H("endpoint_connect_failure_native", ["C09"], "replay-only", "endpoint::connect_failure_native",
  [("x", "u8")], 4, [], ["Endpoint::connect", "Endpoint::new_cid"], "native replay body of E2 query e2_endpoint_connect_cid_leak; demonstration for finding 16")
H("endpoint_retire_and_drained_native", ["C09", "C08"], "replay-only", "endpoint::retire_and_drained_native",
  [("allow_more", "bool")], 4, [], ["Endpoint::handle_event", "Endpoint::send_new_identifiers", "ConnectionIndex::retire", "ConnectionIndex::remove"], "native replay body of E2 query e2_endpoint_retire_and_drained_events")
H("token_ip_roundtrip", ["C10", "C14"], "quick", "token::ip_roundtrip",
  [("v6", "bool"), ("bytes", "[u8; 16]")], 20, ["IPv4", "IPv6"], ["token::encode_ip", "token::decode_ip"],
  "every IPv4 and every IPv6 address (all 128 bits symbolic, IPv4-mapped ones included)")
H("token_bloom_fractional_lifetime_native", ["C14"], "replay-only", "token::bloom_fractional_lifetime_native",
  [("x", "u8")], 4, [], ["BloomTokenLog::check_and_insert"], "native replay body of E2 query e2_bloom_period_index (replay workspace builds quinn-proto with its `bloom` feature)")
H("token_bloom_replay_native", ["C14"], "replay-only", "token::bloom_replay_native",
  [("n", "u16"), ("budget", "u16")], 4, [], ["BloomTokenLog::check_and_insert", "Filter::check_and_insert"], "native replay body of E2 query e2_bloom_filter_check_and_insert (replay workspace builds quinn-proto with its `bloom` feature)")
H("token_from_header_native", ["C14"], "replay-only", "token::from_header_native",
  [("retry", "bool"), ("same_ip", "bool"), ("same_port", "bool"), ("age", "u16"), ("lifetime", "u16"), ("log_ok", "bool"), ("corrupt", "bool")], 4, [],
  ["IncomingToken::from_header", "Token::encode", "Token::decode"], "native replay body of E2 query e2_token_from_header")

# ------------------------------------------------------------------ quinn-udp (C19)
H("udp_cmsg_encode_iter_roundtrip", ["C19"], "quick", "cmsg::encode_iter_roundtrip",
  [("v6", "bool"), ("use_tos", "bool"), ("tos", "i32"), ("use_seg", "bool"), ("seg", "u16"), ("use_pktinfo", "bool"), ("addr4", "u32"), ("addr6", "[u8; 16]"), ("ifindex", "u32")], 20,
  ["reached", "TOS/TCLASS", "UDP_SEGMENT", "PKTINFO"],
  ["cmsg::Encoder::new", "cmsg::Encoder::push", "cmsg::Encoder::finish (Drop)", "cmsg::Iter::new", "cmsg::Iter::next", "cmsg::decode", "libc::CMSG_FIRSTHDR/NXTHDR/DATA/LEN/SPACE"],
  "every subset of {TOS|TCLASS c_int, UDP_SEGMENT u16, in_pktinfo|in6_pktinfo} in prepare_msg's order, every value; cmsg::LEN-byte control buffer; Kani pointer checks on",
  crate="quinn_udp")
H("udp_decode_recv_meta", ["C19"], "quick", "unix::decode_recv_meta",
  [("len", "u16"), ("use_tos", "bool"), ("tos", "u8"), ("use_gro", "bool"), ("gro", "u16"), ("use_pktinfo", "bool"), ("dst", "u32"), ("ifindex", "u32"), ("port", "u16"), ("src", "u32")], 20,
  ["reached", "ECN", "GRO stride", "PKTINFO"],
  ["decode_recv", "ControlMetadata::decode", "decode_socket_addr", "cmsg::Iter", "cmsg::decode", "EcnCodepoint::from_bits"],
  "every subset of {IP_TOS u8, UDP_GRO c_int, in_pktinfo}, every value, AF_INET source address", crate="quinn_udp")
H("udp_recv_ctrl_capacity", ["C19"], "quick", "unix::recv_ctrl_capacity",
  [("v6", "bool"), ("ts", "bool"), ("secs", "i64"), ("nsecs", "u32"), ("gro", "bool"), ("seg", "u16"), ("tos", "u8"), ("ifindex", "u32"), ("dst4", "u32"), ("port", "u16"), ("src", "u32")], 20,
  ["IPv6 set", "IPv4 set", "GRO batch", "timestamp"],
  ["cmsg::LEN (receive control buffer)", "cmsg::Encoder::push (capacity assertion)", "decode_recv", "ControlMetadata::decode"],
  "every subset of {SCM_TIMESTAMPNS timespec, UDP_GRO c_int} followed by {in_pktinfo, IP_TOS u8} or {in6_pktinfo, IPV6_TCLASS c_int}, every value; WHICH messages the kernel attaches is a model of Linux written in the harness (FFI)",
  crate="quinn_udp")
H("udp_decode_socket_addr_fields", ["C19"], "quick", "unix::decode_socket_addr_fields",
  [("v6", "bool"), ("a6", "[u8; 16]"), ("a4", "[u8; 4]"), ("port", "u16"), ("flowinfo", "u32"), ("scope", "u32")], 20,
  ["IPv6", "IPv4"],
  ["decode_socket_addr"],
  "every IPv6 address / port / flow label / scope id and every IPv4 address / port",
  crate="quinn_udp")
H("udp_prepare_msg_encoding", ["C19"], "quick", "unix::prepare_msg_encoding",
  [("dst_v6", "bool"), ("mapped", "bool"), ("dst", "[u8; 4]"), ("port", "u16"), ("ecn", "u8"), ("len", "usize"), ("has_seg", "bool"), ("seg", "usize"),
   ("src_kind", "u8"), ("src4", "[u8; 4]"), ("src6", "[u8; 16]"), ("einval", "bool")], 20,
  ["reached", "TOS/TCLASS", "UDP_SEGMENT", "IPv4 source", "IPv6 source"],
  ["prepare_msg", "gso::set_segment_size", "Transmit::effective_segment_size", "cmsg::Encoder", "cmsg::Iter", "cmsg::decode", "EcnCodepoint::from_bits"],
  "every destination (IPv4 / IPv4-mapped / IPv6, any port), every ECN codepoint or none, payload 1..=64 bytes, every segment size, explicit IPv4 / IPv6 source or none, sendmsg_einval on/off",
  crate="quinn_udp")
H("udp_gso_probe_native", ["C19"], "replay-only", "unix::gso_probe_native",
  [("x", "u8")], 4, [], ["UdpSocketState::new", "gso::max_gso_segments"], "native replay body of E2 query e2_gso_probe_leaves_socket_clean (real loopback socket, getsockopt)", crate="quinn_udp")
H("udp_effective_segment_size", ["C19"], "quick", "effective_segment_size",
  [("len", "u16"), ("has_seg", "bool"), ("seg", "usize")], 4, ["plain send", "segmented"],
  ["Transmit::effective_segment_size"], "every payload length: u16, every segment size: usize", crate="quinn_udp")
# (paths::rtt_update - RttEstimator::update under Kani - does not finish within the quick cap: Duration * / by constants
#  goes through u128 nanoseconds; its no-underflow obligation is decided by the E2 query e2_rtt_update_no_underflow)
H("path_rtt_update_native", ["C03"], "replay-only", "connection::paths::rtt_update",
  [("latest_ms", "u32"), ("has_smoothed", "bool"), ("smoothed_ms", "u32"), ("var_ms", "u32"), ("min_ms", "u32"), ("ack_delay_ms", "u32"), ("rtt_ms", "u32")], 6, [],
  ["RttEstimator::update"], "native replay body of E2 query e2_rtt_update_no_underflow")
H("path_from_previous", ["C07", "C15", "C12"], "quick", "connection::paths::from_previous",
  [("prev_validated", "bool"), ("prev_sent", "u64"), ("prev_recvd", "u64"), ("prev_in_flight", "u64"), ("prev_gen", "u64"), ("new_gen", "u64"), ("new_port", "u16"), ("bytes_to_send", "u64")], 6,
  ["reached"], ["PathData::from_previous", "PathData::anti_amplification_blocked", "Pacer::new"],
  "every previous-path state (validated or not, counters < 2^62), every new port / generation")
H("conn_handle_event_remote_check_native", ["C15"], "replay-only", "connection::handle_event_remote_check_native",
  [("server", "bool"), ("migration", "bool"), ("same_remote", "bool")], 4, [],
  ["Connection::handle_event"], "native replay body of E2 query e2_handle_event_remote_check")
H("conn_first_packet_credit_native", ["C07"], "replay-only", "connection::first_packet_credit_native",
  [("a", "u8"), ("b", "u8"), ("c", "u8")], 4, [],
  ["Connection::handle_first_packet"], "native replay body of E2 query e2_first_packet_credit")
H("endpoint_reset_token_event_native", ["C08", "C09"], "replay-only", "endpoint::reset_token_event_native",
  [("same_addr", "bool")], 4, [], ["Endpoint::handle_event (ResetToken, Drained)"], "native replay body of E2 query e2_endpoint_reset_token_event")
H("conn_on_packet_authenticated_native", ["C04"], "replay-only", "connection::on_packet_authenticated_native",
  [("has_pn", "bool")], 4, [], ["Connection::on_packet_authenticated"], "native replay body of E2 query e2_on_packet_authenticated")

H("conn_migrate_native", ["C15", "C13"], "replay-only", "connection::migrate_native",
  [("old_challenged", "bool"), ("old_pending", "bool"), ("v4", "bool"), ("big_peer", "bool")], 4, [], ["Connection::migrate"], "native replay body of E2 query e2_migrate")
H("conn_close_inner_native", ["C08"], "replay-only", "connection::close_inner_native",
  [("state", "u8")], 4, [], ["Connection::close_inner"], "native replay body of E2 query e2_close_inner")
H("conn_kill_native", ["C08"], "replay-only", "connection::kill_native",
  [("state", "u8")], 4, [], ["Connection::kill"], "native replay body of E2 query e2_kill")
H("conn_update_rem_cid_native", ["C09"], "replay-only", "connection::update_rem_cid_native",
  [("have_next", "bool")], 4, [], ["Connection::update_rem_cid"], "native replay body of E2 query e2_update_rem_cid")
H("conn_set_peer_params_native", ["C05", "C06", "C13", "C08", "C03"], "replay-only", "connection::set_peer_params_native",
  [("mups", "u32")], 4, [], ["Connection::set_peer_params"], "native replay body of E2 query e2_set_peer_params")
H("streams_received_ack_of_native", ["C05"], "replay-only", "connection::streams::received_ack_of_native",
  [("reset", "bool")], 4, [], ["StreamsState::received_ack_of"], "native replay body of E2 query e2_received_ack_of")
H("streams_chunks_next_eos_native", ["C01", "C11"], "replay-only", "connection::streams::chunks_next_eos_native",
  [("gap", "bool"), ("ordered", "bool")], 4, [], ["Chunks::next", "RecvStream::read", "StreamsState::received"], "native replay body of E2 query e2_chunks_next_eos")
H("conn_idle_close_timers_native", ["C08"], "replay-only", "connection::idle_close_timers_native",
  [("state", "u8"), ("has_idle", "bool")], 4, [], ["Connection::reset_idle_timeout", "Connection::set_close_timer"], "native replay body of E2 queries e2_reset_idle_timeout / e2_set_close_timer")
H("endpoint_accept_auth_failure_native", ["C09", "C08"], "replay-only", "endpoint::accept_auth_failure_native",
  [("x", "u8")], 4, [], ["Endpoint::handle", "Endpoint::accept", "ConnectionIndex::remove_initial"], "native replay body of E2 query e2_endpoint_accept_routing")
H("endpoint_dispose_incoming_native", ["C09", "C08"], "replay-only", "endpoint::dispose_incoming_native",
  [("refuse", "bool")], 4, [], ["Endpoint::ignore", "Endpoint::refuse", "Endpoint::clean_up_incoming"], "native replay body of E2 queries e2_clean_up_incoming / e2_endpoint_refuse_cleans_up / e2_endpoint_ignore_cleans_up")
H("streams_received_accounting_native", ["C06"], "replay-only", "connection::streams::received_accounting_native",
  [("over", "bool")], 4, [], ["StreamsState::received", "Recv::ingest"], "native replay body of E2 query e2_streams_received_accounting")
H("streams_received_reset_native", ["C06", "C11"], "replay-only", "connection::streams::received_reset_native",
  [("over", "bool")], 4, [], ["StreamsState::received_reset", "Recv::reset"], "native replay body of E2 query e2_streams_received_reset")
H("conn_update_keys_native", ["C04"], "replay-only", "connection::update_keys_native",
  [("remote", "bool")], 4, [], ["Connection::update_keys", "Connection::decrypt_packet", "packet_crypto::decrypt_packet_body"], "native replay body of E2 queries e2_update_keys / e2_decrypt_packet_key_update / e2_decrypt_packet_body_keys / e2_decrypt_prev_filter")
H("conn_predict_overhead_native", ["C16", "C13"], "replay-only", "connection::predict_overhead_native",
  [("x", "u8")], 4, [], ["Connection::predict_1rtt_overhead", "Connection::tag_len_1rtt", "Datagrams::max_size"], "native replay body of E2 query e2_predict_1rtt_overhead_remote_cid")
H("dgram_api_native", ["C16", "C13"], "replay-only", "connection::dgram_api_native",
  [("peer", "u32"), ("len_", "u16"), ("drop", "bool")], 4, [], ["Datagrams::max_size", "Datagrams::send"], "native replay body of E2 queries e2_datagrams_max_size / e2_datagrams_send")
H("endpoint_retry_token_native", ["C14"], "replay-only", "endpoint::retry_token_native",
  [("x", "u8")], 4, [], ["Endpoint::retry", "IncomingToken::from_header"], "native replay body of E2 query e2_endpoint_retry_token")
H("endpoint_first_initial_native", ["C07", "C14", "C09"], "replay-only", "endpoint::first_initial_native",
  [("len_", "u16"), ("dcid_len", "u8")], 4, [], ["Endpoint::handle", "Endpoint::handle_first_packet"], "native replay body of E2 query e2_endpoint_first_initial")
H("conn_handle_packet_tail_native", ["C08"], "replay-only", "connection::handle_packet_tail_native",
  [("x", "u8")], 4, [], ["Connection::handle_packet"], "native replay body of E2 slice query e2_handle_packet_tail")
H("conn_retry_native", ["C14", "C04", "C12"], "replay-only", "connection::retry_native",
  [("valid", "bool"), ("authed_before", "u8")], 4, [], ["Connection::process_decrypted_packet (Retry arm)"], "native replay body of E2 slice queries e2_retry_acceptance_slice / e2_retry_resets_initial_space_slice")
H("conn_black_hole_datagrams_native", ["C16", "C13"], "replay-only", "connection::black_hole_datagrams_native",
  [("x", "u8")], 4, [], ["Connection::detect_lost_packets", "MtuDiscovery::black_hole_detected", "DatagramState::drop_oversized"], "native replay body of E2 slice query e2_black_hole_purges_datagrams_slice")
H("conn_loss_probe_size_native", ["C13"], "replay-only", "connection::loss_probe_size_native",
  [("x", "u8")], 4, [], ["Connection::poll_transmit", "PacketBuilder::pad_to", "PacketBuilder::finish"], "native replay body of E2 slice query e2_poll_transmit_pad_guard_slice")
H("conn_poll_transmit_gates_native", ["C07", "C12"], "replay-only", "connection::poll_transmit_gates_native",
  [("mode", "u8")], 4, [], ["Connection::poll_transmit"], "native replay body of E2 slice query e2_poll_transmit_new_datagram_gate_slice")
H("conn_on_packet_acked_native", ["C12"], "replay-only", "connection::on_packet_acked_native",
  [("eliciting", "bool")], 4, [], ["Connection::on_packet_acked", "Connection::remove_in_flight"], "native replay body of E2 slice query e2_on_packet_acked_slice")
H("endpoint_new_cid_collision_native", ["C09"], "replay-only", "endpoint::new_cid_collision_native",
  [("x", "u8")], 4, [], ["Endpoint::new_cid"], "native replay body of E2 query e2_endpoint_new_cid_no_overwrite")
H("conn_keep_alive_idle_native", ["C08"], "replay-only", "connection::keep_alive_idle_native",
  [("x", "u8")], 4, [], ["Connection::handle_timeout", "Connection::poll_transmit", "PacketBuilder::finish_and_track"], "native replay body of E2 query e2_handle_timeout_iteration")
H("conn_off_path_challenge_native", ["C07"], "replay-only", "connection::off_path_challenge_native",
  [("n", "u8")], 4, [], ["Connection::handle_event", "Connection::process_payload", "Connection::poll_transmit", "PathResponses"], "native demonstration / replay body of E2 slice query e2_off_path_response_slice")
H("streams_stop_then_reset_credit_native", ["C06"], "replay-only", "connection::streams::stop_then_reset_credit_native",
  [("buffered", "u8"), ("extra", "u8")], 4, [], ["RecvStream::stop", "StreamsState::received_reset", "StreamsState::add_read_credits"], "native demonstration / replay body: credit after stop + RESET_STREAM")
H("conn_handle_coalesced_credit_native", ["C07"], "replay-only", "connection::handle_coalesced_credit_native",
  [("k", "u8")], 4, [], ["Connection::handle_event", "Connection::handle_coalesced"], "native replay body of E2 queries e2_handle_coalesced_credit / e2_handle_coalesced_loop_body_slice")
H("conn_init_0rtt_native", ["C04", "C14"], "replay-only", "connection::init_0rtt_native",
  [("x", "u8")], 4, [], ["Connection::init_0rtt"], "native replay body of E2 query e2_init_0rtt_scrubs_params")
H("conn_migrate_oversized_datagram_native", ["C16"], "replay-only", "connection::migrate_oversized_datagram_native",
  [("x", "u8")], 4, [], ["Connection::migrate", "Connection::poll_transmit", "DatagramState::write"], "native demonstration: a queued datagram that no longer fits after a migration")
H("conn_first_packet_replay_native", ["C04"], "replay-only", "connection::first_packet_replay_native",
  [("pn", "u8")], 4, [], ["Connection::handle_first_packet", "Connection::handle_event", "Dedup::insert"], "native replay body of E2 query e2_first_packet_dedup")
H("conn_handle_packet_core_native", ["C04"], "replay-only", "connection::handle_packet_core_native",
  [("mode", "u8")], 4, [], ["Connection::handle_event", "Connection::handle_packet", "Dedup::insert"], "native replay body of E2 queries e2_handle_packet_core_slice / e2_handle_packet_dedup_closure")
H("conn_migration_trigger_native", ["C15"], "replay-only", "connection::migration_trigger_native",
  [("mode", "u8")], 4, [], ["Connection::handle_event", "Connection::process_payload", "Connection::migrate"], "native replay body of E2 slice query e2_migration_trigger_slice")
H("conn_path_validation_timeout_native", ["C15"], "replay-only", "connection::path_validation_timeout_native",
  [("rounds", "u8")], 4, [], ["Connection::handle_event", "Connection::migrate", "Connection::handle_timeout"], "native replay body of E2 slice query e2_path_validation_timeout_slice")
H("conn_zero_rtt_rejection_native", ["C17", "C12"], "replay-only", "connection::zero_rtt_rejection_native",
  [("accept", "bool")], 4, [], ["Connection::handle_event", "Connection::process_decrypted_packet", "StreamsState::zero_rtt_rejected", "Connection::remove_in_flight"], "native replay body of E2 slice query e2_zero_rtt_rejection_slice")
H("conn_close_budget_native", ["C13"], "replay-only", "connection::close_budget_native",
  [("reason_len", "u16"), ("acks", "bool"), ("code", "u64")], 4, [], ["Connection::close", "Connection::poll_transmit", "frame::Close::encode"], "native replay body of E2 slice query e2_poll_transmit_close_budget_slice; demonstration for finding 13")
H("conn_datagram_unblock_native", ["C16"], "replay-only", "connection::datagram_unblock_native",
  [("n", "u8")], 4, [], ["Connection::poll_transmit", "Connection::populate_packet", "DatagramState::write", "Connection::poll"], "native replay body of E2 slice query e2_populate_packet_datagram_loop_slice")
H("conn_close_under_congestion_native", ["C08", "C12"], "replay-only", "connection::close_under_congestion_native",
  [("queued", "bool")], 4, [], ["Connection::close", "Connection::poll_transmit"], "native replay body of E2 slice query e2_poll_transmit_close_not_congestion_blocked_slice; demonstration for finding 14")
H("conn_first_packet_close_native", ["C08"], "replay-only", "connection::first_packet_close_native",
  [("x", "u8")], 4, [], ["Connection::handle_first_packet", "Connection::process_decrypted_packet", "Connection::handle_timeout"], "native replay body of E2 query e2_first_packet_close_gets_drain_timer; demonstration for finding 15")
H("conn_new_idle_timeout_native", ["C08"], "replay-only", "connection::new_idle_timeout_native",
  [("ms", "u16")], 4, [], ["Connection::new", "Connection::reset_idle_timeout"], "native replay body of E2 query e2_connection_new_idle_timeout")
H("conn_unauthentic_packet_inert_native", ["C04", "C03"], "replay-only", "connection::unauthentic_packet_inert_native",
  [("first", "u8")], 4, [], ["Connection::handle_event", "Connection::decrypt_packet", "packet_crypto::decrypt_packet_body"], "native replay body of E2 query e2_decrypt_packet_body_authentic_first")
H("conn_second_reason_native", ["C08"], "replay-only", "connection::second_reason_native",
  [("x", "u8")], 4, [], ["Connection::handle_event", "Connection::handle_packet", "Connection::poll"], "native replay body of E2 slice query e2_handle_packet_error_block_slice; demonstration for finding 21")
H("conn_lost_probe_other_space_native", ["C12", "C13"], "replay-only", "connection::lost_probe_other_space_native",
  [("x", "u8")], 4, [], ["Connection::detect_lost_packets", "MtuDiscovery::poll_transmit"], "native replay body for the probe clause of e2_detect_lost_iteration_slice; demonstration for finding 23")
H("conn_close_repeated_native", ["C08"], "replay-only", "connection::close_repeated_native",
  [("x", "u8")], 4, [], ["Connection::close", "Connection::handle_event", "Connection::poll_transmit"], "native replay body of E2 slice query e2_handle_packet_tail_repeats_close")
H("conn_discard_space_native", ["C12"], "replay-only", "connection::discard_space_native",
  [("x", "u8")], 4, [], ["Connection::discard_space", "Connection::remove_in_flight"], "native replay body of E2 query e2_discard_space_iteration")
H("streams_open_limit_native", ["C05"], "replay-only", "connection::streams::open_limit_native",
  [("limit", "u8")], 4, [], ["Streams::open"], "native replay body of E2 query e2_streams_open_limit")
H("streams_max_stream_data_limit_native", ["C06"], "replay-only", "connection::streams::max_stream_data_limit_native",
  [("max_remote", "u8"), ("index", "u64")], 4, [], ["StreamsState::received_max_stream_data", "Streams::accept"], "native replay body of E2 query e2_received_max_stream_data_limit")
H("conn_retry_early_frames_native", ["C17", "C01"], "replay-only", "connection::retry_early_frames_native",
  [("x", "u8")], 4, [], ["Connection::process_decrypted_packet"], "native replay body of E2 slice query e2_retry_requeues_early_frames_slice")
H("conn_unprotected_packet_native", ["C04"], "replay-only", "connection::unprotected_packet_native",
  [("mode", "u8")], 4, [], ["Connection::handle_packet"], "native replay body of E2 slice query e2_handle_packet_unprotected_slice")
H("conn_foreign_datagram_credit_native", ["C07", "C15"], "replay-only", "connection::foreign_datagram_credit_native",
  [("mode", "u8")], 4, [], ["Connection::handle_event", "Connection::handle_coalesced"], "native replay body of E2 queries e2_handle_event_credits_own_path_only / e2_handle_coalesced_credit")
H("conn_read_crypto_limit_native", ["C06", "C03"], "replay-only", "connection::read_crypto_limit_native",
  [("start_below", "u16"), ("len", "u16")], 4, [], ["Connection::read_crypto"], "native replay body of E2 query e2_read_crypto_buffer_limit")
H("assembler_duplicates_bounded_native", ["C06", "C03"], "replay-only", "connection::assembler::duplicates_bounded_native",
  [("rounds", "u8")], 4, [], ["Assembler::insert", "Assembler::defragment"], "native replay body of E2 slice query e2_assembler_insert_bounded_memory_slice")
H("conn_close_reason_early_native", ["C08"], "replay-only", "connection::close_reason_early_native",
  [("x", "u8")], 4, [], ["Connection::close", "Connection::poll_transmit", "frame::Close::encode"], "native replay body of E2 slice query e2_poll_transmit_close_reason_slice")
H("conn_path_response_native", ["C15", "C07"], "replay-only", "connection::path_response_native",
  [("mode", "u8")], 4, [], ["Connection::handle_event", "Connection::process_payload"], "native replay body of E2 slice query e2_path_response_slice")
H("conn_detect_lost_native", ["C12"], "replay-only", "connection::detect_lost_native",
  [("age_ms", "u16")], 4, [], ["Connection::detect_lost_packets"], "native replay body of E2 slice query e2_detect_lost_iteration_slice")
H("streams_retransmit_all_0rtt_native", ["C17", "C01"], "replay-only", "connection::streams::retransmit_all_0rtt_native",
  [("len_", "u8"), ("partial", "bool")], 4, [], ["StreamsState::retransmit_all_for_0rtt", "StreamsState::write_stream_frames", "SendStream::finish"], "native replay body of E2 slice query e2_retransmit_all_for_0rtt_iteration")
H("streams_recvstream_received_reset_native", ["C11"], "replay-only", "connection::streams::recvstream_received_reset_native",
  [("mode", "u8")], 4, [], ["RecvStream::received_reset", "RecvStream::stop", "RecvStream::read", "StreamsState::received_reset"], "native replay body of E2 query e2_recvstream_received_reset")
H("streams_retransmit_fin_native", ["C01"], "replay-only", "connection::streams::retransmit_fin_native",
  [("mode", "u8")], 4, [], ["StreamsState::retransmit", "StreamsState::write_stream_frames", "SendStream::finish"], "native replay body of E2 query e2_streams_retransmit")
H("send_write_chunks_native", ["C05"], "replay-only", "connection::streams::send_write_chunks_native",
  [("credit", "u8"), ("chunk", "u8"), ("n", "u8")], 4, [], ["SendStream::write_chunks", "Send::write", "SendBuffer::write"], "native replay body of E2 slice query e2_send_write_loop_iteration")
H("streams_reset_then_stop_credit_native", ["C06"], "replay-only", "connection::streams::reset_then_stop_credit_native",
  [("buffered", "u8"), ("extra", "u8")], 4, [], ["StreamsState::received_reset", "RecvStream::stop", "StreamsState::add_read_credits"], "native demonstration for finding 17: credit after RESET_STREAM + stop")
H("streams_illegal_ordered_read_native", ["C11", "C06"], "replay-only", "connection::streams::illegal_ordered_read_native",
  [("x", "u8")], 4, [], ["RecvStream::read", "Chunks::new", "Assembler::ensure_ordering"], "native replay body of E2 query e2_chunks_new_keeps_stream_on_error; demonstration for finding 18")
H("streams_reset_after_fin_acked_native", ["C11"], "replay-only", "connection::streams::reset_after_fin_acked_native",
  [("x", "u8")], 4, [], ["SendStream::reset", "StreamsState::received_ack_of", "StreamsState::write_stream_frames"], "native replay body of E2 query e2_sendstream_reset_legality")
H("path_sent_forgotten_native", ["C12"], "replay-only", "connection::paths::sent_forgotten_native",
  [("n", "u16"), ("size", "u16")], 4, [], ["PathData::sent", "PacketSpace::sent", "PacketSpace::take", "PathData::remove_in_flight"], "native replay body of E2 query e2_pathdata_sent_forgotten_leaves_in_flight")
H("sendbuf_unacked_native", ["C05", "C01"], "replay-only", "connection::send_buffer::unacked_native",
  [("x", "u8")], 4, [], ["SendBuffer::write", "SendBuffer::poll_transmit", "SendBuffer::ack", "SendBuffer::unacked"], "native replay body of E2 queries e2_sendbuf_unacked_subtracts_acked / e2_sendbuf_unacked_range_term")
H("space_sent_tail_native", ["C03", "C12"], "replay-only", "connection::spaces::sent_tail_native",
  [("n", "u16")], 4, [], ["PacketSpace::sent", "PacketSpace::take"], "native replay body of E2 query e2_packet_space_sent_tail_counter")
H("packet_truncated_prefixes_native", ["C04", "C03"], "replay-only", "packet::truncated_prefixes_native",
  [("sample", "u8")], 4, [], ["PartialDecode::new", "PartialDecode::finish", "PartialDecode::decrypt_header"], "native replay body of E2 query e2_decrypt_header_sample_bounds")
H("assembler_empty_frame_native", ["C01", "C03"], "replay-only", "connection::assembler::empty_frame_native",
  [("x", "u8")], 4, [], ["Assembler::insert", "Assembler::read", "RangeSet::replace"], "native replay body of E2 query e2_assembler_insert_no_empty_range; demonstration for finding 20")
H("streams_stop_sending_native", ["C11"], "replay-only", "connection::streams::stop_sending_native",
  [("state", "u8")], 4, [], ["StreamsState::received_stop_sending", "Send::try_stop", "SendStream::write"], "native replay body of E2 query e2_received_stop_sending")
H("streams_reset_acked_native", ["C11"], "replay-only", "connection::streams::reset_acked_native",
  [("reset", "bool")], 4, [], ["StreamsState::reset_acked", "StreamsState::stream_freed"], "native replay body of E2 query e2_reset_acked")
H("token_cache_take_native", ["C14"], "replay-only", "token_memory_cache::token_cache_take_native",
  [("n", "u8")], 4, [], ["TokenMemoryCache::insert", "TokenMemoryCache::take"], "native replay body of E2 query e2_token_cache_take")
H("conn_peer_params_cid_auth_native", ["C14", "C04"], "replay-only", "connection::peer_params_cid_auth_native",
  [("server", "bool"), ("which", "u8")], 4, [], ["Connection::handle_peer_params"], "native replay body of E2 query e2_peer_params_cid_auth")

# ------------------------------------------------------------------ transport_parameters.rs (C10, C03.e)
H("frame_close_encode_budget_native", ["C13", "C10"], "replay-only", "frame::close_encode_budget_native",
  [("code", "u64"), ("reason_len", "u16"), ("max_len", "u16")], 4, [], ["ApplicationClose::encode", "frame::Iter::next"], "native replay body of E2 query e2_application_close_encode_budget")
H("tp_preferred_address_read", ["C10", "C03"], "quick", "transport_parameters::preferred_address_read",
  [("buf", "[u8; 64]"), ("len", "usize")], 22,
  ["decoded", "decoded with a 20-byte CID", "Malformed", "IllegalValue"],
  ["PreferredAddress::read", "PreferredAddress::write", "PreferredAddress::wire_size", "ConnectionId::new"],
  "every buffer of 0..=64 bytes (every CID length byte, every address / port / token content); decoded fields compared at their first and last byte")
# NOTE tp_roundtrip_ints (thorough-only) retired: CBMC times out on it at the thorough cap in this sandbox (final sweep), so it only ever made `./check C10 thorough` inconclusive.
H("tp_resumption", ["C03", "C05", "C10", "C17"], "quick", "transport_parameters::resumption",
  [("a", "[u64; 8]"), ("b", "[u64; 8]"), ("ga", "bool"), ("gb", "bool"), ("da", "bool"), ("db", "bool")], 10,
  ["accepted", "rejected"], ["TransportParameters::validate_resumption_from"], "every pair of parameter sets with values < 2^62")
H("tp_read_one_01_len1", ["C03", "C10"], "quick", "transport_parameters::read_one_int",
  [("id", "u8", 1), ("len", "u8", 1), ("value", "[u8; 8]"), ("server", "bool")], 10,
  ["accepted", "rejected"], ["TransportParameters::read"],
  "parameter max_idle_timeout alone with declared length 1: every 8 value bytes")
# NOTE tp_read_one_01_len2 (thorough, declared length > 1) retired: CBMC does not finish it within the 1800 s cap / 20 GB limit of the thorough tier in this sandbox (final sweep: all four timed out), so it only ever made `./check C03|C10 thorough` inconclusive; the len1 forms (quick) and tp_roundtrip_ints remain.
H("tp_read_one_03_len1", ["C03", "C10"], "quick", "transport_parameters::read_one_int",
  [("id", "u8", 3), ("len", "u8", 1), ("value", "[u8; 8]"), ("server", "bool")], 10,
  [None, "rejected"], ["TransportParameters::read"],
  "parameter max_udp_payload_size alone with declared length 1: every 8 value bytes")
# NOTE tp_read_one_03_len2 (thorough, declared length > 1) retired: CBMC does not finish it within the 1800 s cap / 20 GB limit of the thorough tier in this sandbox (final sweep: all four timed out), so it only ever made `./check C03|C10 thorough` inconclusive; the len1 forms (quick) and tp_roundtrip_ints remain.
H("tp_read_one_04_len1", ["C03", "C10"], "quick", "transport_parameters::read_one_int",
  [("id", "u8", 4), ("len", "u8", 1), ("value", "[u8; 8]"), ("server", "bool")], 10,
  ["accepted", "rejected"], ["TransportParameters::read"],
  "parameter initial_max_data alone with declared length 1: every 8 value bytes")
H("tp_read_one_05_len1", ["C03", "C10"], "quick", "transport_parameters::read_one_int",
  [("id", "u8", 5), ("len", "u8", 1), ("value", "[u8; 8]"), ("server", "bool")], 10,
  ["accepted", "rejected"], ["TransportParameters::read"],
  "parameter initial_max_stream_data_bidi_local alone with declared length 1: every 8 value bytes")
H("tp_read_one_06_len1", ["C03", "C10"], "quick", "transport_parameters::read_one_int",
  [("id", "u8", 6), ("len", "u8", 1), ("value", "[u8; 8]"), ("server", "bool")], 10,
  ["accepted", "rejected"], ["TransportParameters::read"],
  "parameter initial_max_stream_data_bidi_remote alone with declared length 1: every 8 value bytes")
H("tp_read_one_07_len1", ["C03", "C10"], "quick", "transport_parameters::read_one_int",
  [("id", "u8", 7), ("len", "u8", 1), ("value", "[u8; 8]"), ("server", "bool")], 10,
  ["accepted", "rejected"], ["TransportParameters::read"],
  "parameter initial_max_stream_data_uni alone with declared length 1: every 8 value bytes")
H("tp_read_one_08_len1", ["C03", "C10"], "quick", "transport_parameters::read_one_int",
  [("id", "u8", 8), ("len", "u8", 1), ("value", "[u8; 8]"), ("server", "bool")], 10,
  ["accepted", "rejected"], ["TransportParameters::read"],
  "parameter initial_max_streams_bidi alone with declared length 1: every 8 value bytes")
# NOTE tp_read_one_08_len8 (thorough, declared length > 1) retired: CBMC does not finish it within the 1800 s cap / 20 GB limit of the thorough tier in this sandbox (final sweep: all four timed out), so it only ever made `./check C03|C10 thorough` inconclusive; the len1 forms (quick) and tp_roundtrip_ints remain.
H("tp_read_one_09_len1", ["C03", "C10"], "quick", "transport_parameters::read_one_int",
  [("id", "u8", 9), ("len", "u8", 1), ("value", "[u8; 8]"), ("server", "bool")], 10,
  ["accepted", "rejected"], ["TransportParameters::read"],
  "parameter initial_max_streams_uni alone with declared length 1: every 8 value bytes")
H("tp_read_one_0a_len1", ["C03", "C10"], "quick", "transport_parameters::read_one_int",
  [("id", "u8", 10), ("len", "u8", 1), ("value", "[u8; 8]"), ("server", "bool")], 10,
  ["accepted", "rejected"], ["TransportParameters::read"],
  "parameter ack_delay_exponent alone with declared length 1: every 8 value bytes")
H("tp_read_one_0b_len1", ["C03", "C10"], "quick", "transport_parameters::read_one_int",
  [("id", "u8", 11), ("len", "u8", 1), ("value", "[u8; 8]"), ("server", "bool")], 10,
  ["accepted", "rejected"], ["TransportParameters::read"],
  "parameter max_ack_delay alone with declared length 1: every 8 value bytes")
# NOTE tp_read_one_0b_len4 (thorough, declared length > 1) retired: CBMC does not finish it within the 1800 s cap / 20 GB limit of the thorough tier in this sandbox (final sweep: all four timed out), so it only ever made `./check C03|C10 thorough` inconclusive; the len1 forms (quick) and tp_roundtrip_ints remain.
H("tp_read_one_0e_len1", ["C03", "C10"], "quick", "transport_parameters::read_one_int",
  [("id", "u8", 14), ("len", "u8", 1), ("value", "[u8; 8]"), ("server", "bool")], 10,
  ["accepted", "rejected"], ["TransportParameters::read"],
  "parameter active_connection_id_limit alone with declared length 1: every 8 value bytes")
H("assembler_ensure_ordering_empty", ["C01", "C06"], "quick", "connection::assembler::ensure_ordering_empty",
  [("bytes_read", "u64")], 4,
  ["something consumed", "nothing consumed"],
  ["Assembler::ensure_ordering", "RangeSet::insert", "RangeSet::peek_min"],
  "an assembler with nothing buffered, every read cursor < 2^62; buffered chunks (heap traversal, defragment) are outside")
H("assembler_ordered_then_unordered_native", ["C01"], "replay-only", "connection::assembler::ordered_then_unordered_native",
  [("a", "u8"), ("o", "u8"), ("b", "u8")], 4, [], ["Assembler::insert", "Assembler::read", "Assembler::ensure_ordering", "Assembler::defragment"], "native demonstration / replay body: ordered read, then unordered reads over an overlapping retransmission")
H("assembler_defragment_step", ["C01"], "quick", "connection::assembler::defragment_step",
  [("offset0", "u64"), ("len", "usize"), ("alloc", "usize"), ("defragmented", "bool"), ("frontier", "u64")], 4,
  ["chunk entirely below the frontier", "chunk trimmed", "chunk kept whole"],
  ["Buffer::try_mark_defragment", "Assembler::defragment (first loop body)"],
  "one buffered chunk of 1..=8 bytes at any offset < 2^62, allocation size <= 2^20, any frontier < 2^62; the heap traversal and the copy loop of defragment are outside")
H("frame_fixed_roundtrip_native", ["C10"], "replay-only", "frame::fixed_frame_roundtrip_sweep",
  [("salt", "u64")], 12, [],
  ["frame::Iter::try_next", "frame encoders"], "native replay body of E2 query e2_frame_field_order (encode -> frame::Iter round trip of every fixed-layout frame kind; loops, native only)")
