import os
import re
"""E2 query table (mir2smt).  Each query: real function (MIR name regex), pre, post, bounds, replay."""
BV64 = ("bv", 64, False)
BOOL = ("bool",)
V62 = "(_ bv4611686018427387904 64)"

QUERIES = []


def Q(**k):
    k.setdefault("tier", "quick")
    QUERIES.append(k)


def ult(a, b):
    return "(bvult %s %s)" % (a, b)


def ule(a, b):
    return "(bvule %s %s)" % (a, b)


def eq(a, b):
    return "(= %s %s)" % (a, b)


def and_(*xs):
    return "(and true %s)" % " ".join(xs)


def or_(*xs):
    return "(or false %s)" % " ".join(xs)


def not_(a):
    return "(not %s)" % a


def imp(a, b):
    return "(=> %s %s)" % (a, b)


def ite(c, a, b):
    return "(ite %s %s %s)" % (c, a, b)


def zext(a, n):
    return "((_ zero_extend %d) %s)" % (n, a)


def bv(v, w=64):
    return "(_ bv%d %d)" % (v % (1 << w), w)


# ------------------------------------------------------------------ C07: anti-amplification predicate, full width
def _amp_keys(c):
    f = lambda n: c.field("connection/paths.rs", "PathData", n)
    return ("*_1.%d" % f("validated"), "*_1.%d" % f("total_sent"), "*_1.%d" % f("total_recvd"))


def amp_pre(c):
    v, s, r = _amp_keys(c)
    return and_(ult(c.inp(s, BV64), V62), ult(c.inp(r, BV64), V62), ult(c.inp("_2", BV64), V62))


def amp_post(c, p):
    v, s, r = _amp_keys(c)
    validated, sent, recvd, n = c.inp(v, BOOL), c.inp(s, BV64), c.inp(r, BV64), c.inp("_2", BV64)
    over = "(bvugt (bvadd %s %s) (bvmul %s %s))" % (zext(sent, 64), zext(n, 64), zext(recvd, 64), bv(3, 128))
    return eq(p.ret("", BOOL), and_(not_(validated), over))


Q(name="e2_anti_amplification", props=["C07"], func=r"::anti_amplification_blocked$",
  functions=["PathData::anti_amplification_blocked"], pre=amp_pre, post=amp_post,
  bounds="every total_sent, total_recvd, bytes_to_send < 2^62, validated in {true,false}; 128-bit reference arithmetic",
  replay=("path_anti_amplification", lambda m: dict(validated=m.get("|in:*_1.7|", 0), total_sent=m.get("|in:*_1.8|", 0), total_recvd=m.get("|in:*_1.9|", 0), bytes_to_send=m.get("|in:_2|", 0))))


# ------------------------------------------------------------------ C10 / C01: PacketNumber::expand, full width
def expand_pre(c):
    d = c.inp("_1#discr", ("bv", 64, True))
    n = c.inp("n", BV64)          # ghost: the number that was sent
    e = c.inp("_2", BV64)
    conj = [ult(n, V62), ule(e, V62), ule(d, bv(3))]
    # the wire carries the low `len` bytes of n
    conj.append(imp(eq(d, bv(0)), eq(c.inp("_1@U8.0", ("bv", 8, False)), "((_ extract 7 0) %s)" % n)))
    conj.append(imp(eq(d, bv(1)), eq(c.inp("_1@U16.0", ("bv", 16, False)), "((_ extract 15 0) %s)" % n)))
    conj.append(imp(eq(d, bv(2)), eq(c.inp("_1@U24.0", ("bv", 32, False)), zext("((_ extract 23 0) %s)" % n, 8))))
    conj.append(imp(eq(d, bv(3)), eq(c.inp("_1@U32.0", ("bv", 32, False)), "((_ extract 31 0) %s)" % n)))
    # receiver state inside the window of that encoding: expected - hwin < n <= expected + hwin
    hwin = ite(eq(d, bv(0)), bv(1 << 7), ite(eq(d, bv(1)), bv(1 << 15), ite(eq(d, bv(2)), bv(1 << 23), bv(1 << 31))))
    conj.append("(bvule %s (bvadd %s %s))" % (n, e, hwin))
    conj.append("(bvugt (bvadd %s %s) %s)" % (n, hwin, e))
    return and_(*conj)


def expand_post(c, p):
    return eq(p.ret("", BV64), c.inp("n", BV64))


def _expand_replay(m):
    # replay through the E1 body pn_roundtrip: needs (n, largest_acked, expected); choose largest_acked so that
    # `new` picks the same width as the counterexample's variant
    n = m.get("|in:n|", 0)
    d = m.get("|in:_1#discr|", 0)
    span = [0, 1 << 7, 1 << 15, 1 << 23][d]
    la = max(0, n - span)
    return dict(n=n, largest_acked=la, expected=m.get("|in:_2|", 0))


Q(name="e2_pn_expand", props=["C10", "C01"], func=r"packet::<impl[^>]*>::expand$", inline=[r"PacketNumber::len$"],
  functions=["PacketNumber::expand", "PacketNumber::len"], pre=expand_pre, post=expand_post,
  bounds="every sent n < 2^62, every variant, every expected <= 2^62 with expected-hwin < n <= expected+hwin (payload = low bytes of n)",
  replay=("pn_roundtrip", _expand_replay))


# ------------------------------------------------------------------ C11: stream_freed slot accounting (hash-map queries opaque)
def _ss(c, name):
    return c.field("connection/streams/state.rs", "StreamsState", name)


def freed_pre(c):
    side = c.inp("*_1.%d#discr" % _ss(c, "side"), ("bv", 64, True))
    half = c.inp("_3#discr", ("bv", 64, True))
    idx = _ss(c, "allocated_remote_count")
    return and_(ule(side, bv(1)), ule(half, bv(1)), ult(c.inp("_2.0", BV64), V62),
                "(bvugt %s %s)" % (c.inp("*_1.%d[0]" % idx, BV64), bv(0)), "(bvugt %s %s)" % (c.inp("*_1.%d[1]" % idx, BV64), bv(0)),
                "(bvugt %s %s)" % (c.inp("*_1.%d" % _ss(c, "send_streams"), BV64), bv(0)))


def freed_post(c, p):
    side = c.inp("*_1.%d#discr" % _ss(c, "side"), ("bv", 64, True))
    half = c.inp("_3#discr", ("bv", 64, True))     # StreamHalf: Send = 0, Recv = 1
    sid = c.inp("_2.0", BV64)
    remote = not_(eq("((_ extract 0 0) %s)" % sid, "((_ extract 0 0) %s)" % side))   # initiator bit != our side
    uni = eq("((_ extract 1 1) %s)" % sid, "#b1")
    send_has = [x for x in p.p.state.calls if "contains_key" in x[0] and ".%d." % _ss(c, "send") in (x[1][0][1] + ".")]
    recv_has = [x for x in p.p.state.calls if "contains_key" in x[0] and ".%d." % _ss(c, "recv") in (x[1][0][1] + ".")]
    ensure = p.called(r"ensure_remote_streams")
    # which map must be consulted: the OTHER half's map
    conj = []
    is_send = eq(half, bv(0))
    if send_has:
        conj.append(not_(is_send))       # the send map is consulted only when the Recv half was freed
    if recv_has:
        conj.append(is_send)
    other_present = "false"
    if send_has:
        other_present = send_has[0][2]
    if recv_has:
        other_present = recv_has[0][2]
    fully_free = and_(remote, or_(uni, not_(other_present)))
    if ensure:
        conj.append(fully_free)
    else:
        conj.append(not_(fully_free))
    # a bidirectional remote stream always consults exactly one map
    conj.append(imp(and_(remote, not_(uni)), "true" if (send_has or recv_has) else "false"))
    # send_streams goes down exactly when the Send half was freed
    k = "*_1.%d" % _ss(c, "send_streams")
    conj.append(eq(p.out(k, BV64), ite(is_send, "(bvsub %s %s)" % (c.inp(k, BV64), bv(1)), c.inp(k, BV64))))
    return and_(*conj)


Q(name="e2_stream_freed", props=["C11"], func=r"state::<impl[^>]*>::stream_freed$",
  inline=[r"StreamId::initiator$", r"StreamId::dir$"], pure=[r"contains_key"],
  modifies=lambda c: {r"ensure_remote_streams": ["*_1.%d" % _ss(c, n) for n in ("allocated_remote_count", "max_remote", "send", "recv", "free_recv")]},
  functions=["StreamsState::stream_freed", "StreamId::initiator", "StreamId::dir"],
  pre=freed_pre, post=freed_post,
  bounds="every stream id < 2^62, both sides, both halves; HashMap::contains_key on the send / recv maps is an uninterpreted boolean (either answer); ensure_remote_streams opaque",
  replay=("streams_stream_freed_native", lambda m: dict(
      server=m.get("|in:*_1.0#discr|", 0), raw_id=m.get("|in:_2.0|", 0), half_recv=m.get("|in:_3#discr|", 0),
      other_present=max([v for k, v in m.items() if k.startswith("|call:")] + [0]))))


# ------------------------------------------------------------------ C05: SendStream::reset restores exactly the send window
_SS_SCALARS = ["max_data", "data_sent", "unacked_data", "send_window", "data_recvd", "local_max_data", "receive_window", "send_streams"]


def reset_pre(c):
    return "true"


def reset_post(c, p):
    root = "**_1.%d" % c.field("connection/streams/mod.rs", "SendStream", "state")
    ok = eq(p.ret("#discr", ("bv", 64, True)), bv(0))
    unacked = p.call_result(r"SendBuffer::unacked")
    conj = []
    for name in _SS_SCALARS:
        k = "%s.%d" % (root, _ss(c, name))
        before, after = c.inp(k, BV64), p.out(k, BV64)
        if name == "unacked_data" and unacked is not None:
            conj.append(eq(after, "(bvsub %s %s)" % (before, unacked)))
        else:
            conj.append(eq(after, before))
    # success <=> the window was handed back (the buffer was consulted)
    conj.append("true" if unacked is not None else not_(ok))
    return and_(*conj)


Q(name="e2_sendstream_reset", props=["C05"], func=r"streams/mod\.rs:\d+:1: \d+:24>::reset$",
  pure=[r"max_send_data", r"SendBuffer::unacked", r"get_mut", r"call_once"],
  functions=["SendStream::reset"], pre=reset_pre, post=reset_post, allowed_panics=r"attempt to compute",
  bounds="every StreamsState accounting state; map lookup, Send::reset, Vec::push opaque; the only connection-level counter that may change is unacked_data, by exactly SendBuffer::unacked() of the reset stream",
  replay=("streams_sendstream_reset_native", lambda m: dict(written=5, other_data_sent=100)))


# ------------------------------------------------------------------ C01: SendBuffer::poll_transmit, both branches, full width
def _sb(c, name):
    return "*_1.%d" % c.field("connection/send_buffer.rs", "SendBuffer", name)


def _vlen(x):
    return ite(ult(x, bv(1 << 6)), bv(1), ite(ult(x, bv(1 << 14)), bv(2), ite(ult(x, bv(1 << 30)), bv(4), bv(8))))


def _pm(c):
    return "call:RangeSet::pop_min(%s)" % _sb(c, "retransmits")


def pt_pre(c):
    offset, unsent, max_len = c.inp(_sb(c, "offset"), BV64), c.inp(_sb(c, "unsent"), BV64), c.inp("_2", BV64)
    d = c.inp(_pm(c) + "#discr", ("bv", 64, True))
    lo, hi = c.inp(_pm(c) + "@Some.0.0", BV64), c.inp(_pm(c) + "@Some.0.1", BV64)
    # what the retransmit queue can hold: non-empty ranges of data that was sent
    wf = and_(ule(d, bv(1)), imp(eq(d, bv(1)), and_(ult(lo, hi), ule(hi, unsent))))
    return and_(ult(offset, V62), ule(unsent, offset), "(bvuge %s %s)" % (max_len, bv(17)), ule(max_len, bv(1 << 20)), wf)


def pt_post(c, p):
    offset, unsent, max_len = c.inp(_sb(c, "offset"), BV64), c.inp(_sb(c, "unsent"), BV64), c.inp("_2", BV64)
    start, end = p.ret(".0.0", BV64), p.ret(".0.1", BV64)
    enc = p.ret(".1", BOOL)
    is_some = eq(c.inp(_pm(c) + "#discr", ("bv", 64, True)), bv(1))
    lo, hi = c.inp(_pm(c) + "@Some.0.0", BV64), c.inp(_pm(c) + "@Some.0.1", BV64)
    n = "(bvsub %s %s)" % (end, start)
    off_bytes = ite(eq(start, bv(0)), bv(0), _vlen(start))
    len_bytes = ite(enc, bv(8), bv(0))
    fits = ule("(bvadd %s (bvadd %s %s))" % (n, off_bytes, len_bytes), max_len)
    fills = imp(not_(enc), eq("(bvadd %s %s)" % (n, off_bytes), max_len))
    reinserted = p.called(r"RangeSet::insert")
    retx = and_(eq(start, lo), "(bvugt %s %s)" % (end, start), ule(end, hi), eq(p.out(_sb(c, "unsent"), BV64), unsent),
                # the remainder is re-queued iff the range was cut
                ("(bvult %s %s)" % (end, hi)) if reinserted else eq(end, hi))
    fresh = and_(eq(start, unsent), ule(end, offset), "(bvuge %s %s)" % (end, start), eq(p.out(_sb(c, "unsent"), BV64), end),
                 imp(ult(unsent, offset), "(bvugt %s %s)" % (end, start)), "true" if not reinserted else "false")
    return and_(fits, fills, ite(is_some, retx, fresh), eq(p.out(_sb(c, "offset"), BV64), offset))


Q(name="e2_sendbuf_poll_transmit", props=["C01"], func=r"send_buffer\.rs[^>]*>::poll_transmit$",
  inline=[r"VarInt::size$", r"VarInt::from_u64_unchecked$"], pure=[r"RangeSet::pop_min"],
  modifies=lambda c: {r"RangeSet::insert": [_sb(c, "retransmits")]},
  functions=["SendBuffer::poll_transmit", "VarInt::size"], pre=pt_pre, post=pt_post, timeout=900,
  bounds="every buffer state unsent <= offset < 2^62, 17 <= max_len <= 2^20, retransmit queue head = None or any non-empty range below `unsent` (RangeSet::pop_min / insert opaque)",
  replay=("sendbuf_poll_transmit_retransmit_native", lambda m: dict(
      offset=m.get("|in:*_1.2|", 0), unsent=m.get("|in:*_1.3|", 0), max_len=m.get("|in:_2|", 17),
      has_range=1 if any(k.endswith("#discr|") and "pop_min" in k and v == 1 for k, v in m.items()) else 0,
      lo=next((v for k, v in m.items() if "pop_min" in k and k.endswith("@Some.0.0|")), 0),
      hi=next((v for k, v in m.items() if "pop_min" in k and k.endswith("@Some.0.1|")), 0))))


# ------------------------------------------------------------------ C07 / C03: stateless reset sizing (Endpoint::stateless_reset up to the buffer writes)
def sr_pre(c):
    return ule(c.inp("_3", BV64), bv(1 << 32))


def sr_assume(c, p):
    rr = p.called(r"random_range")
    if not rr:
        return "true"
    r = rr[0][2]
    start, end = p.out("_21.0", BV64), p.out("_21.1", BV64)
    return imp(ult(start, end), and_(ule(start, r), ult(r, end)))


def sr_post(c, p):
    n = c.inp("_3", BV64)
    if p.p.outcome == "return":
        # returning without ever reaching the buffer: the datagram was ignored (rate limit or too small)
        rate_limited = [x for x in p.p.state.calls if "Add<Duration>" in x[0] or "add" in x[0].split("::")[-1]]
        return "true" if rate_limited else ule(n, bv(16 + 5))
    # outcome "stop": about to reserve `padding_len + 16` bytes
    total = p.p.state.stop_args[1].t          # Vec::reserve(buf, padding_len + RESET_TOKEN_SIZE)
    rr = p.called(r"random_range")
    conj = [ult(total, n), "(bvuge %s %s)" % (total, bv(16 + 5))]
    if rr:
        r = rr[0][2]
        start, end = p.out("_21.0", BV64), p.out("_21.1", BV64)
        # random_range panics on an empty range (its contract is assumed by sr_assume)
        conj = [ult(start, end)] + conj
    return and_(*conj)


Q(name="e2_stateless_reset", props=["C07", "C03"], func=r"endpoint\.rs[^>]*>::stateless_reset$",
  pure=[r"random_range", r"as Add<Duration>>::add"], stop_at=[r"Vec::<u8>::reserve"],
  functions=["Endpoint::stateless_reset (up to the first buffer write)"], pre=sr_pre, post=sr_post, assume=sr_assume, check_stop=True,
  bounds="every inciting datagram length <= 2^32, any rate-limiter state; rng.random_range is an uninterpreted function constrained only by its contract (result in [start,end), panics on an empty range); buffer filling and token computation after Vec::reserve are outside the query",
  replay=("endpoint_stateless_reset_native", lambda m: dict(inciting_len=min(m.get("|in:_3|", 0), 65535))))


# ------------------------------------------------------------------ C14: IncomingToken::from_header decision logic
I64 = ("bv", 64, True)


def _sc(c, name):
    return "*_2.%d" % c.field("config/mod.rs", "ServerConfig", name)


def tok_pre(c):
    return "true"


def _time_lt(c, p, a_root, n_root):
    st = p.p.state
    rk = lambda k, s: c.ex.read_key(st, k, s).t
    a_s, n_s = rk(a_root + ".0.0.0", I64), rk(n_root + ".0.0.0", I64)
    a_n, n_n = rk(a_root + ".0.0.1.0", ("bv", 32, False)), rk(n_root + ".0.0.1.0", ("bv", 32, False))
    return or_("(bvslt %s %s)" % (a_s, n_s), and_(eq(a_s, n_s), "(bvult %s %s)" % (a_n, n_n)))


def tok_post(c, p):
    st = p.p.state
    is_err = eq(p.ret("#discr", I64), bv(1))
    validated = ite(is_err, "false", p.ret("@Ok.0.2", BOOL))
    dec = p.called(r"Token::decode")
    token_len = c.inp("*_1.%d.1" % c.field("packet.rs", "InitialHeader", "token"), BV64)
    if not dec:
        # empty token: never validated, never an error
        return and_(eq(token_len, bv(0)), not_(is_err), not_(validated))
    root = dec[0][2]
    some = eq(c.ex.read_key(st, root + "#discr", I64).t, bv(1))
    kind = c.ex.read_key(st, root + "@Some.0.0#discr", I64).t    # TokenPayload: Retry = 0, Validation = 1
    adds, nows = p.called(r"Add<Duration>>::add"), p.called(r"TimeSource>::now")
    eqs, raws, logs = p.called(r"SocketAddr as PartialEq>::eq"), p.called(r"raw_eq|compare_bytes"), p.called(r"check_and_insert")
    expired = _time_lt(c, p, adds[0][2], nows[0][2]) if adds and nows else None
    conj = [imp(not_(some), and_(not_(is_err), not_(validated)))]
    # --- Retry tokens: exact address AND port, within retry_token_lifetime; otherwise an error
    retry_ok = and_(eqs[0][2], not_(expired)) if (eqs and expired is not None) else "false"
    retry_bad = not_(eqs[0][2]) if (eqs and expired is None) else (or_(not_(eqs[0][2]), expired) if eqs else "false")
    conj.append(imp(and_(some, eq(kind, bv(0))), and_(eq(validated, retry_ok), eq(is_err, retry_bad))))
    if adds and eqs:
        # the lifetime that was added to `issued` is the RETRY lifetime
        arg = adds[0][1][1][1]
        conj.append(imp(and_(some, eq(kind, bv(0))), "true" if arg == _sc(c, "retry_token_lifetime") else "false"))
    # --- NEW_TOKEN tokens: never an error; validated needs IP equality, lifetime and the reuse log
    val_ok = "false"
    if logs:
        log_ok = eq(c.ex.read_key(st, logs[0][2] + "#discr", I64).t, bv(0))
        # IpAddr equality between the token's address and the source address of the packet (byte-wise, both families)
        tip, rip = root + "@Some.0.0@Validation.0", "_3"
        rk = lambda k, srt: c.ex.read_key(st, k, srt).t
        td, rd_ = rk(tip + "#discr", I64), rk(rip + "#discr", I64)
        v4 = and_(*[eq(rk(tip + "@V4.0.0[%d]" % i, U8), rk(rip + "@V4.0.0.0[%d]" % i, U8)) for i in range(4)])
        v6 = and_(*[eq(rk(tip + "@V6.0.0[%d]" % i, U8), rk(rip + "@V6.0.0.0[%d]" % i, U8)) for i in range(16)])
        ip_ok = and_(eq(td, rd_), ite(eq(td, bv(0)), v4, v6))
        # the reuse log is asked about THIS token: its nonce, its issue time, the configured lifetime
        la = logs[0][1]
        conj.append("true" if (la[1][0] == "val" and la[1][1].t == "|in:%s@Some.0.1|" % root and la[2] == ("agg", root + "@Some.0.0@Validation.1")
                               and la[3][0] == "agg" and la[3][1].startswith(_sc(c, "validation_token"))) else "false")
        val_ok = and_(ip_ok, not_(expired) if expired is not None else "false", log_ok)
        arg = adds[0][1][1][1]
        conj.append(imp(and_(some, eq(kind, bv(1))), "true" if arg.startswith(_sc(c, "validation_token")) else "false"))
    conj.append(imp(and_(some, eq(kind, bv(1))), and_(not_(is_err), eq(validated, val_ok))))
    return and_(*conj)


Q(name="e2_token_from_header", props=["C14", "C07"], func=r"token\.rs[^>]*>::from_header$",
  pure=[r"Token::decode", r"PartialEq>::eq", r"Add<Duration>>::add", r"TimeSource>::now", r"check_and_insert", r"raw_eq", r"compare_bytes"],
  functions=["IncomingToken::from_header"], pre=tok_pre, post=tok_post,
  bounds="every outcome of Token::decode (None / Retry / Validation payload with arbitrary content), of the address comparisons, of the clock and of the reuse log (all uninterpreted); lifetimes and instants are arbitrary (SystemTime + Duration opaque, comparison exact)",
  replay=("token_from_header_native", lambda m: [
      dict(retry=1, same_ip=1, same_port=0, age=1, lifetime=5, log_ok=1, corrupt=0),
      dict(retry=1, same_ip=1, same_port=1, age=9, lifetime=5, log_ok=1, corrupt=0),
      dict(retry=1, same_ip=1, same_port=1, age=5, lifetime=5, log_ok=0, corrupt=0),
      dict(retry=1, same_ip=0, same_port=1, age=1, lifetime=5, log_ok=1, corrupt=0),
      dict(retry=0, same_ip=1, same_port=0, age=1, lifetime=5, log_ok=1, corrupt=0),
      dict(retry=0, same_ip=1, same_port=1, age=1, lifetime=5, log_ok=0, corrupt=0),
      dict(retry=0, same_ip=0, same_port=1, age=1, lifetime=5, log_ok=1, corrupt=0),
      dict(retry=0, same_ip=1, same_port=1, age=9, lifetime=5, log_ok=1, corrupt=0),
      dict(retry=0, same_ip=1, same_port=1, age=5, lifetime=5, log_ok=1, corrupt=0),
      dict(retry=1, same_ip=1, same_port=1, age=1, lifetime=5, log_ok=1, corrupt=1),
      dict(retry=0, same_ip=1, same_port=1, age=1, lifetime=5, log_ok=1, corrupt=1)]))


# ------------------------------------------------------------------ C15: datagrams from another address are ignored unless the peer may migrate
def he_pre(c):
    # Datagram events only (ConnectionEventInner::Datagram = 0)
    return eq(c.inp("_2.0#discr", I64), bv(0))


def he_post(c, p):
    eqs = p.called(r"SocketAddr as PartialEq>::(eq|ne)")
    mig = p.called(r"remote_may_migrate")
    dec = p.called(r"handle_decode")
    cids = p.called(r"new_cids")
    if cids:
        return "true"      # NewIdentifiers arm
    if not eqs:
        return "false"     # the source address must be compared before anything else happens
    same = eqs[0][2] if eqs[0][0].endswith("eq") else not_(eqs[0][2])
    conj = []
    if mig:
        # consulted only for a foreign address; a negative answer means: drop, touch nothing
        conj.append(not_(same))
        if dec:
            conj.append(mig[0][2])
        else:
            k = "*_1.%d.%d" % (c.field("connection/mod.rs", "Connection", "path"), c.field("connection/paths.rs", "PathData", "total_recvd"))
            conj.append(and_(not_(mig[0][2]), eq(p.out(k, BV64), c.inp(k, BV64))))
    else:
        conj.append(same)
        conj.append("true" if dec else "false")
    return and_(*conj)


Q(name="e2_handle_event_remote_check", props=["C15"], func=r"connection/mod\.rs:\d+:1: \d+:16>::handle_event$",
  pure=[r"PartialEq>::(eq|ne)", r"remote_may_migrate", r"anti_amplification_blocked", r"BytesMut::len", r"PartialDecode::len"],
  allowed_panics=r"attempt to compute", functions=["Connection::handle_event (Datagram arm)", "ConnectionSide::remote_may_migrate (opaque)"],
  pre=he_pre, post=he_post,
  bounds="every datagram event; SocketAddr comparison and remote_may_migrate are uninterpreted booleans (all four combinations); handle_decode / handle_coalesced opaque",
  replay=("conn_handle_event_remote_check_native", lambda m: [
      dict(server=0, migration=0, same_remote=0), dict(server=1, migration=0, same_remote=0),
      dict(server=1, migration=1, same_remote=0), dict(server=0, migration=0, same_remote=1), dict(server=1, migration=0, same_remote=1)]))


# ------------------------------------------------------------------ C07: the first Initial is credited exactly once
def _conn_path_field(c, name):
    return "*_1.%d.%d" % (c.field("connection/mod.rs", "Connection", "path"), c.field("connection/paths.rs", "PathData", name))


def hfp_pre(c):
    # `handle_first_packet` is only called on a connection in the Handshake state
    return and_(eq(c.inp("*_1.%d#discr" % c.field("connection/mod.rs", "Connection", "state"), I64), bv(0)),
                ult(c.inp("_6.1.1", BV64), bv(1 << 32)), ult(c.inp("_6.2.1", BV64), bv(1 << 32)))


def hfp_post(c, p):
    if p.p.outcome != "stop":
        return "true"
    got = p.out(_conn_path_field(c, "total_recvd"), BV64)
    return eq(got, "(bvadd %s %s)" % (c.inp("_6.1.1", BV64), c.inp("_6.2.1", BV64)))


Q(name="e2_first_packet_credit", props=["C07"], func=r"connection/mod\.rs:\d+:1: \d+:16>::handle_first_packet$",
  stop_at=[r"on_packet_authenticated"], check_stop=True, allowed_panics=r"attempt to compute",
  functions=["Connection::handle_first_packet (up to on_packet_authenticated)"], pre=hfp_pre, post=hfp_post,
  bounds="every header / payload length < 2^32: before any packet processing the anti-amplification credit of the new connection equals exactly the size of the first Initial packet (coalesced remainder is credited by handle_coalesced, outside this query)",
  replay=("conn_first_packet_credit_native", lambda m: [dict(a=40, b=200, c=100), dict(a=40, b=200, c=0)]))


# ------------------------------------------------------------------ C08 / C09: Endpoint::handle_event(ResetToken): the replaced routing entry is the stored one
def rt_pre(c):
    # EndpointEventInner::ResetToken = 1
    return eq(c.inp("_3.0#discr", I64), bv(1))


def _leaf(c, p, key, sub, sort):
    return c.ex.read_key(p.p.state, key + sub, sort).t


def rt_post(c, p):
    idx = p.called(r"IndexMut<ConnectionHandle>>::index_mut")
    rem = p.called(r"ResetTokenTable::remove")
    ins = p.called(r"ResetTokenTable::insert")
    if not idx or not ins:
        return "false"
    meta = "*" + idx[0][2]                    # memory behind the &mut ConnectionMeta that index_mut returned
    rt = "%s.%d" % (meta, c.field("endpoint.rs", "ConnectionMeta", "reset_token"))
    had_old = eq(c.inp(rt + "#discr", I64), bv(1))
    conj = []
    # the new pair is stored and inserted for THIS handle
    conj.append(eq(p.out(rt + "#discr", I64), bv(1)))
    a0, a1, a2 = ins[0][1][1][1], ins[0][1][2][1], ins[0][1][3]
    conj.append(eq(_leaf(c, p, a0, "#discr", I64), c.inp("_3.0@ResetToken.0#discr", I64)))
    conj.append(eq(_leaf(c, p, a1, ".0[0]", ("bv", 8, False)), c.inp("_3.0@ResetToken.1.0[0]", ("bv", 8, False))))
    conj.append(eq(_leaf(c, p, a2[1].key() if not isinstance(a2[1], str) else a2[1], ".0", BV64), c.inp("_2.0", BV64)))
    if rem:
        r0, r1 = rem[0][1][1][1], rem[0][1][2][1]
        conj.append(had_old)
        # removed under the address / token that were stored, not under the event's
        conj.append(eq(_leaf(c, p, r0, "#discr", I64), c.inp(rt + "@Some.0.0#discr", I64)))
        conj.append(eq(_leaf(c, p, r0, "@V4.0.0.0[0]", ("bv", 8, False)), c.inp(rt + "@Some.0.0@V4.0.0.0[0]", ("bv", 8, False))))
        conj.append(eq(_leaf(c, p, r1, ".0[0]", ("bv", 8, False)), c.inp(rt + "@Some.0.1.0[0]", ("bv", 8, False))))
    else:
        conj.append(not_(had_old))
    return and_(*conj)


Q(name="e2_endpoint_reset_token_event", props=["C08", "C09"], func=r"endpoint\.rs[^>]*>::handle_event$",
  pure=[r"IndexMut<ConnectionHandle>>::index_mut"],
  modifies=lambda c: {r"ResetTokenTable::(remove|insert)": ["*_1.%d" % c.field("endpoint.rs", "Endpoint", "index")]},
  functions=["Endpoint::handle_event (ResetToken arm)"], pre=rt_pre, post=rt_post,
  bounds="every stored Option<(address, token)> and every reported pair; Slab indexing and the table's remove / insert are opaque - the query fixes WHICH values they are called with (symbolic leaves of the stored vs. reported pair are distinct variables)",
  replay=("endpoint_reset_token_event_native", lambda m: [dict(same_addr=0), dict(same_addr=1)]))



# ------------------------------------------------------------------ C04: every authenticated packet is counted (Retry / Version Negotiation included)
def _cf(c, name):
    return "*_1.%d" % c.field("connection/mod.rs", "Connection", name)


def opa_pre(c):
    return and_(ult(c.inp(_cf(c, "total_authed_packets"), BV64), V62), ule(c.inp("_3#discr", I64), bv(2)), ule(c.inp("_5#discr", I64), bv(1)))


def opa_post(c, p):
    k = _cf(c, "total_authed_packets")
    conj = [eq(p.out(k, BV64), "(bvadd %s %s)" % (c.inp(k, BV64), bv(1)))]
    conj.append(p.out(_cf(c, "permit_idle_reset"), BOOL))
    has_pn = eq(c.inp("_5#discr", I64), bv(1))
    ins = p.called(r"insert_one")
    conj.append(has_pn if ins else not_(has_pn))
    ds = p.called(r"discard_space")
    if ds:
        # only a server, and only on its first Handshake packet
        conj.append(eq(c.inp("_3#discr", I64), bv(1)))
    return and_(*conj)


Q(name="e2_on_packet_authenticated", props=["C04", "C14"], func=r"connection/mod\.rs:\d+:1: \d+:16>::on_packet_authenticated$",
  pure=[r"IndexMut<SpaceId>>::index_mut", r"Index<SpaceId>>::index", r"is_server", r"is_client", r"is_ce", r"is_some"],
  modifies=lambda c: {r"reset_keep_alive|reset_idle_timeout|set_key_discard_timer": [_cf(c, "timers")],
                      r"discard_space": [_cf(c, "spaces"), _cf(c, "timers"), _cf(c, "path"), _cf(c, "zero_rtt_crypto")],
                      r"insert_one|set_immediate_ack_required|add_assign|emit_packet_received": ["*call:"]},
  allowed_panics=r"attempt to compute",
  functions=["Connection::on_packet_authenticated"], pre=opa_pre, post=opa_post,
  bounds="every space, ECN mark, packet number (or none: Retry / Version Negotiation), side; timer helpers and discard_space opaque with a declared write set",
  replay=("conn_on_packet_authenticated_native", lambda m: [dict(has_pn=0), dict(has_pn=1)]))


# ------------------------------------------------------------------ C10: frame::Iter::try_next reads the fields of each fixed-layout frame in wire order (RFC 9000 §19)
# variant -> (frame types, [(leaf of the decoded frame, leaf of the k-th read's Ok value)], replay kind)
_SID, _VI, _U64 = ".0", ".0", ""
FRAME_LAYOUT = {
    "ResetStream":        ([0x04], [(".0.0.0", ".0"), (".0.1.0", ".0"), (".0.2.0", ".0")], 0),
    "StopSending":        ([0x05], [(".0.0.0", ".0"), (".0.1.0", ".0")], 1),
    "MaxData":            ([0x10], [(".0.0", ".0")], 2),
    "MaxStreamData":      ([0x11], [(".0.0", ".0"), (".1", "")], 3),
    "MaxStreams":         ([0x12, 0x13], [(".1", "")], 4),
    "DataBlocked":        ([0x14], [(".0", "")], 5),
    "StreamDataBlocked":  ([0x15], [(".0.0", ".0"), (".1", "")], 6),
    "StreamsBlocked":     ([0x16, 0x17], [(".1", "")], 7),
    "RetireConnectionId": ([0x19], [(".0", "")], 8),
    "PathChallenge":      ([0x1a], [(".0", "")], 9),
    "PathResponse":       ([0x1b], [(".0", "")], 9),
    "AckFrequency":       ([0xaf], [(".0.0.0", ".0"), (".0.1.0", ".0"), (".0.2.0", ".0"), (".0.3.0", ".0")], 10),
}


def fo_pre(c):
    return "true"


def fo_post(c, p):
    st = p.p.state
    res = st.store.get("_0#discr")
    if res is None or res.t != bv(0):
        return "true"                       # Err results: nothing to check here (totality is C03's)
    fv = st.store.get("_0@Ok.0#discr")
    if fv is None:
        return "false"
    frame_enum = c.ex.enums["Frame"]
    calls = [x for x in st.calls if re.search(r"get_var|Codec>::decode|take_len|scan_ack_blocks", x[0])]
    ty = c.ex.read_key(st, calls[0][2] + "@Ok.0", BV64).t
    conj = []
    m = re.match(r"^\(_ bv(\d+) 64\)$", fv.t)
    variant = frame_enum[int(m.group(1))]
    # type -> variant for the fixed-layout frames (both directions)
    for name, (types, fields, _) in FRAME_LAYOUT.items():
        is_ty = or_(*[eq(ty, bv(t)) for t in types])
        if name == variant:
            conj.append(is_ty)
        else:
            conj.append(not_(is_ty))
    if variant in FRAME_LAYOUT:
        types, fields, _ = FRAME_LAYOUT[variant]
        reads = calls[1:]
        if len(reads) != len(fields):
            return "false"
        base = "_0@Ok.0@%s" % variant
        for (fleaf, rleaf), call in zip(fields, reads):
            got = c.ex.read_key(st, base + fleaf, BV64).t
            src = c.ex.read_key(st, call[2] + "@Ok.0" + rleaf, BV64).t
            conj.append(eq(got, src))
        if variant in ("MaxStreams", "StreamsBlocked"):
            d = c.ex.read_key(st, base + ".0#discr", I64).t       # Dir: Bi = 0, Uni = 1
            conj.append(eq(d, ite(eq(ty, bv(types[0])), bv(0), bv(1))))
    return and_(*conj)


def _fo_replay(m):
    return [dict(salt=0), dict(salt=5)]


Q(name="e2_frame_field_order", props=["C10"], func=r"frame\.rs[^>]*>::try_next$",
  functions=["frame::Iter::try_next"], pre=fo_pre, post=fo_post,
  bounds="every path of the decoder: for the 14 fixed-layout frame types the decoded variant is the one RFC 9000 §19 / the ack-frequency draft assign to the type value, and each field is the value of the read at its wire position (reads from the buffer are opaque, in program order); variable-layout frames (ACK, CRYPTO, STREAM, NEW_CONNECTION_ID, CLOSE, DATAGRAM, NEW_TOKEN) only contribute the type -> variant check",
  allowed_panics=r".",     # panic freedom of the decoder is not this query's subject (the reads' bounds checks are opaque here)
  replay=("frame_fixed_roundtrip_native", _fo_replay))


# ------------------------------------------------------------------ C14 / C04: transport-parameter CID authentication (RFC 9000 §7.3)
def tp_field(c, name):
    """field index inside TransportParameters (declared through the apply_params!/make_struct! macros)"""
    import os, e2
    text = open(os.path.join(e2.REPO, "quinn-proto", "src", "transport_parameters.rs")).read()
    a = text.index("macro_rules! apply_params")
    b = text.index("macro_rules! make_struct")
    names = re.findall(r"^\s+(\w+)\((\w+)\) = ", text[a:b], re.M)
    names = [n for n, _ in names]
    s = text.index("pub struct TransportParameters", b)
    e = text.index("\n        }", s)
    names += [n for n in re.findall(r"pub\(crate\) (\w+)\s*:", text[s:e])]
    if name not in names:
        raise Untranslatable("TransportParameters.%s not found" % name)
    return names.index(name)


U8 = ("bv", 8, False)


def _cid_eq(c, p, a, b):
    """ConnectionId equality (derived: len and all 20 bytes) between the places a and b, read in the path's final state"""
    rd = lambda k, s: c.inp(k, s)
    return and_(eq(rd(a + ".0", U8), rd(b + ".0", U8)), *[eq(rd(a + ".1[%d]" % i, U8), rd(b + ".1[%d]" % i, U8)) for i in range(20)])


def hpp_pre(c):
    return "true"


def hpp_post(c, p):
    st = p.p.state
    rd = lambda k, s: c.inp(k, s)          # values on entry
    me = lambda n: "*_1.%d" % c.field("connection/mod.rs", "Connection", n)
    tp = lambda n: "_2.%d" % tp_field(c, n)
    some = lambda k: eq(rd(k + "#discr", I64), bv(1))
    auth1 = and_(some(tp("initial_src_cid")), _cid_eq(c, p, me("orig_rem_cid"), tp("initial_src_cid") + "@Some.0"))
    auth2 = and_(some(tp("original_dst_cid")), _cid_eq(c, p, me("initial_dst_cid"), tp("original_dst_cid") + "@Some.0"))
    a3, b3 = me("retry_src_cid"), tp("retry_src_cid")
    auth3 = and_(eq(rd(a3 + "#discr", I64), rd(b3 + "#discr", I64)), imp(some(a3), _cid_eq(c, p, a3 + "@Some.0", b3 + "@Some.0")))
    cl = p.called(r"is_client")
    is_client = cl[0][2] if cl else "false"
    if cl and not cl[0][2].startswith("|call:"):
        return "false"
    expected_ok = and_(auth1, imp(is_client, and_(auth2, auth3))) if cl else auth1
    ok = eq(c.ex.read_key(st, "_0#discr", I64).t, bv(0))
    applied = bool(p.called(r"set_peer_params"))
    # accepted exactly when every CID the peer echoes matches what this endpoint saw on the wire; rejected
    # parameters are never applied, accepted ones always are
    if not cl:
        # the side is consulted unless the first comparison already failed
        return and_(not_(auth1), not_(ok), "false" if applied else "true")
    return and_(eq(ok, expected_ok), eq(ok, "true" if applied else "false"))


Q(name="e2_peer_params_cid_auth", props=["C14", "C04"], func=r"connection/mod\.rs:\d+:1: \d+:16>::handle_peer_params$",
  pure=[r"is_client"], allowed_panics=r"handle_error|capacity_overflow|alloc",
  functions=["Connection::handle_peer_params", "ConnectionId == (derived, inlined: len + raw_eq of the 20 bytes)"],
  pre=hpp_pre, post=hpp_post,
  bounds="every stored orig_rem_cid / initial_dst_cid / retry_src_cid and every received initial_src_cid / original_dst_cid / retry_src_cid (Option discriminants, length byte and all 20 content bytes symbolic), both sides; set_peer_params and the error constructor opaque",
  replay=("conn_peer_params_cid_auth_native", lambda m: [dict(server=s, which=w) for s in (0, 1) for w in range(0, 9)]))


# ------------------------------------------------------------------ C15: Connection::migrate - the new path starts challenged, the path to fall back to is never clobbered
def _pd(c, name):
    return c.field("connection/paths.rs", "PathData", name)


def mig_pre(c):
    # validity invariant of Option: the discriminant is 0 or 1
    PATH = "*_1.%d" % c.field("connection/mod.rs", "Connection", "path")
    return ule(c.inp(PATH + ".%d#discr" % _pd(c, "challenge"), I64), bv(1))


def mig_post(c, p):
    st = p.p.state
    PATH = "*_1.%d" % c.field("connection/mod.rs", "Connection", "path")
    PREV = "*_1.%d" % c.field("connection/mod.rs", "Connection", "prev_path")
    ch, pend = _pd(c, "challenge"), _pd(c, "challenge_pending")
    rd = lambda k, s: c.ex.read_key(st, k, s).t
    conj = []
    # exactly one new path object, built for the new remote address
    mk = p.called(r"PathData::(new|from_previous)$")
    if len(mk) != 1:
        return "false"
    if mk[0][0].endswith("PathData::new"):
        # a path built from scratch is capped by the peer's max_udp_payload_size (saturated to u16), C13
        a = mk[0][1][2]
        v = c.inp("*_1.%d.%d.0" % (c.field("connection/mod.rs", "Connection", "peer_params"), tp_field(c, "max_udp_payload_size")), BV64)
        want = ite("(bvugt %s %s)" % (v, bv(65535)), bv(65535, 16), "((_ extract 15 0) %s)" % v)
        if a[0] != "agg":
            return "false"
        snap = _Snap(st, mk[0][3]) if mk[0][3] is not None else st
        conj.append(eq(c.ex.read_key(snap, a[1] + "#discr", I64).t, bv(1)))
        conj.append(eq(c.ex.read_key(snap, a[1] + "@Some.0", ("bv", 16, False)).t, want))
    # the new path carries a fresh challenge that is still to be sent
    conj.append(eq(rd(PATH + ".%d#discr" % ch, I64), bv(1)))
    conj.append(rd(PATH + ".%d" % pend, BOOL))
    # the path-validation timer is armed
    ts = [x for x in p.called(r"TimerTable::set$")]
    if not ts:
        return "false"
    old_unchallenged = eq(c.inp(PATH + ".%d#discr" % ch, I64), bv(0))
    if (PREV + "#discr") in st.store:
        # the fallback path is replaced only by a path that is not itself awaiting validation, and what is
        # stored is that old path (same counters), now challenged
        conj.append(old_unchallenged)
        conj.append(eq(st.store[PREV + "#discr"].t, bv(1)))
        old = PREV + "@Some.0.1"
        conj.append(eq(rd(old + ".%d#discr" % ch, I64), bv(1)))
        conj.append(rd(old + ".%d" % pend, BOOL))
        # the two challenges are independent draws from the RNG: an answer to the one sent to the old address must not
        # validate the new (possibly spoofed) one (C07)
        if rd(old + ".%d@Some.0" % ch, BV64) == rd(PATH + ".%d@Some.0" % ch, BV64):
            return "false"
        for f in ("total_sent", "total_recvd"):
            conj.append(eq(rd(old + ".%d" % _pd(c, f), BV64), c.inp(PATH + ".%d" % _pd(c, f), BV64)))
        conj.append(eq(rd(old + ".%d" % _pd(c, "validated"), BOOL), c.inp(PATH + ".%d" % _pd(c, "validated"), BOOL)))
    else:
        # an unvalidated path being abandoned never becomes the path to return to
        conj.append(not_(old_unchallenged))
    return and_(*conj)


Q(name="e2_migrate", props=["C15", "C13", "C07"], func=r"connection/mod\.rs:\d+:1: \d+:16>::migrate$",
  pure=[r"PathData::new$", r"PathData::from_previous$", r"CidQueue::active$", r"Connection::pto$", r"into_inner$"],
  allowed_panics=r"expect_failed|attempt to",
  functions=["Connection::migrate"], pre=mig_pre, post=mig_post,
  bounds="every connection state and remote address; PathData::{new,from_previous} (covered by path_from_previous), pto, the RNG, timer arithmetic opaque; shared-reference arguments are read-only",
  replay=("conn_migrate_native", lambda m: [dict(old_challenged=a, old_pending=b, v4=v, big_peer=g) for g in (0, 1) for a in (0, 1) for b in (0, 1) for v in (0, 1)]))


# ------------------------------------------------------------------ C08: local close / kill - timers, state, exactly one Drained report
def _st(c):
    return "*_1.%d#discr" % c.field("connection/mod.rs", "Connection", "state")


def ci_pre(c):
    return ule(c.inp(_st(c), I64), bv(4))


def ci_post(c, p):
    st = p.p.state
    names = [x[0] for x in st.calls]
    closed0 = "(bvuge %s %s)" % (c.inp(_st(c), I64), bv(2))          # Closed | Draining | Drained
    cc = [i for i, n in enumerate(names) if re.search(r"close_common$", n)]
    sc = [i for i, n in enumerate(names) if re.search(r"set_close_timer$", n)]
    if not cc and not sc:
        # closing a connection that is already closed changes nothing: the running close timer is not re-armed
        ck = "*_1.%d" % c.field("connection/mod.rs", "Connection", "close")
        return and_(closed0, eq(c.ex.read_key(st, _st(c), I64).t, c.inp(_st(c), I64)), eq(c.ex.read_key(st, ck, BOOL).t, c.inp(ck, BOOL)))
    if len(cc) != 1 or len(sc) != 1 or cc[0] > sc[0]:
        return "false"       # every other timer is stopped first, THEN the close timer is armed (close_common stops all timers)
    return and_(not_(closed0), eq(c.ex.read_key(st, _st(c), I64).t, bv(2)),
                c.ex.read_key(st, "*_1.%d" % c.field("connection/mod.rs", "Connection", "close"), BOOL).t)


Q(name="e2_close_inner", props=["C08"], func=r"connection/mod\.rs:\d+:1: \d+:16>::close_inner$",
  inline=[r"State::is_closed$"], functions=["Connection::close_inner", "State::is_closed (inlined)"], pre=ci_pre, post=ci_post,
  bounds="every lifecycle state; close_common / set_close_timer opaque: their order, and that they do not run at all on an already closed connection, is what is decided",
  replay=("conn_close_inner_native", lambda m: [dict(state=s) for s in range(0, 4)]))


def kill_post(c, p):
    st = p.p.state
    names = [x[0] for x in st.calls]
    cc = [i for i, n in enumerate(names) if re.search(r"close_common$", n)]
    pb = [x for x in st.calls if re.search(r"push_back", x[0])]
    if len(cc) != 1 or len(pb) != 1:
        return "false"
    ev = c.ex.enums["EndpointEventInner"].index("Drained")
    arg = pb[0][1][1]
    key = arg[1] if arg[0] in ("agg", "ref") else None
    if key is None:
        return "false"
    return and_(eq(c.ex.read_key(st, _st(c), I64).t, bv(4)), eq(c.ex.read_key(pb[0][3] and _Snap(st, pb[0][3]) or st, key + "#discr", I64).t, bv(ev)))


class _Snap:
    """state view with the store as it was right before an opaque call (arguments moved into the call)"""
    def __init__(self, st, store):
        self.__dict__.update(st.__dict__)
        self.store = dict(store)
        if getattr(store, "epoch", None) is not None:
            self.epoch = dict(store.epoch)      # places untouched until then still read as their input values


Q(name="e2_kill", props=["C08"], func=r"connection/mod\.rs:\d+:1: \d+:16>::kill$",
  functions=["Connection::kill"], pre=lambda c: "true", post=kill_post,
  bounds="every connection state and error: all timers are stopped, the state becomes Drained and exactly one Drained event is queued for the endpoint",
  replay=("conn_kill_native", lambda m: [dict(state=s) for s in range(0, 3)]))


# ------------------------------------------------------------------ C09: switching to the next remote CID retires the skipped ones and re-registers the reset token
def urc_post(c, p):
    st = p.p.state
    nx = p.called(r"CidQueue::next$")
    ext = p.called(r"Vec.*::extend")
    srt = p.called(r"set_reset_token$")
    if len(nx) != 1:
        return "false"
    res = nx[0][2]                      # "call:CidQueue::next(..)": Option<(ResetToken, Range<u64>)>
    got = eq(c.inp(res + "#discr", I64), bv(1))
    if not ext and not srt:
        return not_(got)                # nothing to switch to: nothing is retired, nothing re-registered
    if len(ext) != 1 or len(srt) != 1:
        return "false"
    conj = [got]
    # the retired range goes to the Data space's pending RETIRE_CONNECTION_ID list ...
    recv, rng = ext[0][1][0], ext[0][1][1]
    want_suffix = ".%d.%d" % (c.field("connection/spaces.rs", "PacketSpace", "pending"), c.field("connection/spaces.rs", "Retransmits", "retire_cids"))
    if recv[0] != "ref" or not str(recv[1]).endswith(want_suffix) or "SpaceId', 2)" not in str(recv[1]):
        return "false"
    snap = _Snap(st, ext[0][3])
    for f in (".0", ".1"):
        conj.append(eq(c.ex.read_key(snap, rng[1] + f, BV64).t, c.inp(res + "@Some.0.1" + f, BV64)))
    # ... and the token that came with the new CID is the one announced to the endpoint
    tok = srt[0][1][1]
    snap2 = _Snap(st, srt[0][3])
    for i in range(16):
        conj.append(eq(c.ex.read_key(snap2, tok[1] + ".0[%d]" % i, U8).t, c.inp(res + "@Some.0.0.0[%d]" % i, U8)))
    return and_(*conj)


Q(name="e2_update_rem_cid", props=["C09"], func=r"connection/mod\.rs:\d+:1: \d+:16>::update_rem_cid$",
  pure=[r"CidQueue::next$", r"index_mut$"], functions=["Connection::update_rem_cid"],
  pre=lambda c: ule(c.inp("call:CidQueue::next(*_1.%d)#discr" % c.field("connection/mod.rs", "Connection", "rem_cids"), I64), bv(1)), post=urc_post,
  bounds="every result of CidQueue::next (covered by cidq_next_step): the retired sequence range is queued on the Data space and the new CID's reset token is the one handed to set_reset_token; Vec::extend / set_reset_token opaque",
  replay=("conn_update_rem_cid_native", lambda m: [dict(have_next=0), dict(have_next=1)]))


# ------------------------------------------------------------------ C03 / C10: header decoding never advances the cursor past the end (Buf::advance panics if it would)
def hd_post(c, p):
    st = p.p.state
    conj = []
    calls = st.calls
    for i, x in enumerate(calls):
        if not re.search(r"as Buf>::advance$", x[0]):
            continue
        n = x[1][1]
        if n[0] != "val":
            return "false"
        # the bound must come from `remaining()` observed on the same cursor with nothing consumed in between
        if i == 0 or not re.search(r"as Buf>::remaining$", calls[i - 1][0]) or calls[i - 1][1][0] != x[1][0]:
            return "false"
        r = c.ex.read_key(_Snap(st, x[3]), calls[i - 1][2], BV64).t if not str(calls[i - 1][2]).startswith("|") else calls[i - 1][2]
        conj.append(ule(n[1].t, r))
    return and_(*conj)


Q(name="e2_header_decode_advance", props=["C03", "C10"], func=r"packet\.rs:\d+:1: \d+:21>::decode$",
  functions=["ProtectedHeader::decode"], pre=lambda c: "true", post=hd_post, allowed_panics=r"attempt to",
  bounds="every path of the invariant-header decoder (all header forms): each Buf::advance(n) is dominated by n <= remaining() read from the same cursor immediately before (contract of Buf::advance: panics iff n > remaining()); field reads are opaque; arithmetic-overflow panics are not decided by this query",
  replay=("packet_header_decode_bounds_native", lambda m: [dict(first=0xc0), dict(first=0xd0), dict(first=0xe0), dict(first=0xf0), dict(first=0x40)]))


# ------------------------------------------------------------------ C05 / C06 / C13 / C08: the peer's transport parameters reach the mechanisms that enforce them
TP_INTS = ["max_idle_timeout", "max_udp_payload_size", "initial_max_data", "initial_max_stream_data_bidi_local", "initial_max_stream_data_bidi_remote",
           "initial_max_stream_data_uni", "initial_max_streams_bidi", "initial_max_streams_uni", "ack_delay_exponent", "max_ack_delay", "active_connection_id_limit"]


def spp_post(c, p):
    st = p.p.state
    conj = []
    sp = p.called(r"StreamsState::set_params$")
    if len(sp) != 1 or sp[0][1][1] != ("ref", "_2"):
        return "false"                      # the stream limits are taken from the received parameters
    PP = "*_1.%d" % c.field("connection/mod.rs", "Connection", "peer_params")
    for n in TP_INTS:
        i = tp_field(c, n)
        conj.append(eq(c.ex.read_key(st, "%s.%d.0" % (PP, i), BV64).t, c.inp("_2.%d.0" % i, BV64)))
    # the peer's max_udp_payload_size caps MTU discovery (values beyond u16 saturate)
    mt = p.called(r"on_peer_max_udp_payload_size_received$")
    if len(mt) != 1 or mt[0][1][1][0] != "val":
        return "false"
    v = c.inp("_2.%d.0" % tp_field(c, "max_udp_payload_size"), BV64)
    want = ite("(bvugt %s %s)" % (v, bv(65535)), bv(65535, 16), "((_ extract 15 0) %s)" % v)
    conj.append(eq(mt[0][1][1][1].t, want))
    want_ref = "*_1.%d.%d" % (c.field("connection/mod.rs", "Connection", "path"), _pd(c, "mtud"))
    if mt[0][1][0] != ("ref", want_ref):
        return "false"
    # the idle timeout is negotiated against the peer's max_idle_timeout
    ng = p.called(r"negotiate_max_idle_timeout$")
    if len(ng) != 1:
        return "false"
    snap = _Snap(st, st.store)
    b = ng[0][1][1]
    conj.append(eq(c.ex.read_key(st, b[1] + "#discr", I64).t, bv(1)))
    conj.append(eq(c.ex.read_key(st, b[1] + "@Some.0.0", BV64).t, c.inp("_2.%d.0" % tp_field(c, "max_idle_timeout"), BV64)))
    return and_(*conj)


Q(name="e2_set_peer_params", props=["C05", "C06", "C13", "C08", "C03"], func=r"connection/mod\.rs:\d+:1: \d+:16>::set_peer_params$",
  pure=[r"negotiate_max_idle_timeout$", r"get_max_ack_delay$"], inline=[r"VarInt::into_inner$"], allowed_panics=r"expect",
  functions=["Connection::set_peer_params"], pre=lambda c: "true", post=spp_post,
  bounds="every received parameter set: all eleven integer parameters are stored unchanged, StreamsState::set_params gets the received set, MTU discovery is told min(max_udp_payload_size, 65535), the idle timeout is negotiated against the received max_idle_timeout; callees opaque (covered by streams / mtud / negotiate_idle obligations)",
  replay=("conn_set_peer_params_native", lambda m: [dict(mups=1200), dict(mups=1452), dict(mups=65535), dict(mups=65536), dict(mups=66236), dict(mups=70000)]))


# ------------------------------------------------------------------ C05: an ACK releases send-window share exactly once (reset streams were settled at reset time)
def rao_post(c, p):
    st = p.p.state
    UD = "*_1.%d" % c.field("connection/streams/state.rs", "StreamsState", "unacked_data")
    ir = p.called(r"Send::is_reset$")
    ack = [x for x in st.calls if re.search(r"Send::ack$", x[0])]
    delta = "(bvsub %s %s)" % (c.inp("_2.1.1", BV64), c.inp("_2.1.0", BV64))
    first_havoc = next((x for x in st.calls if x[3] is not None and re.search(r"Send::ack$|stream_freed$|push_back|remove", x[0])), None)
    view = _Snap(st, first_havoc[3]) if first_havoc else st
    now = c.ex.read_key(view, UD, BV64).t
    if ack:
        if len(ack) != 1 or len(ir) != 1:
            return "false"
        return and_(not_(ir[0][2]), eq(now, "(bvsub %s %s)" % (c.inp(UD, BV64), delta)))
    # no ack processing: unknown stream, closed stream or reset stream - nothing is released
    conj = [eq(now, c.inp(UD, BV64))]
    if ir:
        conj.append(ir[0][2])
    return and_(*conj)


Q(name="e2_received_ack_of", props=["C05"], func=r"state\.rs:\d+:1: \d+:18>::received_ack_of$",
  pure=[r"Send::is_reset$"], allowed_panics=r"attempt to compute",
  functions=["StreamsState::received_ack_of"], pre=lambda c: "true", post=rao_post,
  bounds="every outcome of the stream lookup (hash map opaque), of Send::is_reset and of Send::ack, every acknowledged range: unacked_data is reduced by the range length exactly when the stream exists and is not reset, and is untouched otherwise",
  replay=("streams_received_ack_of_native", lambda m: [dict(reset=0), dict(reset=1)]))


# ------------------------------------------------------------------ C01 / C11: end of stream is reported only once every byte up to the final size has been read
def cn_pre(c):
    return eq(c.inp("*_1.%d#discr" % c.field("connection/streams/recv.rs", "Chunks", "state"), I64), bv(0))     # ChunksState::Readable


def cn_post(c, p):
    st = p.p.state
    RS = "**_1.%d@Readable.0.0.0" % c.field("connection/streams/recv.rs", "Chunks", "state")
    f = lambda n: c.field("connection/streams/recv.rs", "Recv", n)
    rstate = RS + ".%d" % f("state")
    end = c.inp(RS + ".%d" % f("end"), BV64)
    is_recv = eq(c.inp(rstate + "#discr", I64), bv(0))                       # RecvState::Recv { size }
    size_some = eq(c.inp(rstate + "@Recv.0#discr", I64), bv(1))
    size = c.inp(rstate + "@Recv.0@Some.0", BV64)
    rd = lambda k, s: c.ex.read_key(st, k, s).t
    ok = eq(rd("_0#discr", I64), bv(0))
    none = eq(rd("_0@Ok.0#discr", I64), bv(0))
    br = p.called(r"Assembler::bytes_read$")
    freed = p.called(r"stream_recv_freed$")
    got = p.called(r"Assembler::read$")
    if len(got) != 1:
        return "false"
    chunk = eq(c.ex.read_key(st, got[0][2] + "#discr", I64).t, bv(1))
    all_read = eq(br[0][2], end) if br else None
    finished = and_(is_recv, size_some, eq(size, end), all_read) if all_read else "false"
    # Ok(None) == "finished": only without a chunk, only in the Recv state with a known final size equal to the
    # highest offset received AND to the number of bytes the application has consumed; the stream is then freed
    conj = [imp(and_(ok, none), and_(not_(chunk), finished, "true" if freed else "false"))]
    # and conversely a fully read stream is not reported as blocked
    blocked = and_(not_(ok), eq(rd("_0@Err.0#discr", I64), bv(0)))
    if all_read:
        conj.append(imp(blocked, not_(finished)))
    return and_(*conj)


Q(name="e2_chunks_next_eos", props=["C01", "C11"], func=r"recv\.rs:\d+:1: \d+:20>::next$",
  pure=[r"Assembler::bytes_read$"], allowed_panics=r"attempt to compute|must not call|unreachable",
  functions=["Chunks::next"], pre=cn_pre, post=cn_post,
  bounds="every Recv state (final size known or not, any end / bytes_read), every outcome of Assembler::read (opaque; it may only touch the assembler): Ok(None) is returned exactly when no chunk is available, the final size is known, equals the highest received offset and equals the bytes consumed",
  replay=("streams_chunks_next_eos_native", lambda m: [dict(gap=1, ordered=1), dict(gap=1, ordered=0), dict(gap=0, ordered=1), dict(gap=0, ordered=0)]))


# ------------------------------------------------------------------ C19: probing for GSO support leaves no socket-wide segmentation behind
I32 = ("bv", 32, True)


def gso_post(c, p):
    st = p.p.state
    sets = [x for x in st.calls if re.search(r"set_socket_option$", x[0])]
    # model of the socket option: None = untouched (off), else the last value a SUCCESSFUL call stored;
    # a failed or unchecked call may or may not have stored its value
    conj = []
    may_be_on = "false"
    for x in sets:
        lvl, name, val = x[1][1], x[1][2], x[1][3]
        if lvl[0] != "val" or name[0] != "val" or val[0] != "val":
            return "false"
        is_seg = and_(eq(lvl[1].t, bv(17, 32)), eq(name[1].t, bv(103, 32)))       # SOL_UDP, UDP_SEGMENT
        nonzero = not_(eq(val[1].t, bv(0, 32)))
        okk = eq(c.ex.read_key(st, x[2] + "#discr", I64).t, bv(0))
        # after this call: on if it set a non-zero size and succeeded; off if it set zero; else unchanged
        may_be_on = ite(is_seg, ite(nonzero, ite(okk, "true", may_be_on), "false"), may_be_on)
    conj.append(not_(may_be_on))
    # and segmentation is only advertised when the probe succeeded
    ret = c.ex.read_key(st, "_0", BV64).t
    first_ok = eq(c.ex.read_key(st, sets[0][2] + "#discr", I64).t, bv(0)) if sets else "false"
    conj.append(imp("(bvugt %s %s)" % (ret, bv(1)), first_ok))
    return and_(*conj)


Q(name="e2_gso_probe_leaves_socket_clean", props=["C19"], crate="quinn-udp", func=r"^max_gso_segments$",
  functions=["gso::max_gso_segments"], pre=lambda c: "true", post=gso_post,
  bounds="every outcome of the kernel-version check and of each setsockopt (opaque FFI): when the function returns, no successful UDP_SEGMENT setsockopt with a non-zero size is the last one - transmits that carry no UDP_SEGMENT control message are therefore never segmented by the kernel; assumption: switching the option off right after it was switched on does not fail (the code ignores that result)",
  replay=("udp_gso_probe_native", lambda m: [dict(x=0)]))


# ------------------------------------------------------------------ C08: what the idle and close timers are armed with (RFC 9000 10.1: max(idle timeout, 3 PTO); 10.2: 3 PTO)
def _timer_idx(c, name):
    return c.ex.enums["Timer"].index(name)


def _conn(c, n):
    return "*_1.%d" % c.field("connection/mod.rs", "Connection", n)


def _timer_call(x):
    """(timer index, canonical origin of the instant) of a TimerTable::set / stop call"""
    t = x[1][1]
    idx = int(re.search(r"'Timer', (\d+)\)", str(t[1])).group(1)) if t[0] == "other" else None
    when = x[1][2][1] if len(x[1]) > 2 and x[1][2][0] == "agg" else None
    return idx, when


def rit_post(c, p):
    st = p.p.state
    tt = [x for x in st.calls if re.search(r"TimerTable::(set|stop)$", x[0])]
    idle = _conn(c, "idle_timeout")
    has_idle = eq(c.inp(idle + "#discr", I64), bv(1))
    closed = "(bvuge %s %s)" % (c.inp(_st(c), I64), bv(2))
    if not tt:
        return not_(has_idle)                       # idle timeout disabled: the timer is left alone
    if len(tt) != 1:
        return "false"
    idx, when = _timer_call(tt[0])
    if idx != _timer_idx(c, "Idle"):
        return "false"
    if tt[0][0].endswith("stop"):
        return and_(has_idle, closed)               # a closed connection no longer idles out
    pto3 = "call:Duration::checked_mul(call:Connection::pto(*_1,_3),(_ bv3 32))@Some.0"
    t = idle + "@Some.0"
    want = ["call:<Instant as Add<Duration>>::add(_2,call:<Duration as Ord>::max(%s,%s))" % (a, b) for a, b in ((t, pto3), (pto3, t))]
    return and_(has_idle, not_(closed), "true" if when in want else "false")


Q(name="e2_reset_idle_timeout", props=["C08"], func=r"connection/mod\.rs:\d+:1: \d+:16>::reset_idle_timeout$",
  inline=[r"State::is_closed$"], pure=[r"Connection::pto$", r"checked_mul$", r"Ord>::max$", r"Add<Duration>>::add$"], allowed_panics=r"expect_failed",
  functions=["Connection::reset_idle_timeout"], pre=lambda c: and_(ule(c.inp(_st(c), I64), bv(4)), ule(c.inp(_conn(c, "idle_timeout") + "#discr", I64), bv(1))), post=rit_post,
  bounds="every lifecycle state, idle timeout present or not, every packet-number space: the Idle timer is untouched without an idle timeout, stopped on a closed connection, and otherwise set to now + max(idle_timeout, 3 * pto(space)); Duration / Instant arithmetic and pto are uninterpreted functions - the obligation is WHICH values are combined how",
  replay=("conn_idle_close_timers_native", lambda m: [dict(state=s, has_idle=h) for s in (0, 1, 2) for h in (0, 1)]))


def sct_post(c, p):
    st = p.p.state
    tt = [x for x in st.calls if re.search(r"TimerTable::(set|stop)$", x[0])]
    if len(tt) != 1 or not tt[0][0].endswith("set"):
        return "false"
    idx, when = _timer_call(tt[0])
    hs = _conn(c, "highest_space")
    want = "call:<Instant as Add<Duration>>::add(_2,call:Duration::checked_mul(call:Connection::pto(*_1,%s),(_ bv3 32))@Some.0)" % hs
    return "true" if (idx == _timer_idx(c, "Close") and when == want) else "false"


Q(name="e2_set_close_timer", props=["C08"], func=r"connection/mod\.rs:\d+:1: \d+:16>::set_close_timer$",
  pure=[r"Connection::pto$", r"checked_mul$", r"Add<Duration>>::add$"], allowed_panics=r"expect_failed",
  functions=["Connection::set_close_timer"], pre=lambda c: "true", post=sct_post,
  bounds="every connection state: the Close timer (and only it) is set to now + 3 * pto(highest space); arithmetic uninterpreted",
  replay=("conn_idle_close_timers_native", lambda m: [dict(state=s, has_idle=1) for s in (0, 1)]))


# ------------------------------------------------------------------ C09 / C08: Endpoint::accept never leaves a route to a connection attempt that no longer exists
def acc_post(c, p):
    st = p.p.state
    dst = "_2.%d.%d.%d" % (c.field("endpoint.rs", "Incoming", "packet"), c.field("packet.rs", "InitialPacket", "header"), c.field("packet.rs", "InitialHeader", "dst_cid"))
    rem = p.called(r"ConnectionIndex::remove_initial$")
    ins = p.called(r"ConnectionIndex::insert_initial$")
    add = p.called(r"Endpoint::add_connection$")
    slab = p.called(r"Slab.*::(try_)?remove$")
    is_err = eq(c.ex.read_key(st, "_0#discr", I64).t, bv(1))
    if not slab:
        return "false"            # the buffered datagrams of the attempt are always released
    if not add:
        # refused before a connection exists: the Initial route of exactly this attempt is removed, an error is returned
        ok = len(rem) == 1 and not ins and rem[0][1][1] == ("agg", dst) and rem[0][1][0][0] == "ref"
        return and_(is_err, "true" if ok else "false")
    # a connection was created: it takes over the route for the same destination CID
    ok = len(ins) == 1 and not rem and ins[0][1][1] == ("agg", dst) and ins[0][1][2] == add[0][1][1]
    return "true" if ok else "false"


Q(name="e2_endpoint_accept_routing", props=["C09", "C08", "C03"], func=r"endpoint\.rs:\d+:1: \d+:14>::accept$",
  pure=[r"cids_exhausted$"], ignore_untranslatable=r"^loop at", allowed_panics=r"abort|expect_failed|attempt to compute",
  functions=["Endpoint::accept"], pre=lambda c: "true", post=acc_post,
  bounds="every path of accept up to the replay of buffered datagrams (paths entering that loop are outside; they are past the routing decisions): whenever the attempt is abandoned before a connection exists (stale, CIDs exhausted, Initial fails authentication) the Initial route for its destination CID is removed; whenever a connection is created the route is re-pointed to its handle; crypto, slab, hash maps opaque",
  replay=("endpoint_accept_auth_failure_native", lambda m: [dict(x=0)]))


# ------------------------------------------------------------------ C09 / C08: every way of disposing of a connection attempt releases its route and its buffer
def cui_post(c, p):
    st = p.p.state
    rem = p.called(r"ConnectionIndex::remove_initial$")
    slab = p.called(r"Slab.*::(try_)?remove$")
    dst = "*_2.%d.%d.%d" % (c.field("endpoint.rs", "Incoming", "packet"), c.field("packet.rs", "InitialPacket", "header"), c.field("packet.rs", "InitialHeader", "dst_cid"))
    idx = "|in:*_2.%d|" % c.field("endpoint.rs", "Incoming", "incoming_idx")
    ok = (len(rem) == 1 and rem[0][1][1] == ("agg", dst) and len(slab) == 1 and slab[0][1][1][0] == "val" and slab[0][1][1][1].t == idx)
    return "true" if ok else "false"


Q(name="e2_clean_up_incoming", props=["C09", "C08"], func=r"endpoint\.rs:\d+:1: \d+:14>::clean_up_incoming$",
  allowed_panics=r"attempt to compute|expect_failed|invalid key", functions=["Endpoint::clean_up_incoming"], pre=lambda c: "true", post=cui_post,
  bounds="every attempt: the Initial route of the attempt's destination CID is removed and the attempt's own buffer slot is released; hash map / slab opaque",
  replay=("endpoint_dispose_incoming_native", lambda m: [dict(refuse=0), dict(refuse=1)]))


def disp_post(c, p):
    names = [x for x in p.p.state.calls if re.search(r"Endpoint::clean_up_incoming$", x[0])]
    ok = len(names) == 1 and names[0][1][0] == ("ref", "*_1") and names[0][1][1] == ("ref", "_2")
    return "true" if ok else "false"


for _f in ("refuse", "ignore"):
    Q(name="e2_endpoint_%s_cleans_up" % _f, props=["C09", "C08"], func=r"endpoint\.rs:\d+:1: \d+:14>::%s$" % _f,
      allowed_panics=r"handle_error|capacity_overflow|alloc|attempt to", functions=["Endpoint::%s" % _f], pre=lambda c: "true", post=disp_post,
      bounds="every attempt: Endpoint::%s disposes of the attempt through clean_up_incoming exactly once (see e2_clean_up_incoming)" % _f,
      replay=("endpoint_dispose_incoming_native", lambda m: [dict(refuse=0), dict(refuse=1)]))


# ------------------------------------------------------------------ C06: STREAM frames are checked against, and charged to, the connection-level receive limit
def _sstate(c, n):
    return "*_1.%d" % c.field("connection/streams/state.rs", "StreamsState", n)


def recvd_post(c, p):
    st = p.p.state
    calls = st.calls
    ing = [i for i, x in enumerate(calls) if re.search(r"Recv::ingest$", x[0])]
    if not ing:
        return "true"                      # unknown / closed / finished stream or illegal id: nothing is ingested
    if len(ing) != 1:
        return "false"
    i = ing[0]
    x = calls[i]
    snap = _Snap(st, x[3])
    DR, LM = _sstate(c, "data_recvd"), _sstate(c, "local_max_data")
    a = x[1]
    if a[2][0] != "val" or a[3][0] != "val" or a[4][0] != "val":
        return "false"
    conj = [eq(a[2][1].t, c.inp("_3", BV64)),                                   # payload_len as given
            eq(a[3][1].t, c.ex.read_key(snap, DR, BV64).t),                    # bytes received so far on the connection
            eq(a[4][1].t, c.ex.read_key(snap, LM, BV64).t)]                    # the limit WE advertised (not the peer's)
    ok = eq(c.ex.read_key(st, x[2] + "#discr", I64).t, bv(0))
    nxt = next((y for y in calls[i + 1:] if y[3] is not None), None)
    view = _Snap(st, nxt[3]) if nxt else st
    after = c.ex.read_key(view, DR, BV64).t
    new_bytes = c.ex.read_key(st, x[2] + "@Ok.0.0", BV64).t
    sat = "(ite (bvult (bvadd %s %s) %s) %s (bvadd %s %s))" % (a[3][1].t, new_bytes, a[3][1].t, bv((1 << 64) - 1), a[3][1].t, new_bytes)
    conj.append(imp(ok, eq(after, sat)))
    # a violation reported by ingest ends the call with that error
    conj.append(imp(not_(ok), eq(c.ex.read_key(st, "_0#discr", I64).t, bv(1))))
    return and_(*conj)


Q(name="e2_streams_received_accounting", props=["C06"], func=r"state\.rs:\d+:1: \d+:18>::received$",
  pure=[r"is_receiving$"], allowed_panics=r"attempt to|unwrap_failed", release_arith=True,
  functions=["StreamsState::received"], pre=lambda c: "true", post=recvd_post,
  bounds="every stream lookup outcome and every verdict of Recv::ingest (covered by recv_ingest_* obligations): ingest is given the frame's payload length, the connection's data_recvd and OUR advertised local_max_data as they are at that moment; on success data_recvd grows by exactly the new bytes (saturating); on failure the error is returned",
  replay=("streams_received_accounting_native", lambda m: [dict(over=0), dict(over=1)]))


# ------------------------------------------------------------------ C06 / C11: RESET_STREAM is checked against the connection-level limit and its unread remainder is credited back
def rr_post(c, p):
    st = p.p.state
    calls = st.calls
    rs = [x for x in calls if re.search(r"Recv::reset$", x[0])]
    if not rs:
        return "true"
    if len(rs) != 1:
        return "false"
    x = rs[0]
    snap = _Snap(st, x[3])
    a = x[1]
    if a[1] != ("agg", "_2.1") or a[2] != ("agg", "_2.2") or a[3][0] != "val" or a[4][0] != "val":
        return "false"                       # (error code, final offset) of THIS frame
    conj = [eq(a[3][1].t, c.ex.read_key(snap, _sstate(c, "data_recvd"), BV64).t),
            eq(a[4][1].t, c.ex.read_key(snap, _sstate(c, "local_max_data"), BV64).t)]
    ok = eq(c.ex.read_key(st, x[2] + "#discr", I64).t, bv(0))
    conj.append(imp(not_(ok), eq(c.ex.read_key(st, "_0#discr", I64).t, bv(1))))
    cr = [y for y in calls if re.search(r"add_read_credits$", y[0])]
    br = [y for y in calls if re.search(r"Assembler::bytes_read$", y[0])]
    fin = c.inp("_2.2.0", BV64)
    if cr:
        if len(cr) != 1 or not br or cr[0][1][1][0] != "val":
            return "false"
        # what the application will never read is returned to the peer as connection-level credit - ONCE: a stopped
        # stream was already credited for everything it received (at stop() and as data arrived), an open one only
        # for what the application read
        rsp = str(x[1][0][1])                  # the Recv the reset was applied to
        snap2 = _Snap(st, cr[0][3])
        stopped = c.ex.read_key(snap2, rsp + ".%d" % c.field("connection/streams/recv.rs", "Recv", "stopped"), BOOL).t
        end = c.ex.read_key(snap2, rsp + ".%d" % c.field("connection/streams/recv.rs", "Recv", "end"), BV64).t
        conj.append(eq(cr[0][1][1][1].t, "(bvsub %s %s)" % (fin, ite(stopped, end, br[0][2]))))
    return and_(*conj)


Q(name="e2_streams_received_reset", props=["C06", "C11"], func=r"state\.rs:\d+:1: \d+:18>::received_reset$",
  pure=[r"Assembler::bytes_read$"], inline=[r"VarInt::into_inner$", r"u64 as From<VarInt>>::from$"], allowed_panics=r"attempt to|unwrap_failed",
  functions=["StreamsState::received_reset"], pre=lambda c: "true", post=rr_post,
  bounds="every stream lookup outcome and every verdict of Recv::reset (covered by recv_reset): reset is given this frame's error code and final offset, the connection's data_recvd and OUR local_max_data as they are at that moment; an error is returned as is; the credit handed back is final_offset minus what was already credited (everything received on a stopped stream, everything read on an open one)",
  replay=("streams_stop_then_reset_credit_native", lambda m: [dict(buffered=100, extra=0), dict(buffered=100, extra=50), dict(buffered=0, extra=50)]))


# ------------------------------------------------------------------ C16 / C13: a DATAGRAM frame is written only if the frame AS ENCODED fits the remaining packet space
def dw_post(c, p):
    st = p.p.state
    pop = p.called(r"VecDeque.*::pop_front$")
    size = p.called(r"Datagram::size$")
    enc = p.called(r"Datagram::encode$")
    push = p.called(r"VecDeque.*::push_front")
    ret = c.ex.read_key(st, "_0", BOOL).t
    if len(pop) != 1:
        return "false"
    if not size:
        return and_(not_(ret), "true" if (not enc and not push) else "false")       # nothing queued
    if len(size) != 1 or size[0][1][1][0] != "val":
        return "false"
    buf_len, max_size = c.inp("*_2.1", BV64), c.inp("_3", BV64)
    fits = ule("(bvadd %s %s)" % (zext(buf_len, 64), zext(size[0][2], 64)), zext(max_size, 64))
    if enc:
        # encoded with the same framing the size was computed for, into the caller's buffer; the payload is un-accounted
        same = len(enc) == 1 and enc[0][1][1][0] == "val" and enc[0][1][1][1].t == size[0][1][1][1].t and enc[0][1][0] == size[0][1][0] and enc[0][1][2] == ("ref", "*_2") and not push
        return and_(ret, fits, "true" if same else "false")
    # does not fit: the datagram goes back to the FRONT of the queue, nothing is written
    back = len(push) == 1 and push[0][1][1] == ("agg", pop[0][2] + "@Some.0")
    return and_(not_(ret), not_(fits), "true" if back else "false")


Q(name="e2_dgram_write", props=["C16", "C13"], func=r"datagrams\.rs[^>]*>::write$",
  pure=[r"Datagram::size$"], allowed_panics=r"attempt to compute",
  functions=["DatagramState::write"], pre=lambda c: ule(c.inp("*_2.1", BV64), bv((1 << 63) - 1)), post=dw_post,
  bounds="every queue state, buffer fill and size limit: a frame is written iff buffer length + Datagram::size(flag) <= limit, it is encoded with the SAME length flag the size was computed with (size/encode themselves: frame obligations), otherwise the datagram returns to the head of the queue; VecDeque opaque",
  replay=("dgram_write_native", lambda m: [dict(l0=l, used=u, max_size=mx) for (l, u, mx) in ((50, 10, 62), (50, 10, 61), (50, 10, 63), (200, 0, 202), (200, 0, 203), (0, 5, 7), (0, 5, 6))]))


# ------------------------------------------------------------------ C04: key updates - the key phase flips exactly when the peer's update was authenticated
def dp_post(c, p):
    st = p.p.state
    body = p.called(r"decrypt_packet_body$")
    if len(body) != 1:
        return "false"
    res = body[0][2]
    # the decision inputs are the current key phase and the previous / next keys of THIS connection
    a = body[0][1]
    kp = c.inp(_conn(c, "key_phase"), BOOL)
    if a[3][0] != "val" or a[3][1].t != kp or a[1] != ("ref", _conn(c, "spaces")):
        return "false"
    is_err = eq(c.inp(res + "#discr", I64), bv(1))
    some = eq(c.inp(res + "@Ok.0#discr", I64), bv(1))
    number = c.inp(res + "@Ok.0@Some.0.0", BV64)
    acked = c.inp(res + "@Ok.0@Some.0.1", BOOL)
    incoming = c.inp(res + "@Ok.0@Some.0.2", BOOL)
    upd = p.called(r"Connection::update_keys$")
    tmr = p.called(r"set_key_discard_timer$")
    ret_ok = eq(c.ex.read_key(st, "_0#discr", I64).t, bv(0))
    conj = []
    if upd:
        # keys are rotated once, as a REMOTE update, ending the old phase at this packet
        if len(upd) != 1 or upd[0][1][2][0] != "val" or upd[0][1][2][1].t != "true":
            return "false"
        snap = _Snap(st, upd[0][3])
        ep = upd[0][1][1][1]
        conj += [not_(is_err), some, incoming, eq(c.ex.read_key(snap, ep + "#discr", I64).t, bv(1)), eq(c.ex.read_key(snap, ep + "@Some.0.0", BV64).t, number)]
        if not tmr:
            return "false"
    else:
        conj.append(or_(is_err, not_(some), not_(incoming)))
        # without a rotation the key phase is untouched
        conj.append(eq(c.ex.read_key(st, _conn(c, "key_phase"), BOOL).t, kp))
    # failure to decrypt is reported, success returns the packet number
    conj.append(eq(ret_ok, not_(is_err)))
    conj.append(imp(and_(not_(is_err), some), eq(c.ex.read_key(st, "_0@Ok.0@Some.0", BV64).t, number)))
    return and_(*conj)


Q(name="e2_decrypt_packet_key_update", props=["C04"], func=r"connection/mod\.rs:\d+:1: \d+:16>::decrypt_packet$",
  pure=[r"decrypt_packet_body$", r"Header::space$"], allowed_panics=r"attempt to",
  modifies=lambda c: {r"set_key_discard_timer$": [_conn(c, "timers")]},
  functions=["Connection::decrypt_packet"],
  pre=lambda c: "true", post=dp_post,
  bounds="every outcome of packet_crypto::decrypt_packet_body (opaque: error, unprotected, or packet number with the two key-update flags): keys are rotated exactly when the body authenticated under the NEXT keys (incoming_key_update), once, as a remote update ending the old phase at this packet number, and the discard timer is armed; otherwise the key phase is untouched; the packet number returned is the authenticated one; set_key_discard_timer is assumed to write the timer table only",
  replay=("conn_update_keys_native", lambda m: [dict(remote=0), dict(remote=1)]))


def uk_post(c, p):
    st = p.p.state
    kp = _conn(c, "key_phase")
    prev = _conn(c, "prev_crypto")
    conj = [eq(c.ex.read_key(st, kp, BOOL).t, not_(c.inp(kp, BOOL))),
            eq(c.ex.read_key(st, prev + "#discr", I64).t, bv(1)),
            eq(c.ex.read_key(st, prev + "@Some.0.%d" % c.field("connection/packet_crypto.rs", "PrevCrypto", "update_unacked"), BOOL).t, c.inp("_3", BOOL))]
    ep = prev + "@Some.0.%d" % c.field("connection/packet_crypto.rs", "PrevCrypto", "end_packet")
    conj.append(eq(c.ex.read_key(st, ep + "#discr", I64).t, c.inp("_2#discr", I64)))
    conj.append(imp(eq(c.inp("_2#discr", I64), bv(1)), eq(c.ex.read_key(st, ep + "@Some.0.0", BV64).t, c.inp("_2@Some.0.0", BV64))))
    # packets sent under the new keys are counted from zero (confidentiality limit)
    im = p.called(r"index_mut$")
    if not im:
        return "false"
    swk = "*%s.%d" % (im[-1][2], c.field("connection/spaces.rs", "PacketSpace", "sent_with_keys"))
    if "'SpaceId', 2)" not in im[-1][2]:
        return "false"
    conj.append(eq(c.ex.read_key(st, swk, BV64).t, bv(0)))
    return and_(*conj)


Q(name="e2_update_keys", props=["C04"], func=r"connection/mod\.rs:\d+:1: \d+:16>::update_keys$",
  pure=[r"index_mut$"], allowed_panics=r"expect_failed|unwrap_failed|attempt to",
  functions=["Connection::update_keys"], pre=lambda c: ule(c.inp("_2#discr", I64), bv(1)), post=uk_post,
  bounds="every connection state: one key update flips the key phase exactly once, keeps the old keys as prev_crypto tagged with who initiated the update and with the packet that ended the phase, and restarts the sent-with-these-keys counter of the Data space; key derivation opaque",
  replay=("conn_update_keys_native", lambda m: [dict(remote=0), dict(remote=1)]))


# ------------------------------------------------------------------ C04: which keys authenticate a packet (RFC 9001 6.3: current / previous / next key phase, 0-RTT)
def dpb_pre(c):
    return and_(ule(c.inp("_5#discr", I64), bv(1)), ule(c.inp("call:Header::space(*_1.0)#discr", I64), bv(2)))


def dpb_post(c, p):
    st = p.p.state
    dec = p.called(r"PacketKey>::decrypt$")
    if not dec:
        return "true"                         # unprotected packet / no packet number: nothing is decrypted
    if len(dec) != 1:
        return "false"
    d = dec[0]
    recv = str(d[1][0][1])
    z = "|call:Header::is_0rtt(*_1.0)|"
    pk, ck = "|call:Header::key_phase(*_1.0)|", c.inp("_4", BOOL)
    for n in (z, pk):
        if n not in c.ex.decls:
            return "false"
    space = c.inp("call:Header::space(*_1.0)#discr", I64)
    mismatch = and_(not_(eq(pk, ck)), eq(space, bv(2)))
    flt = p.called(r"Option.*::filter")
    fsome = eq(c.ex.read_key(st, flt[0][2] + "#discr", I64).t, bv(1)) if flt else None
    if flt and flt[0][1][0] != ("agg", "_5"):
        return "false"                        # the candidate for "previous keys" is this connection's prev_crypto
    if recv.startswith("**_3@Some"):
        which, want = "0rtt", z
    elif recv.startswith("**call:<[PacketSpace; 3] as Index<SpaceId>>::index(*_2,call:Header::space(*_1.0))"):
        which, want = "current", and_(not_(z), not_(mismatch))
    elif flt and recv.startswith("**" + flt[0][2] + "@Some"):
        which, want = "prev", and_(not_(z), mismatch, fsome)
    elif recv.startswith("**_6@Some"):
        which, want = "next", and_(not_(z), mismatch, not_(fsome) if fsome else "false")
    else:
        return "false"
    conj = [want]
    # the packet is authenticated under its own expanded packet number, header and payload
    num = p.called(r"PacketNumber::expand$")
    if not num or d[1][1][0] != "val" or d[1][1][1].t != num[0][2] or d[1][3] != ("ref", "*_1.%d" % c.field("packet.rs", "Packet", "payload")):
        return "false"
    rd = lambda k, s: c.ex.read_key(st, k, s).t
    dec_ok = eq(rd(d[2] + "#discr", I64), bv(0))
    is_ok = eq(rd("_0#discr", I64), bv(0))
    # a packet that does not authenticate is dropped silently and never yields a result
    conj.append(imp(not_(dec_ok), and_(not_(is_ok), eq(rd("_0@Err.0#discr", I64), bv(0)))))
    some = and_(is_ok, eq(rd("_0@Ok.0#discr", I64), bv(1)))
    conj.append(imp(is_ok, and_(dec_ok, eq(rd("_0@Ok.0#discr", I64), bv(1)))))
    conj.append(imp(some, eq(rd("_0@Ok.0@Some.0.0", BV64), num[0][2])))
    conj.append(imp(some, eq(rd("_0@Ok.0@Some.0.2", BOOL), "true" if which == "next" else "false")))
    if which == "next":
        # a peer-initiated key update must move forward and may not overtake an unacknowledged update of its own
        rx = c.inp("*call:<[PacketSpace; 3] as Index<SpaceId>>::index(*_2,call:Header::space(*_1.0)).%d" % c.field("connection/spaces.rs", "PacketSpace", "rx_packet"), BV64)
        prev_some = eq(c.inp("_5#discr", I64), bv(1))
        unacked = c.inp("*_5@Some.0.%d" % c.field("connection/packet_crypto.rs", "PrevCrypto", "update_unacked"), BOOL)
        conj.append(imp(some, and_("(bvugt %s %s)" % (num[0][2], rx), not_(and_(prev_some, unacked)))))
    return and_(*conj)


Q(name="e2_decrypt_packet_body_keys", props=["C04"], func=r"^decrypt_packet_body$",
  pure=[r"Header::space$", r"Header::number$", r"PacketNumber::expand$", r"key_phase$", r"is_0rtt$", r"is_protected$", r"reserved_bits_valid$", r"Index<SpaceId>>::index$"],
  allowed_panics=r"attempt to|unwrap_failed|handle_error|capacity_overflow",
  functions=["packet_crypto::decrypt_packet_body"], pre=dpb_pre, post=dpb_post,
  bounds="every header (space, key-phase bit, 0-RTT or not), connection key phase, previous / next keys present or not, every verdict of the AEAD (opaque): 0-RTT packets use the 0-RTT keys; a packet of the current phase (or outside the Data space) the current keys; a phase mismatch the previous keys iff Option::filter keeps prev_crypto (predicate: e2_decrypt_prev_filter), else the next keys; an unauthentic packet yields Err(None); incoming_key_update is reported exactly for packets authenticated under the next keys, and only with a packet number above rx_packet and no unacknowledged update outstanding",
  replay=("conn_update_keys_native", lambda m: [dict(remote=1), dict(remote=0)]))


def dpf_post(c, p):
    st = p.p.state
    ep = "**_2.%d" % c.field("connection/packet_crypto.rs", "PrevCrypto", "end_packet")
    none = eq(c.inp(ep + "#discr", I64), bv(0))
    pn = c.inp(ep + "@Some.0.0", BV64)
    number = c.inp("*_1.0", BV64)
    return eq(c.ex.read_key(st, "_0", BOOL).t, or_(none, ult(number, pn)))


Q(name="e2_decrypt_prev_filter", props=["C04"], func=r"^decrypt_packet_body::\{closure#0\}$",
  inline=[r"decrypt_packet_body::\{closure#0\}::\{closure#0\}$", r"is_none_or"],
  functions=["packet_crypto::decrypt_packet_body::{closure#0} (the predicate handed to Option::filter)"],
  pre=lambda c: ule(c.inp("**_2.%d#discr" % c.field("connection/packet_crypto.rs", "PrevCrypto", "end_packet"), I64), bv(1)), post=dpf_post,
  bounds="every packet number and every end_packet: the previous keys are eligible iff the previous phase has no end packet yet or the packet number is below it",
  replay=("conn_update_keys_native", lambda m: [dict(remote=1), dict(remote=0)]))


# ------------------------------------------------------------------ C16: what Datagrams::max_size promises and what Datagrams::send admits
def dms_post(c, p):
    st = p.p.state
    mtu = "|call:PathData::current_mtu(**_1.0.%d)|" % c.field("connection/mod.rs", "Connection", "path")
    ovh = next((x[2] for x in st.calls if re.search(r"predict_1rtt_overhead$", x[0])), None)
    if ovh is None or mtu not in c.ex.decls:
        return "false"
    peer = "**_1.0.%d.%d" % (c.field("connection/mod.rs", "Connection", "peer_params"), tp_field(c, "max_datagram_frame_size"))
    has_peer = eq(c.inp(peer + "#discr", I64), bv(1))
    lim = c.inp(peer + "@Some.0.0", BV64)
    BOUND = bv(9)                                       # Datagram::SIZE_BOUND: type byte + 8-byte length
    rd = lambda k, s: c.ex.read_key(st, k, s).t
    some = eq(rd("_0#discr", I64), bv(1))
    room = "(bvsub (bvsub %s %s) %s)" % (zext(mtu, 48), ovh, BOUND)
    peer_room = ite(ult(lim, BOUND), bv(0), "(bvsub %s %s)" % (lim, BOUND))
    want = ite(ult(peer_room, room), peer_room, room)
    return and_(eq(some, has_peer), imp(some, eq(rd("_0@Some.0", BV64), want)))


Q(name="e2_datagrams_max_size", props=["C16", "C13"], func=r"datagrams\.rs:\d+:1: \d+:19>::max_size$",
  pure=[r"current_mtu$", r"predict_1rtt_overhead$"], allowed_panics=r"attempt to compute", release_arith=True,
  assume=lambda c, p: and_("true", *(["(bvuge %s (_ bv1200 16))" % x[2] for x in p.called(r"current_mtu$") if str(x[2]).startswith("|")] + [ule(x[2], bv(400)) for x in p.called(r"predict_1rtt_overhead$") if str(x[2]).startswith("|")])),
  functions=["Datagrams::max_size"], pre=lambda c: ule(c.inp("**_1.0.%d.%d#discr" % (c.field("connection/mod.rs", "Connection", "peer_params"), tp_field(c, "max_datagram_frame_size")), I64), bv(1)), post=dms_post,
  bounds="every MTU estimate, packet overhead and peer limit: None iff the peer did not advertise max_datagram_frame_size; otherwise min(peer limit - 9 (saturating), current_mtu - predicted 1-RTT overhead - 9), i.e. a frame with its largest length field always fits one packet on the current path and the peer's limit; current_mtu / predict_1rtt_overhead opaque",
  replay=("dgram_api_native", lambda m: [dict(peer=p_, len_=l, drop=0) for (p_, l) in ((65535, 100), (50, 41), (50, 42), (5, 0))]))


def dsend_post(c, p):
    st = p.p.state
    cfg = "***_1.0.%d.0.2" % c.field("connection/mod.rs", "Connection", "config")
    recv_enabled = eq(c.inp("%s.%d#discr" % (cfg, c.field("config/transport.rs", "TransportConfig", "datagram_receive_buffer_size")), I64), bv(1))
    sbs = c.inp("%s.%d" % (cfg, c.field("config/transport.rs", "TransportConfig", "datagram_send_buffer_size")), BV64)
    ms = p.called(r"Datagrams::max_size$")
    rd = lambda k, s: c.ex.read_key(st, k, s).t
    is_err = eq(rd("_0#discr", I64), bv(1))
    kind = rd("_0@Err.0#discr", I64)          # Disabled = 1? resolved below through the enum table
    E = c.ex.enums["SendDatagramError"]
    n = c.inp("_2.1", BV64)                   # Bytes { ptr, len, .. }: len
    drop = c.inp("_3", BOOL)
    push = p.called(r"VecDeque.*::push_back")
    mk = p.called(r"make_space_for$")
    hs = p.called(r"has_send_buffer_space$")
    if not ms:
        return and_(not_(recv_enabled), is_err, eq(kind, bv(E.index("Disabled"))), "true" if not push else "false")
    supported = eq(c.inp(ms[0][2] + "#discr", I64), bv(1))
    mx = c.inp(ms[0][2] + "@Some.0", BV64)
    cap = ite(ult(sbs, mx), sbs, mx)
    too_large = "(bvugt %s %s)" % (n, cap)
    conj = [recv_enabled]
    if push:
        # admitted: supported, fits one packet AND the send buffer; room was made (drop) or was there (no drop)
        conj += [not_(is_err), supported, not_(too_large)]
        if mk:
            conj += [drop, "true" if (mk[0][1][1][0] == "val" and mk[0][1][1][1].t == n and mk[0][1][2][1].t == sbs) else "false"]
        elif hs:
            conj += [not_(drop), hs[0][2], "true" if (hs[0][1][1][1].t == n and hs[0][1][2][1].t == sbs) else "false"]
        else:
            return "false"
        pushed = push[0][1][1]
        conj.append("true" if pushed[0] == "agg" else "false")
    else:
        conj.append(is_err)
        conj.append(imp(not_(supported), eq(kind, bv(E.index("UnsupportedByPeer")))))
        conj.append(imp(and_(supported, too_large), eq(kind, bv(E.index("TooLarge")))))
        if hs:
            conj += [supported, not_(too_large), not_(drop), not_(hs[0][2]), eq(kind, bv(E.index("Blocked")))]
        else:
            conj.append(or_(not_(supported), too_large))
    return and_(*conj)


Q(name="e2_datagrams_send", props=["C16"], func=r"datagrams\.rs:\d+:1: \d+:19>::send$",
  pure=[r"Datagrams::max_size$", r"has_send_buffer_space$"], allowed_panics=r"attempt to compute", release_arith=True,
  functions=["Datagrams::send"], pre=lambda c: "true", post=dsend_post,
  bounds="every configuration, max_size verdict, datagram length and drop flag: Disabled iff receiving is disabled locally; UnsupportedByPeer iff max_size is None; TooLarge iff length > min(max_size, send buffer size); with drop the queue is trimmed for exactly this length; without drop a full buffer gives Blocked and queues nothing; only then is the datagram queued; make_space_for / has_send_buffer_space: dgram_send_space obligations",
  replay=("dgram_api_native", lambda m: [dict(peer=p_, len_=l, drop=d) for (p_, l) in ((65535, 100), (50, 41), (50, 42), (65535, 2000)) for d in (0, 1)]))


# ------------------------------------------------------------------ C14: a Retry token binds the client's address and its original destination CID
def _agg_eq(c, st_a, a, st_b, b, leaves):
    return and_(*[eq(c.ex.read_key(st_a, a + l, s).t, c.ex.read_key(st_b, b + l, s).t) for l, s in leaves])


_SOCKADDR = [("#discr", I64)] + [("@V4.0.0.0[%d]" % i, U8) for i in range(4)] + [("@V4.0.1", ("bv", 16, False))] + \
            [("@V6.0.0.0[%d]" % i, U8) for i in range(16)] + [("@V6.0.1", ("bv", 16, False))]
_CID = [(".0", U8)] + [(".1[%d]" % i, U8) for i in range(20)]


def retry_post(c, p):
    st = p.p.state
    mr = p.called(r"Incoming::may_retry$")
    enc = p.called(r"Token::encode$")
    cu = p.called(r"Endpoint::clean_up_incoming$")
    is_err = eq(c.ex.read_key(st, "_0#discr", I64).t, bv(1))
    if len(mr) != 1 or mr[0][1][0] != ("ref", "_2"):
        return "false"
    if not enc:
        # no token is minted: only because this attempt may not be retried (it already carries a validated token);
        # the attempt is handed back untouched
        return and_(not_(mr[0][2]), is_err, "true" if not cu else "false")
    if len(enc) != 1 or len(cu) != 1 or enc[0][1][0][0] != "ref":
        return "false"
    tok = enc[0][1][0][1]                      # the Token being sealed
    snap = _Snap(st, enc[0][3])
    INC = "_2"
    addr = "%s.%d.0" % (INC, c.field("endpoint.rs", "Incoming", "addresses"))          # FourTuple.remote is the first field
    hdr = "%s.%d.%d" % (INC, c.field("endpoint.rs", "Incoming", "packet"), c.field("packet.rs", "InitialPacket", "header"))
    dcid = "%s.%d" % (hdr, c.field("packet.rs", "InitialHeader", "dst_cid"))
    now = p.called(r"TimeSource>::now$")
    if len(now) != 1:
        return "false"
    pay = tok + ".0"
    conj = [mr[0][2], not_(is_err),
            eq(c.ex.read_key(snap, pay + "#discr", I64).t, bv(0)),                                   # TokenPayload::Retry
            _agg_eq(c, snap, pay + "@Retry.0", st, addr, _SOCKADDR),                              # bound to the client's address AND port
            _agg_eq(c, snap, pay + "@Retry.1", st, dcid, _CID)]                                   # and to the DCID of its first Initial
    # issued at the server's current time
    conj.append(eq(c.ex.read_key(snap, pay + "@Retry.2.0.0.0", I64).t, c.ex.read_key(st, now[0][2] + ".0.0.0", I64).t))
    # the Retry goes back to where the Initial came from
    conj.append(_agg_eq(c, st, "_0@Ok.0.%d" % 0, st, addr, _SOCKADDR))
    return and_(*conj)


Q(name="e2_endpoint_retry_token", props=["C14"], func=r"endpoint\.rs:\d+:1: \d+:14>::retry$",
  pure=[r"may_retry$", r"TimeSource>::now$"], allowed_panics=r"unwrap_failed|attempt to|handle_error|capacity_overflow|panic",
  functions=["Endpoint::retry"], pre=lambda c: "true", post=retry_post,
  bounds="every attempt: a Retry is produced exactly when Incoming::may_retry holds; the token sealed into it is a Retry token for the attempt's remote address (IP and port), the destination CID of its Initial and the server's current time; the attempt is cleaned up; the datagram is addressed to that same remote; RNG, CID generator, token key, header encoding and retry tag opaque",
  replay=("endpoint_retry_token_native", lambda m: [dict(x=0)]))


# ------------------------------------------------------------------ C07 / C14 / C09: the endpoint's treatment of a first Initial
def hfp2_post(c, p):
    st = p.p.state
    n = c.inp("_2", BV64)                                   # datagram length
    has_cfg = eq(c.inp("*_1.%d#discr" % c.field("endpoint.rs", "Endpoint", "server_config"), I64), bv(1))
    sr = p.called(r"Endpoint::stateless_reset$")
    ic = p.called(r"Endpoint::initial_close$")
    fh = p.called(r"IncomingToken::from_header$")
    ins = p.called(r"insert_initial_incoming$")
    slab = p.called(r"Slab.*::insert")
    rd = lambda k, s: c.ex.read_key(st, k, s).t
    some = eq(rd("_0#discr", I64), bv(1))
    E = c.ex.enums["DatagramEvent"]
    kind = rd("_0@Some.0#discr", I64)
    conj = []
    if sr:
        # not a server: the only possible reaction is a stateless reset, sized by THIS datagram's length
        ok = len(sr) == 1 and not ic and not ins and sr[0][1][2][0] == "val" and sr[0][1][2][1].t == n and sr[0][1][3] == ("agg", "_4")
        return and_(not_(has_cfg), "true" if ok else "false")
    conj.append(has_cfg)
    short = ult(n, bv(1200))
    # an Initial in a datagram below 1200 bytes is dropped without any response (anti-amplification, RFC 9000 14.1)
    if ic or fh or ins:
        conj.append(not_(short))
    conj.append(imp(short, not_(some)))
    if fh:
        # the token is validated against the source address of this very datagram
        if len(fh) != 1 or fh[0][1][2] != ("agg", "_4.0"):
            return "false"
    if ins:
        # a connection attempt is announced exactly when a route for the Initial's destination CID was installed
        # for a freshly allocated buffer slot
        ok = len(ins) == 1 and len(slab) == 1 and len(fh) == 1 and ins[0][1][2][0] == "val" and not ic
        conj.append("true" if ok else "false")
        conj.append(and_(some, eq(kind, bv(E.index("NewConnection")))))
    else:
        conj.append(not_(and_(some, eq(kind, bv(E.index("NewConnection"))))))
    return and_(*conj)


Q(name="e2_endpoint_first_initial", props=["C07", "C14", "C09"], func=r"endpoint\.rs:\d+:1: \d+:14>::handle_first_packet$",
  pure=[r"cids_exhausted$", r"PartialDecode::dst_cid$", r"PartialDecode::initial_header$", r"reserved_bits_valid$"],
  allowed_panics=r"unwrap_failed|abort|handle_error|non-initial|attempt to|panic_fmt", ignore_untranslatable=r"^cast kind Transmute",
  functions=["Endpoint::handle_first_packet"], pre=lambda c: ule(c.inp("*_1.%d#discr" % c.field("endpoint.rs", "Endpoint", "server_config"), I64), bv(1)), post=hfp2_post,
  bounds="every datagram length, configuration and verdict of key derivation / header decoding / token validation (all opaque): without a server configuration the only reaction is a stateless reset sized by this datagram; an Initial in a datagram shorter than 1200 bytes causes no response and no state; the token is checked against this datagram's source address; NewConnection is returned iff a route for the Initial's DCID was installed for a fresh buffer slot; one error-string construction path (a pointer transmute inside the panic message) is outside",
  replay=("endpoint_first_initial_native", lambda m: [dict(len_=l, dcid_len=d) for d in (8, 4, 0) for l in (1199, 1200, 300, 64)]))


# ------------------------------------------------------------------ C08: the tail of Connection::handle_packet (slice): a connection that becomes drained stops its close timer
def hpt_post(c, p):
    st = p.p.state
    calls = st.calls
    ev = c.ex.enums["EndpointEventInner"].index("Drained")
    drained_at = None
    for i, x in enumerate(calls):
        if re.search(r"VecDeque.*::push_back", x[0]) and x[1][0][0] == "ref" and str(x[1][0][1]).endswith(".%d" % c.field("connection/mod.rs", "Connection", "endpoint_events")):
            a = x[1][1]
            if a[0] == "agg":
                snap = _Snap(st, x[3]) if x[3] is not None else st
                d = c.ex.read_key(snap, a[1] + "#discr", I64).t
                if d == bv(ev):
                    drained_at = i
    if drained_at is None:
        return "true"
    later = calls[drained_at + 1:]
    stops = [i for i, x in enumerate(later) if re.search(r"TimerTable::stop$", x[0]) and "'Timer', %d)" % _timer_idx(c, "Close") in str(x[1][1][1])]
    rearm = [i for i, x in enumerate(later) if re.search(r"set_close_timer$", x[0]) or (re.search(r"TimerTable::set$", x[0]) and "'Timer', %d)" % _timer_idx(c, "Close") in str(x[1][1][1]))]
    # once Drained has been reported to the endpoint, the close timer is stopped and nothing arms it again
    ok = bool(stops) and not [r for r in rearm if r > stops[0]]
    return "true" if ok else "false"


Q(name="e2_handle_packet_tail", props=["C08", "C09"], func=r"connection/mod\.rs:\d+:1: \d+:16>::handle_packet$",
  src="connection/mod.rs", within=r"^    fn handle_packet\(", start_line=[r"if !was_closed && self\.state\.is_closed\(\)", r"(?#before)^            self\.close_common\(\);"],
  inline=[r"State::is_closed$", r"State::is_drained$"], allowed_panics=r".",
  functions=["Connection::handle_packet (slice: from `if !was_closed && self.state.is_closed()` to the end)"], pre=lambda c: "true", post=hpt_post,
  bounds="the closing lines of handle_packet, executed from an ARBITRARY state (every local and all memory unconstrained - an over-approximation of whatever the packet processing before it did): on every path that queues EndpointEvent::Drained, the Close timer is stopped afterwards and not armed again; the slice is located through the source text of the function",
  replay=("conn_handle_packet_tail_native", lambda m: [dict(x=0)]))


# ------------------------------------------------------------------ C14: a client follows a Retry only if it is the first server packet, carries a token and its integrity tag verifies (slice)
def ra_post(c, p):
    st = p.p.state
    vr = p.called(r"is_valid_retry$")
    tap = c.inp(_conn(c, "total_authed_packets"), BV64)
    if p.p.outcome == "stop":
        # the Retry is acted upon
        if len(vr) != 1:
            return "false"
        a = vr[0][1]
        act = p.called(r"CidQueue::active$")
        ok_args = bool(act) and a[1] == ("agg", act[0][2]) or (a[1][0] == "agg" and "CidQueue::active" in str(a[1][1]))
        res = c.ex.read_key(st, vr[0][2], BOOL).t if not str(vr[0][2]).startswith("|") else vr[0][2]
        return and_(ule(tap, bv(1)), res, "true" if ok_args else "false")
    # discarded: nothing of the Retry is used
    upd = p.called(r"update_initial_cid$|discard_space$")
    return "true" if not upd else "false"


Q(name="e2_retry_acceptance_slice", props=["C14", "C04"], func=r"connection/mod\.rs:\d+:1: \d+:16>::process_decrypted_packet$",
  src="connection/mod.rs", within=r"^    fn process_decrypted_packet\(", start_line=r"^                if self\.side\.is_server\(\) \{$", end_line=r"let client_hello = state\.client_hello\.take\(\)\.unwrap\(\);",
  pure=[r"is_valid_retry$", r"CidQueue::active$", r"BytesMut::len$", r"Bytes::len$"], check_stop=True, allowed_panics=r".",
  functions=["Connection::process_decrypted_packet (slice: the Retry acceptance test)"], pre=lambda c: "true", post=ra_post,
  bounds="the acceptance test of the Retry arm, from an arbitrary state: the code after it is reached only if no more than one packet has been authenticated so far and Session::is_valid_retry - asked about the currently active remote CID - said yes; otherwise the packet is dropped without touching CIDs or packet spaces; located through the source text",
  replay=("conn_retry_native", lambda m: [dict(valid=v, authed_before=a) for v in (0, 1) for a in (0, 1, 2)]))


# ------------------------------------------------------------------ C12: following a Retry discards the old Initial space (its packets leave bytes-in-flight) before a fresh one is installed (slice)
def rs_post(c, p):
    st = p.p.state
    if p.p.outcome != "stop":
        return "true"
    names = [x[0] for x in st.calls]
    ds = [i for i, x in enumerate(st.calls) if re.search(r"discard_space$", x[0]) and "'SpaceId', 0)" in str(x[1][2])]
    new = [i for i, n in enumerate(names) if re.search(r"PacketSpace::new$", n)]
    if not new:
        return "false"
    return "true" if (ds and ds[0] < new[0]) else "false"


Q(name="e2_retry_resets_initial_space_slice", props=["C12"], func=r"connection/mod\.rs:\d+:1: \d+:16>::process_decrypted_packet$",
  src="connection/mod.rs", within=r"^    fn process_decrypted_packet\(", start_line=r"let client_hello = state\.client_hello\.take\(\)\.unwrap\(\);", end_line=r"let zero_rtt = mem::take\(",
  check_stop=True, allowed_panics=r".", ignore_untranslatable=r"^loop at",
  functions=["Connection::process_decrypted_packet (slice: re-initialisation of the Initial space after a Retry)"], pre=lambda c: "true", post=rs_post,
  bounds="from an arbitrary state: before the Initial packet space is replaced by a fresh one, discard_space(Initial) has run, so every Initial packet still in flight is removed from the congestion controller's bytes-in-flight; located through the source text",
  replay=("conn_retry_native", lambda m: [dict(valid=1, authed_before=0), dict(valid=1, authed_before=1)]))


# ------------------------------------------------------------------ C16 / C13: after a black hole is detected, queued datagrams are re-checked against the REDUCED MTU (slice)
def bh_post(c, p):
    st = p.p.state
    calls = st.calls
    bh = [i for i, x in enumerate(calls) if re.search(r"MtuDiscovery::black_hole_detected$", x[0])]
    if len(bh) != 1:
        return "false"
    det = c.ex.read_key(st, calls[bh[0]][2], BOOL).t if not str(calls[bh[0]][2]).startswith("|") else calls[bh[0]][2]
    upd = [i for i, x in enumerate(calls) if re.search(r"on_mtu_update$", x[0])]
    ms = [i for i, x in enumerate(calls) if re.search(r"Datagrams::max_size$", x[0])]
    dr = [i for i, x in enumerate(calls) if re.search(r"drop_oversized$", x[0])]
    if not upd:
        # nothing to do unless a black hole was detected
        return and_(not_(det), "true" if not dr else "false")
    conj = [det]
    # the congestion controller learns the new MTU first ...
    cm = [i for i, x in enumerate(calls) if re.search(r"current_mtu$", x[0]) and bh[0] < i < upd[0]]
    if not cm:
        return "false"
    a = calls[upd[0]][1][1]
    if a[0] != "val":
        return "false"
    conj.append(eq(a[1].t, c.ex.read_key(_Snap(st, calls[upd[0]][3]), calls[cm[-1]][2], ("bv", 16, False)).t if not str(calls[cm[-1]][2]).startswith("|") else calls[cm[-1]][2]))
    # ... then the datagram queue is purged against the size limit computed AFTER the reduction
    fresh = [i for i in ms if i > upd[0]]
    if dr:
        if not fresh or dr[0] < fresh[0]:
            return "false"
        arg = calls[dr[0]][1][1]
        src = calls[fresh[-1]][2]
        if arg[0] != "val":
            return "false"
        snap = _Snap(st, calls[dr[0]][3])
        conj.append(eq(arg[1].t, c.ex.read_key(snap, src + "@Some.0", BV64).t))
    else:
        # no purge only when datagrams are not in use on this connection
        if not fresh:
            return "false"
        conj.append(eq(c.ex.read_key(st, calls[fresh[-1]][2] + "#discr", I64).t, bv(0)))
    return and_(*conj)


Q(name="e2_black_hole_purges_datagrams_slice", props=["C16", "C13"], func=r"connection/mod\.rs:\d+:1: \d+:16>::detect_lost_packets$",
  src="connection/mod.rs", within=r"^    fn detect_lost_packets\(", start_line=[r"if self\.path\.mtud\.black_hole_detected\(now\)", r"(?#before)self\.stats\.path\.black_holes_detected \+= 1;"], end_line=r"let lost_ack_eliciting = ",
  check_stop=True, allowed_panics=r".", ignore_untranslatable=r"^loop at",
  modifies=lambda c: {r"on_mtu_update$": ["*call:"], r"Datagrams::max_size$": []},
  functions=["Connection::detect_lost_packets (slice: reaction to a detected black hole)"], pre=lambda c: "true", post=bh_post,
  bounds="from an arbitrary state: when MtuDiscovery::black_hole_detected reports a black hole, the congestion controller is told the current (reduced) MTU and the outgoing datagram queue is purged with the Datagrams::max_size value computed AFTER that reduction; without a black hole nothing is purged; located through the source text",
  replay=("conn_black_hole_datagrams_native", lambda m: [dict(x=0), dict(x=1)]))


# ------------------------------------------------------------------ C13: a packet is padded out to the full segment size only when this datagram's own budget covers a full segment (slice)
def pg_post(c, p):
    st = p.p.state
    pad = p.called(r"PacketBuilder::pad_to$")
    if not pad:
        return "true"
    dbg = c.fn.debug
    try:
        cap, start, seg = dbg["buf_capacity"][0], dbg["datagram_start"][0], dbg["segment_size"][0]
    except (KeyError, IndexError):
        return "false"
    capv, startv, segv = c.inp(cap, BV64), c.inp(start, BV64), c.inp(seg, BV64)
    a = pad[0][1][1]
    if len(pad) != 1 or a[0] != "val":
        return "false"
    # padded to exactly the segment size, and only if start + segment_size <= the capacity granted to THIS datagram
    return and_(eq(a[1].t, "((_ extract 15 0) %s)" % segv), ule("(bvadd %s %s)" % (zext(startv, 64), zext(segv, 64)), zext(capv, 64)))


# ------------------------------------------------------------------ C13: a datagram that uses a loss-probe credit is budgeted at most 1200 bytes (slice)
def ppc_post(c, p):
    st = p.p.state
    if p.p.outcome != "stop":
        return "true"
    dbg = c.fn.debug
    try:
        cap, seg = dbg["buf_capacity"][0], dbg["segment_size"][0]
    except (KeyError, IndexError):
        return "false"
    cap0, segv = c.inp(cap, BV64), c.inp(seg, BV64)
    cap1 = c.ex.read_key(st, cap, BV64).t
    delta = "(bvsub %s %s)" % (cap1, cap0)
    probe = bool(p.called(r"IndexMut<SpaceId>>::index_mut$"))
    clamp = ite(ult(segv, bv(1200)), segv, bv(1200))
    return eq(delta, clamp if probe else segv)


Q(name="e2_poll_transmit_probe_clamp_slice", props=["C13"], func=r"connection/mod\.rs:\d+:1: \d+:16>::poll_transmit$",
  src="connection/mod.rs", within=r"^    pub fn poll_transmit\(", start_line=[r"let next_datagram_size_limit = match self\.spaces\[space_id\]\.loss_probes \{", r"(?#after)// Allocate space for another datagram$"], end_line=r"if buf\.capacity\(\) < buf_capacity \{",
  check_stop=True, allowed_panics=r".", ignore_untranslatable=r"^loop at", release_arith=True,
  functions=["Connection::poll_transmit (slice: the size budget granted to the next datagram)"], pre=lambda c: "true", post=ppc_post,
  bounds="from an arbitrary state (segment_size, buf_capacity, the configuration and the number of loss-probe credits unconstrained): the budget added for the next datagram is segment_size when no loss-probe credit is used, and min(segment_size, 1200) - the protocol's minimum MTU, whatever min_mtu the configuration names - when one is (the branch that decrements loss_probes); with e2_poll_transmit_pad_guard_slice this keeps every loss probe within 1200 bytes so that it gets through a path whose MTU has shrunk",
  replay=("conn_loss_probe_size_native", lambda m: [dict(x=0), dict(x=1)]))


Q(name="e2_poll_transmit_pad_guard_slice", props=["C13"], func=r"connection/mod\.rs:\d+:1: \d+:16>::poll_transmit$",
  src="connection/mod.rs", within=r"^    pub fn poll_transmit\(", start_line=[r"if pad_datagram_to_mtu && ", r"(?#after)// by less than `segment_size`\.$"], end_line=r"let last_packet_number = builder\.exact_number;",
  check_stop=True, allowed_panics=r".", ignore_untranslatable=r"^loop at",
  functions=["Connection::poll_transmit (slice: the padding decision before a packet is finished)"], pre=lambda c: "true", post=pg_post,
  bounds="from an arbitrary state (datagram_start, segment_size, buf_capacity and the flag unconstrained): PacketBuilder::pad_to is called with exactly segment_size, and only when datagram_start + segment_size <= buf_capacity, the budget computed for this datagram (smaller than a segment for loss probes); the locals are identified through the MIR's debug-name table, the slice through the source text",
  replay=("conn_loss_probe_size_native", lambda m: [dict(x=0)]))


# ------------------------------------------------------------------ C07 / C12: what poll_transmit checks before it starts another datagram (slice)
def gate_post(c, p):
    st = p.p.state
    if p.p.outcome != "stop" or not (p.p.detail or "").endswith("line %d" % c.slice["ends"][0][1]):
        return "true"                       # the slice was left through `break` / `continue`: no datagram is started here
    dbg = c.fn.debug
    try:
        seg, numd, ack_el = dbg["segment_size"][0], dbg["num_datagrams"][0], dbg["ack_eliciting"][0]
    except (KeyError, IndexError):
        return "false"
    segv, numv, ackv = c.inp(seg, BV64), c.inp(numd, BV64), c.inp(ack_el, BOOL)
    maxv = c.inp("_3", BV64)                # max_datagrams argument
    calls = st.calls
    conj = [ult(numv, maxv)]
    # anti-amplification: consulted with everything already built in this call plus one byte, and it said "not blocked"
    aa = [x for x in calls if re.search(r"anti_amplification_blocked$", x[0])]
    if len(aa) != 1 or aa[0][1][1][0] != "val":
        return "false"
    res = aa[0][2] if str(aa[0][2]).startswith("|") else c.ex.read_key(st, aa[0][2], BOOL).t
    conj.append(not_(res))
    conj.append(eq(aa[0][1][1][1].t, "(bvadd (bvmul %s %s) %s)" % (segv, numv, bv(1))))
    # congestion control: an ack-eliciting packet that is not a loss probe needs room for a full segment in the window
    win = [x for x in calls if re.search(r"Controller>::window$", x[0])]
    lp = [x for x in calls if re.search(r"Index.*SpaceId.*::index", x[0])]
    infl = "*_1.%d.%d.0" % (c.field("connection/mod.rs", "Connection", "path"), _pd(c, "in_flight"))
    if win:
        w = win[0][2] if str(win[0][2]).startswith("|") else c.ex.read_key(st, win[0][2], BV64).t
        snap = _Snap(st, win[0][3]) if win[0][3] is not None else st
        inflight = c.ex.read_key(snap, infl, BV64).t
        conj.append(ult("(bvadd %s %s)" % (zext(inflight, 64), zext(segv, 64)), zext(w, 64)))
        pd = [x for x in calls if re.search(r"Pacer::delay$", x[0])]
        if len(pd) != 1:
            return "false"
        conj.append(eq(c.ex.read_key(st, pd[0][2] + "#discr", I64).t, bv(0)))       # pacing: no delay required
    else:
        conj.append("ESCAPE")
    return conj


def gate_post_wrap(c, p):
    r = gate_post(c, p)
    if isinstance(r, str):
        return r
    st = p.p.state
    dbg = c.fn.debug
    ackv = c.inp(dbg["ack_eliciting"][0], BOOL)
    if "ESCAPE" in r:
        r = [x for x in r if x != "ESCAPE"]
        # skipped only for packets that are not ack-eliciting or for loss probes; the loss-probe count read is opaque,
        # so what is decided is: if the packet is ack-eliciting, the count was read and was non-zero
        lp = [x for x in st.calls if re.search(r"Index<SpaceId>>::index$", x[0])]
        cond = "false"
        for k in [k for k in c.ex.decls if ".%d|" % c.field("connection/spaces.rs", "PacketSpace", "loss_probes") in k and k.startswith("|in:*call:")]:
            cond = or_(cond, not_(eq(k, bv(0, 32))))
        # ... or for the packet that announces a close (the exemption the property names; finding 14)
        closing = c.inp(dbg["close"][0], BOOL) if dbg.get("close") else "false"
        r.append(or_(not_(ackv), cond, closing))
    return and_(*r)


Q(name="e2_poll_transmit_new_datagram_gate_slice", props=["C07", "C12"], func=r"connection/mod\.rs:\d+:1: \d+:16>::poll_transmit$",
  src="connection/mod.rs", within=r"^    pub fn poll_transmit\(", start_line=[r"if num_datagrams >= max_datagrams \{", r"(?#after)// We need to send 1 more datagram and extend the buffer for that\.$"], end_line=[r"if let Some\(mut builder\) = builder_storage\.take\(\) \{", r"(?#loophead)while space_idx < spaces\.len\(\) \{", r"if let Some\(mut builder\) = builder_storage \{"],
  pure=[r"anti_amplification_blocked$", r"Controller>::window$", r"Index<SpaceId>>::index$", r"RttEstimator::get$", r"current_mtu$"],
  check_stop=True, allowed_panics=r".", ignore_untranslatable=r"^loop at",
  functions=["Connection::poll_transmit (slice: the checks between 'one more datagram is needed' and starting it)"],
  pre=lambda c: and_(ule(c.inp(c.fn.debug["segment_size"][0], BV64), bv(65535)), ule(c.inp(c.fn.debug["num_datagrams"][0], BV64), bv(1 << 20))), post=gate_post_wrap, timeout=600,
  bounds="from an arbitrary state with segment_size <= 65535 and num_datagrams <= 2^20 (keeps the product cheap for the solver): the code that starts another datagram is reached only if fewer than max_datagrams exist, PathData::anti_amplification_blocked - asked about segment_size * num_datagrams + 1 bytes - said no, and, unless the packet is not ack-eliciting, is a loss probe or announces a close, bytes in flight + one segment is below the congestion window and the pacer demands no delay; locals through the debug-name table, slice through the source text",
  replay=("conn_poll_transmit_gates_native", lambda m: [dict(mode=k) for k in (0, 1, 2)]))


# ------------------------------------------------------------------ C07: MTU probes are datagrams too - none is built for a path that is not validated (slice)
def mp_post(c, p):
    st = p.p.state
    pb = p.called(r"PacketBuilder::new$")
    if not pb:
        return "true"
    validated = c.inp("*_1.%d.%d" % (c.field("connection/mod.rs", "Connection", "path"), _pd(c, "validated")), BOOL)
    aa = [x for x in st.calls if re.search(r"anti_amplification_blocked$", x[0])]
    if aa:
        res = aa[0][2] if str(aa[0][2]).startswith("|") else c.ex.read_key(st, aa[0][2], BOOL).t
        return or_(validated, not_(res))
    # the probe (a full-size datagram that the budget check of the main loop never saw) goes to a validated address only
    return validated


Q(name="e2_poll_transmit_mtu_probe_gate_slice", props=["C07", "C15"], func=r"connection/mod\.rs:\d+:1: \d+:16>::poll_transmit$",
  src="connection/mod.rs", within=r"^    pub fn poll_transmit\(", start_line=[r"if buf\.is_empty\(\) && self\.state\.is_established\(\)", r"(?#after)// Send MTU probe if necessary"], end_line=r"self\.stats\.path\.sent_plpmtud_probes \+= 1;",
  pure=[r"anti_amplification_blocked$"], inline=[r"State::is_established$"], check_stop=True, allowed_panics=r".", ignore_untranslatable=r"^loop at",
  functions=["Connection::poll_transmit (slice: the MTU probe section after the main loop)"], pre=lambda c: "true", post=mp_post,
  bounds="from an arbitrary state: a packet builder for an MTU probe is created only if the path is validated (or an anti-amplification check covering the probe said it is not blocked); the main loop's budget check does not cover this datagram; slice located through the source text",
  replay=("conn_poll_transmit_gates_native", lambda m: [dict(mode=0)]))


# ------------------------------------------------------------------ C12: an acknowledged packet leaves bytes-in-flight exactly once, and the controller hears of it unless a path is being validated (slice)
def opa2_post(c, p):
    st = p.p.state
    calls = st.calls
    rif = [i for i, x in enumerate(calls) if re.search(r"Connection::remove_in_flight$", x[0])]
    ack = [i for i, x in enumerate(calls) if re.search(r"Controller>::on_ack$", x[0])]
    if len(rif) != 1 or calls[rif[0]][1][1] != ("ref", "_3"):
        return "false"                          # exactly once, for THIS packet
    eliciting = c.inp("_3.%d" % c.field("connection/spaces.rs", "SentPacket", "ack_eliciting"), BOOL)
    validating = eq(c.ex.read_key(_Snap(st, calls[rif[0]][3]), "*_1.%d.%d#discr" % (c.field("connection/mod.rs", "Connection", "path"), _pd(c, "challenge")), I64).t, bv(1))
    if not ack:
        # (the challenge field is read after remove_in_flight, which may touch the path: the post-call value decides)
        return "true"
    if len(ack) != 1 or ack[0] < rif[0]:
        return "false"
    a = calls[ack[0]][1]
    size = c.inp("_3.%d" % c.field("connection/spaces.rs", "SentPacket", "size"), ("bv", 16, False))
    ok_size = a[3][0] == "val"
    return and_(eliciting, eq(a[3][1].t, zext(size, 48)) if ok_size else "false")


Q(name="e2_on_packet_acked_slice", props=["C12"], func=r"connection/mod\.rs:\d+:1: \d+:16>::on_packet_acked$",
  src="connection/mod.rs", within=r"^    fn on_packet_acked\(", end_line=r"if let Some\(retransmits\) = info\.retransmits\.get\(\)",
  check_stop=True, allowed_panics=r".", ignore_untranslatable=r"^loop at",
  functions=["Connection::on_packet_acked (up to the per-frame delivery loops)"], pre=lambda c: "true", post=opa2_post,
  bounds="every acknowledged packet and connection state: remove_in_flight runs exactly once, for this packet, before anything else; Controller::on_ack is called at most once, only for an ack-eliciting packet, with the packet's own size; the loops that mark stream frames delivered are outside",
  replay=("conn_on_packet_acked_native", lambda m: [dict(eliciting=0), dict(eliciting=1)]))


# ------------------------------------------------------------------ C09: issuing a local CID never re-points a CID that is already routed (one iteration of Endpoint::new_cid)
def nc_post(c, p):
    st = p.p.state
    table = "*_1.%d.%d" % (c.field("endpoint.rs", "Endpoint", "index"), c.field("endpoint.rs", "ConnectionIndex", "connection_ids"))
    conj = []
    for x in st.calls:
        if not x[1] or x[1][0][0] != "ref":
            continue
        recv = str(x[1][0][1])
        if not (recv == table or recv.startswith(table + ".")):
            continue
        if re.search(r"entry$|rustc_entry$|get$|contains_key$", x[0]):
            continue                         # look-ups
        if re.search(r"::insert$", x[0]):
            # an overwriting insert: tolerable only when it did not replace anything
            conj.append(eq(c.ex.read_key(st, x[2] + "#discr", I64).t, bv(0)))
            continue
        return "false"                       # any other direct modification of the routing table
    return and_(*conj)


Q(name="e2_endpoint_new_cid_no_overwrite", props=["C09"], func=r"endpoint\.rs:\d+:1: \d+:14>::new_cid$",
  loop_is_stop=True, check_stop=True, allowed_panics=r".",
  functions=["Endpoint::new_cid (one iteration of its retry loop)"], pre=lambda c: "true", post=nc_post,
  bounds="one iteration of the generate-and-retry loop, every outcome of the generator and of the table look-up (hash map opaque): the CID routing table is modified only through a vacant entry obtained for the generated CID, or by an insert that replaced nothing - a colliding CID never re-points an existing route; the loop's other iterations start from the same (arbitrary) state",
  replay=("endpoint_new_cid_collision_native", lambda m: [dict(x=0)]))


# ------------------------------------------------------------------ C08: a timer firing never re-enables idle-timer resets (one iteration of handle_timeout over every timer)
def ht_post(c, p):
    st = p.p.state
    k = _conn(c, "permit_idle_reset")
    v = st.store.get(k)
    # only an authenticated packet from the peer (on_packet_authenticated) may set this flag; whatever a timer
    # handler does, handle_timeout itself must not write `true` into it
    return "false" if (v is not None and v.t == "true") else "true"


Q(name="e2_handle_timeout_iteration", props=["C08"], func=r"connection/mod\.rs:\d+:1: \d+:16>::handle_timeout$",
  loop_is_stop=True, check_stop=True, allowed_panics=r".",
  functions=["Connection::handle_timeout (one iteration of its loop over Timer::VALUES, every timer)"], pre=lambda c: "true", post=ht_post,
  bounds="one iteration for an arbitrary timer (the timer value read from Timer::VALUES is unconstrained) from an arbitrary connection state: no arm of handle_timeout stores `true` into permit_idle_reset - a keep-alive or any other self-generated event must not let the connection restart its own idle timer; writes made inside the opaque handlers it calls are outside",
  replay=("conn_keep_alive_idle_native", lambda m: [dict(x=0)]))


# ------------------------------------------------------------------ C16 / C13: after an MTU reduction EVERY queued datagram that no longer fits is dropped, wherever it sits in the queue
def dro_post(c, p):
    st = p.p.state
    out = "*_1.%d" % c.field("connection/datagrams.rs", "DatagramState", "outgoing")
    rt = [x for x in st.calls if re.search(r"VecDeque.*::retain(_mut)?$", x[0])]
    others = [x for x in st.calls if x[1] and x[1][0][0] == "ref" and (str(x[1][0][1]) == out or str(x[1][0][1]).startswith(out + ".")) and x not in rt]
    # the queue is filtered as a whole (the predicate is decided by e2_drop_oversized_predicate); no other access
    # pattern - such as popping from the front until one fits - leaves oversized datagrams behind smaller ones
    ok = len(rt) == 1 and rt[0][1][0] == ("ref", out) and not others
    return "true" if ok else "false"


Q(name="e2_drop_oversized_whole_queue", props=["C16", "C13"], func=r"datagrams\.rs[^>]*>::drop_oversized$",
  loop_is_stop=True, check_stop=True, allowed_panics=r".",
  functions=["DatagramState::drop_oversized"], pre=lambda c: "true", post=dro_post,
  bounds="every state: the outgoing queue is handed, exactly once and as a whole, to VecDeque::retain with the size predicate; it is not walked by any other means (std's retain visits every element)",
  replay=("dgram_drop_oversized_native", lambda m: [dict(first_big=0), dict(first_big=1)]))


def drp_post(c, p):
    st = p.p.state
    n = c.inp("*_2.0.1", BV64)                 # datagram.data.len()
    maxp = c.inp("**_1.0", BV64)               # captured &max_payload
    total = "**_1.1"                           # captured &mut self.outgoing_total
    flag = "**_1.2"                            # captured &mut dropped_any
    keep = ult(n, maxp)
    rd = lambda k, s: c.ex.read_key(st, k, s).t
    return and_(eq(rd("_0", BOOL), keep),
                imp(keep, and_(eq(rd(total, BV64), c.inp(total, BV64)), eq(rd(flag, BOOL), c.inp(flag, BOOL)))),
                imp(not_(keep), and_(eq(rd(total, BV64), "(bvsub %s %s)" % (c.inp(total, BV64), n)), rd(flag, BOOL))))


Q(name="e2_drop_oversized_predicate", props=["C16", "C13"], func=r"datagrams\.rs[^>]*>::drop_oversized::\{closure#0\}$",
  allowed_panics=r"attempt to compute",
  functions=["DatagramState::drop_oversized::{closure#0} (the predicate handed to VecDeque::retain)"], pre=lambda c: "true", post=drp_post,
  bounds="every datagram length, limit and byte total: a datagram is kept iff its payload is strictly shorter than the limit; a dropped one is subtracted from outgoing_total and reported through the dropped-any flag",
  replay=("dgram_drop_oversized_native", lambda m: [dict(first_big=0), dict(first_big=1)]))


# ------------------------------------------------------------------ C07: the off-path PATH_RESPONSE datagram is expanded only within the anti-amplification limit (slice)
def opr_post(c, p):
    st = p.p.state
    pad = p.called(r"PacketBuilder::pad_to$")
    pop = p.called(r"pop_off_path$")
    if not pad:
        return "true"
    if len(pop) != 1:
        return "false"
    # RFC 9000 8.2.2: the response to a challenge from an unvalidated address is expanded to 1200 bytes only if three
    # times what that address is known to have sent (the packet that carried the challenge) covers it
    received = c.ex.read_key(st, pop[0][2] + "@Some.0.2", BV64).t
    a = pad[0][1][1]
    if a[0] != "val":
        return "false"
    return ule(zext(a[1].t, 112), "(bvmul %s %s)" % (zext(received, 64), bv(3, 128)))


Q(name="e2_off_path_response_slice", props=["C07"], func=r"connection/mod\.rs:\d+:1: \d+:16>::poll_transmit$",
  src="connection/mod.rs", within=r"^    pub fn poll_transmit\(", start_line=r"self\.path_responses\.pop_off_path\(self\.path\.remote\)", end_line=[r"self\.populate_packet\(now, space_id, buf", r"let sent =$"],
  check_stop=True, allowed_panics=r".", ignore_untranslatable=r"^loop at",
  functions=["Connection::poll_transmit (slice: the off-path PATH_RESPONSE datagram)", "PathResponses::pop_off_path (opaque)"], pre=lambda c: "true", post=opr_post,
  bounds="from an arbitrary state: the datagram answering a PATH_CHALLENGE that came from an address other than the current path is padded to N bytes only if N <= 3 * the size recorded for the packet that carried the challenge (the third component pop_off_path returns); slice located through the source text",
  replay=("conn_off_path_challenge_native", lambda m: [dict(n=2), dict(n=5)]))


# ------------------------------------------------------------------ C01: defragmenting an ORDERED assembler discards what was already read (first iteration of the trimming loop)
def dfr_post(c, p):
    st = p.p.state
    tm = p.called(r"Buffer::try_mark_defragment$")
    if not tm:
        return "true"
    a = tm[0][1][1]
    if a[0] != "val":
        return "false"
    A = lambda n: "*_1.%d" % c.field("connection/assembler.rs", "Assembler", n)
    ordered = eq(c.inp(A("state") + "#discr", I64), bv(c.ex.enums["assembler::State"].index("Ordered")))
    # the first (lowest) buffered chunk is trimmed against the read cursor when reads have been ordered so far: a chunk
    # that overlaps data the application already has must not survive into unordered mode, where chunks are handed out
    # as they are; in unordered mode the duplicate filter at insertion already did that and bytes_read is only a count
    return eq(a[1].t, ite(ordered, c.inp(A("bytes_read"), BV64), bv(0)))


Q(name="e2_defragment_frontier", props=["C01"], func=r"assembler\.rs[^>]*>::defragment$",
  loop_is_stop=True, check_stop=True, allowed_panics=r".", inline=[r"State::is_ordered$"],
  functions=["Assembler::defragment (up to and including the first iteration of its trimming loop)"],
  pre=lambda c: ule(c.inp("*_1.%d#discr" % c.field("connection/assembler.rs", "Assembler", "state"), I64), bv(1)), post=dfr_post,
  bounds="every assembler state: the first try_mark_defragment call - the one for the chunk with the lowest offset - is given the read cursor as its frontier in ordered mode and 0 in unordered mode (the later iterations continue from the previous chunk's end: assembler_defragment_step); heap and sort opaque",
  replay=("assembler_ordered_then_unordered_native", lambda m: [dict(a=10, o=5, b=10), dict(a=10, o=0, b=20), dict(a=10, o=3, b=4)]))


# ------------------------------------------------------------------ C07: coalesced packets are credited to the anti-amplification budget exactly once
def hc_entry_post(c, p):
    st = p.p.state
    TR = "*_1.%d.%d" % (c.field("connection/mod.rs", "Connection", "path"), _pd(c, "total_recvd"))
    first = next((x for x in st.calls if x[3] is not None and re.search(r"handle_decode$", x[0])), None)
    view = _Snap(st, first[3]) if first else st
    got = c.ex.read_key(view, TR, BV64).t
    n = c.inp("_5.1", BV64)              # data.len() (BytesMut { ptr, len, cap, data })
    old = c.inp(TR, BV64)
    sat = "(ite (bvult (bvadd %s %s) %s) %s (bvadd %s %s))" % (old, n, old, bv((1 << 64) - 1), old, n)
    # ... if the remainder came from the address of the path the connection is on, and not at all otherwise (finding 27)
    eqs = [x for x in st.calls if re.search(r"SocketAddr as PartialEq>::(eq|ne)$", x[0]) and (first is None or st.calls.index(x) < st.calls.index(first))]
    if not eqs:
        return eq(got, old)
    same = eqs[0][2] if eqs[0][0].endswith("eq") else not_(eqs[0][2])
    return and_(or_(not_(same), eq(got, sat)), or_(same, eq(got, old)))


Q(name="e2_handle_coalesced_credit", props=["C07", "C15"], func=r"connection/mod\.rs:245:1[^>]*>::handle_coalesced$",
  pure=[r"PartialEq>::(eq|ne)"], loop_is_stop=True, check_stop=True, allowed_panics=r".",
  functions=["Connection::handle_coalesced (entry and first iteration)"], pre=lambda c: "true", post=hc_entry_post,
  bounds="every datagram remainder, every source address: before the first coalesced packet is processed the path the connection is on has been credited with exactly the length of the remainder (saturating) if the datagram came from that path's address, and with nothing otherwise",
  replay=("conn_foreign_datagram_credit_native", lambda m: [dict(mode=1), dict(mode=4), dict(mode=0), dict(mode=2)]))


def hc_body_post(c, p):
    st = p.p.state
    TR = "*_1.%d.%d" % (c.field("connection/mod.rs", "Connection", "path"), _pd(c, "total_recvd"))
    first = next((x for x in st.calls if x[3] is not None and re.search(r"handle_decode$", x[0])), None)
    view = _Snap(st, first[3]) if first else st
    return eq(c.ex.read_key(view, TR, BV64).t, c.inp(TR, BV64))


Q(name="e2_handle_coalesced_loop_body_slice", props=["C07"], func=r"connection/mod\.rs:245:1[^>]*>::handle_coalesced$",
  src="connection/mod.rs", within=r"^    fn handle_coalesced\(", start_line=r"while let Some\(data\) = remaining",
  loop_is_stop=True, check_stop=True, allowed_panics=r".",
  functions=["Connection::handle_coalesced (slice: one iteration of the packet-splitting loop from an arbitrary state)"], pre=lambda c: "true", post=hc_body_post,
  bounds="one iteration of the loop over coalesced packets from an arbitrary state: up to the point where the packet is handed to handle_decode (which may legitimately move the connection to another path) the credit of the path is not touched again - the k-th packet of a datagram is not counted k times",
  replay=("conn_handle_coalesced_credit_native", lambda m: [dict(k=1), dict(k=3)]))


# ------------------------------------------------------------------ C04 / C14: a resumed (0-RTT) connection starts without the previous connection's per-connection secrets
def i0_post(c, p):
    st = p.p.state
    sp = p.called(r"Connection::set_peer_params$")
    if not sp:
        return "true"            # no early keys, a server, or malformed remembered parameters: nothing is installed
    a = sp[0][1][1]
    if a[0] != "agg":
        return "false"
    snap = _Snap(st, sp[0][3])
    none = lambda n: eq(c.ex.read_key(snap, "%s.%d#discr" % (a[1], tp_field(c, n)), I64).t, bv(0))
    # remembered transport parameters never carry over values that identify or authenticate the OLD connection
    return and_(*[none(n) for n in ("stateless_reset_token", "initial_src_cid", "original_dst_cid", "retry_src_cid", "preferred_address")])


Q(name="e2_init_0rtt_scrubs_params", props=["C04", "C14"], func=r"connection/mod\.rs:245:1[^>]*>::init_0rtt$",
  pure=[r"is_client$"], allowed_panics=r".",
  functions=["Connection::init_0rtt"], pre=lambda c: "true", post=i0_post,
  bounds="every remembered parameter set: what is installed for the 0-RTT phase has no stateless reset token, no initial / original / retry connection IDs and no preferred address - a datagram ending in the previous connection's reset token cannot end the new one, and CID authentication starts from scratch",
  replay=("conn_init_0rtt_native", lambda m: [dict(x=0)]))


# ------------------------------------------------------------------ C04: the connection-creating Initial is recorded in the replay filter like every other packet
def fpd_post(c, p):
    st = p.p.state
    if p.p.outcome != "stop":
        return "true"
    ins = [x for x in st.calls if re.search(r"Dedup::insert$", x[0])]
    if len(ins) != 1:
        return "false"
    recv, num = ins[0][1][0], ins[0][1][1]
    # the filter of the Initial space, told about THIS packet number, before the packet is processed
    ok = recv[0] == "ref" and "'SpaceId', 0)" in str(recv[1]) and str(recv[1]).endswith(".%d" % c.field("connection/spaces.rs", "PacketSpace", "dedup")) and num[0] == "val"
    if not ok:
        return "false"
    return eq(num[1].t, c.inp("_5", BV64))


Q(name="e2_first_packet_dedup", props=["C04"], func=r"connection/mod\.rs:\d+:1: \d+:16>::handle_first_packet$",
  pure=[r"IndexMut<SpaceId>>::index_mut$"], stop_at=[r"on_packet_authenticated$"], check_stop=True, allowed_panics=r"attempt to compute|unreachable",
  functions=["Connection::handle_first_packet (up to on_packet_authenticated)"], pre=lambda c: eq(c.inp("*_1.%d#discr" % c.field("connection/mod.rs", "Connection", "state"), I64), bv(0)), post=fpd_post,
  bounds="every first Initial: before it counts as authenticated and is processed, its packet number is inserted into the Initial space's duplicate filter - a replay of the connection-creating datagram, routed to the connection later, is then recognised like any other duplicate",
  replay=("conn_first_packet_replay_native", lambda m: [dict(pn=0), dict(pn=3)]))


# ------------------------------------------------------------------ C04: handle_packet acts on a packet only after decryption succeeded, the duplicate filter was consulted and said "new", and not on a stateless reset (slice)
def hpc_post(c, p):
    st = p.p.state
    calls = st.calls
    pd = [i for i, x in enumerate(calls) if re.search(r"process_decrypted_packet$", x[0])]
    if not pd:
        return "true"
    if len(pd) != 1:
        return "false"
    ip = pd[0]
    before = calls[:ip]
    dec = [x for x in before if re.search(r"Connection::decrypt_packet$", x[0])]
    if len(dec) != 1:
        # paths that enter the slice with `packet == None` construct Err(None) and cannot come here (infeasible); anything else is a defect
        return "false"
    num = calls[ip][1][3]
    if num[0] != "agg":
        return "false"
    K = num[1] if isinstance(num[1], str) else num[1].key()
    snap = _Snap(st, calls[ip][3]) if calls[ip][3] is not None else st
    has_num = eq(c.ex.read_key(snap, K + "#discr", I64).t, bv(1))
    dd = [x for x in before if re.search(r"as FnOnce<\(u64,\)>>::call_once$", x[0])]
    out = [not_(c.inp("_6", BOOL))]                      # `_ if stateless_reset => Err(Reset)`: never processed
    if not dd:
        out.append(not_(has_num))                            # only unnumbered packets (there are none today) skip the filter
    else:
        if len(dd) != 1:
            return "false"
        a = dd[0][1][1]
        ds = _Snap(st, dd[0][3]) if dd[0][3] is not None else st
        ak = a[1] if isinstance(a[1], str) else a[1].key()
        arg = c.ex.read_key(ds, ak + ".0", BV64).t if a[0] == "agg" else a[1].t
        res = c.ex.read_key(st, dd[0][2], BOOL).t
        out += [has_num, eq(arg, c.ex.read_key(snap, K + "@Some.0", BV64).t), not_(res)]
    # counted as authenticated (ack bookkeeping, idle timer) with the same number, unless the connection is already closed
    opa = [x for x in before if re.search(r"on_packet_authenticated$", x[0])]
    closed = [x for x in before if re.search(r"State::is_closed$", x[0])]
    if not opa:
        if len(closed) != 1:
            return "false"
        out.append(c.ex.read_key(st, closed[0][2], BOOL).t)
    else:
        n2 = opa[0][1][4]
        k2 = n2[1] if isinstance(n2[1], str) else n2[1].key()
        if len(opa) != 1 or n2[0] != "agg" or k2 != K:
            return "false"
    return and_(*out)


Q(name="e2_handle_packet_core_slice", props=["C04"], func=r"connection/mod\.rs:\d+:1: \d+:16>::handle_packet$",
  src="connection/mod.rs", within=r"^    fn handle_packet\(", start_line=r"let decrypted = match packet \{", end_line=r"if let Err\(conn_err\) = result \{",
  inline=[r"is_some_and", r"handle_packet::\{closure#0\}"], check_stop=True, allowed_panics=r".", ignore_untranslatable=r"^loop at",
  functions=["Connection::handle_packet (slice: from `let decrypted = match packet` to the error-state transitions)"], pre=lambda c: "true", post=hpc_post,
  bounds="the middle of handle_packet, executed from an ARBITRARY state: on every path that hands a packet to process_decrypted_packet, decrypt_packet ran in this call, the stateless-reset flag is off, a numbered packet went through the duplicate-filter closure with exactly its number and the filter answered `new`, and on_packet_authenticated saw the same number first unless the connection is closed; decrypt_packet, the closures and process_decrypted_packet are opaque here (other queries)",
  replay=("conn_handle_packet_core_native", lambda m: [dict(mode=0), dict(mode=1), dict(mode=2)]))


def hpd_post(c, p):
    st = p.p.state
    if p.p.outcome != "return":
        return "true"
    ins = p.called(r"Dedup::insert$")
    sp = p.called(r"Header::space$")
    ix = p.called(r"index_mut$")
    if len(ins) != 1 or len(sp) != 1 or len(ix) != 1:
        return "false"
    recv, n = ins[0][1][0], ins[0][1][1]
    ok = recv[0] == "ref" and str(recv[1]).endswith(".%d" % c.field("connection/spaces.rs", "PacketSpace", "dedup")) and n[0] == "val"
    if not ok:
        return "false"
    return and_(eq(n[1].t, c.inp("_2", BV64)), eq(c.ex.read_key(st, "_0", BOOL).t, c.ex.read_key(st, ins[0][2], BOOL).t))


Q(name="e2_handle_packet_dedup_closure", props=["C04"], func=r"::handle_packet::\{closure#1\}$",
  functions=["the `is_duplicate` closure of Connection::handle_packet"], pre=lambda c: "true", post=hpd_post,
  bounds="the closure handle_packet consults for duplicates: it inserts exactly the number it is given into the `dedup` filter of the space named by the packet's own header and returns the filter's answer unchanged",
  replay=("conn_handle_packet_core_native", lambda m: [dict(mode=0), dict(mode=2)]))


def rss_post(c, p):
    st = p.p.state
    if p.p.outcome != "return":
        return "true"
    ts = p.called(r"Send::try_stop$")
    ev = [x for x in p.called(r"VecDeque.*::push_back") if x[1][0][0] == "ref" and str(x[1][0][1]).endswith(".%d" % c.field("connection/streams/state.rs", "StreamsState", "events"))]
    if len(ts) > 1 or len(ev) > 1 or (ev and not ts):
        return "false"
    if not ts:
        return "true"
    code_ok = ts[0][1][1][0] == "agg" and eq(c.ex.read_key(_Snap(st, ts[0][3]), _k(ts[0][1][1][1]) + ".0", BV64).t, c.inp("_3.0", BV64))
    if code_ok is False:
        return "false"
    stopped = c.ex.read_key(st, ts[0][2], BOOL).t
    if not ev:
        return and_(code_ok, not_(stopped))
    snap = _Snap(st, ev[0][3])
    e = _k(ev[0][1][1][1])
    want = c.ex.enums["StreamEvent"].index("Stopped")
    return and_(code_ok, stopped, eq(c.ex.read_key(snap, e + "#discr", I64).t, bv(want)),
                eq(c.ex.read_key(snap, e + "@Stopped.0.0", BV64).t, c.inp("_2.0", BV64)),
                eq(c.ex.read_key(snap, e + "@Stopped.1.0", BV64).t, c.inp("_3.0", BV64)))


def _k(x):
    return x if isinstance(x, str) else x.key()


Q(name="e2_received_stop_sending", props=["C11"], func=r"streams/state\.rs:\d+:1: \d+:18>::received_stop_sending$",
  functions=["StreamsState::received_stop_sending"], pre=lambda c: "true", post=rss_post, allowed_panics=r"attempt to compute",
  bounds="every STOP_SENDING frame (any stream id, any error code) against every lookup outcome: `Send::try_stop` (covered by send_half_state_ops) is asked at most once, with this frame's error code; Event::Stopped is queued exactly when it answers that the stream was not stopped before, exactly once, carrying this stream's id and this frame's code; a stream that is not in the send map produces no event",
  replay=("streams_stop_sending_native", lambda m: [dict(state=0), dict(state=1), dict(state=2), dict(state=3)]))


def rak_post(c, p):
    st = p.p.state
    if p.p.outcome != "return":
        return "true"
    sf = p.called(r"StreamsState::stream_freed$")
    rm = p.called(r"RawTable.*::remove$|remove_entry$")
    m = re.search(r"\|in:(\*\*_\d+\.1@Some(?:\.0)+\.%d#discr)\|" % c.field("connection/streams/send.rs", "Send", "state"), " ".join(st.conds))
    reset_sent = bv(c.ex.enums["SendState"].index("ResetSent"))
    if not sf:
        if rm:
            return "false"                       # an entry is removed only together with the bookkeeping
        return not_(eq(c.inp(m.group(1), I64), reset_sent)) if m else "true"
    if len(sf) != 1 or len(rm) != 1 or not m or st.calls.index(rm[0]) > st.calls.index(sf[0]):
        return "false"
    a = sf[0][1]
    snap = _Snap(st, sf[0][3])
    half = a[2]
    half_ok = half[0] == "other" and str(half[1]) == "('enum', 'StreamHalf', %d)" % c.ex.enums["StreamHalf"].index("Send")
    if not half_ok or a[1][0] != "agg":
        return "false"
    return and_(eq(c.inp(m.group(1), I64), reset_sent), eq(c.ex.read_key(snap, _k(a[1][1]) + ".0", BV64).t, c.inp("_2.0", BV64)))


Q(name="e2_reset_acked", props=["C11"], func=r"streams/state\.rs:\d+:1: \d+:18>::reset_acked$",
  functions=["StreamsState::reset_acked (HashMap entry / remove inlined from hashbrown)"], pre=lambda c: "true", post=rak_post, allowed_panics=r"attempt to compute",
  bounds="every acknowledged RESET_STREAM against every state of the send map: the sending half is removed and reported to stream_freed (as the Send half of exactly this stream) if and only if its entry exists and is in state ResetSent; an absent entry, a not-yet-materialised one, or one in any other state is left alone",
  replay=("streams_reset_acked_native", lambda m: [dict(reset=0), dict(reset=1)]))


def _path_field(c, n):
    return "*_1.%d.%d" % (c.field("connection/mod.rs", "Connection", "path"), c.field("connection/paths.rs", "PathData", n))


def mtg_post(c, p):
    st = p.p.state
    if p.p.outcome != "return":
        return "true"
    mg = p.called(r"Connection::migrate$")
    eqs = [x for x in p.called(r"SocketAddr as PartialEq>::eq$") if x[1][0] == ("ref", "_3") and x[1][1][0] == "ref" and str(x[1][1][1]) == _path_field(c, "remote")]
    idx = [x for x in p.called(r"Index<SpaceId>>::index$") if "'SpaceId', %d)" % c.ex.enums["SpaceId"].index("Data") in str(x[1][1])]
    probing = c.inp(c.fn.debug["is_probing_packet"][0], BOOL)
    parts = []
    if eqs:
        parts.append(not_(c.ex.read_key(st, eqs[0][2], BOOL).t))
    if eqs and idx:
        parts += [not_(probing), eq(c.inp("_4", BV64), c.inp("*%s.%d" % (idx[0][2], c.field("connection/spaces.rs", "PacketSpace", "rx_packet")), BV64))]
    if not mg:
        if p.called(r"update_rem_cid$"):
            return "false"
        return not_(and_(*parts)) if len(parts) == 3 else "true"
    if len(mg) != 1 or len(parts) != 3 or len(p.called(r"update_rem_cid$")) != 1:
        return "false"
    a = mg[0][1]
    if a[1] != ("agg", "_2") or a[2] != ("agg", "_3"):
        return "false"
    return and_(*parts)


Q(name="e2_migration_trigger_slice", props=["C15"], func=r"connection/mod\.rs:\d+:1: \d+:16>::process_payload$",
  src="connection/mod.rs", within=r"^    fn process_payload\(", start_line=[r"^        if remote != self\.path\.remote$", r"(?#before)^            && !is_probing_packet$"],
  allowed_panics=r".", ignore_untranslatable=r"Transmute",
  functions=["Connection::process_payload (slice: the migration trigger after the frame loop)"], pre=lambda c: "true", post=mtg_post,
  bounds="the end of process_payload from an ARBITRARY state: `migrate(now, remote)` (followed by a CID change) runs if and only if the packet came from an address other than the current path's, carried a non-probing frame (`is_probing_packet` false) and has the highest packet number received so far in the Data space; the panic for a client reaching this point is outside the claim (e2_handle_event_remote_check shows clients drop such packets)",
  replay=("conn_migration_trigger_native", lambda m: [dict(mode=0), dict(mode=1), dict(mode=2), dict(mode=3)]))


def prs_post(c, p):
    st = p.p.state
    if p.p.outcome not in ("stop", "return"):
        return "true"
    chal = _path_field(c, "challenge")
    val = _path_field(c, "validated")
    tok = c.inp(c.fn.debug["frame"][0] + "@PathResponse.0", BV64)
    eqs = [x for x in p.called(r"SocketAddr as PartialEq>::eq$") if x[1][0] == ("ref", "_3") and x[1][1][0] == "ref" and str(x[1][1][1]) == _path_field(c, "remote")]
    same_remote = c.ex.read_key(st, eqs[0][2], BOOL).t if eqs else "false"
    cond = and_(eq(c.inp(chal + "#discr", I64), bv(1)), eq(c.inp(chal + "@Some.0", BV64), tok), same_remote)
    stops = [x for x in p.called(r"TimerTable::stop$") if "'Timer', %d)" % _timer_idx(c, "PathValidation") in str(x[1][1])]
    new_val = c.ex.read_key(st, val, BOOL).t
    new_chal = c.ex.read_key(st, chal + "#discr", I64).t
    if stops:
        # validated: needs the matching token from the path's own address
        return and_(cond, new_val, eq(new_chal, bv(0)))
    return and_(not_(cond), eq(new_val, c.inp(val, BOOL)), eq(new_chal, c.inp(chal + "#discr", I64)))


Q(name="e2_path_response_slice", props=["C15", "C07"], func=r"connection/mod\.rs:\d+:1: \d+:16>::process_payload$",
  src="connection/mod.rs", within=r"^    fn process_payload\(", start_line=r"Frame::PathResponse\(token\) => \{", end_line=[r"(?#loophead)for result in frame::Iter::new\(payload\)\? \{"],
  allowed_panics=r".", check_stop=True,
  functions=["Connection::process_payload (slice: the PATH_RESPONSE arm of the frame loop)"], pre=lambda c: "true", post=prs_post,
  bounds="the PATH_RESPONSE arm from an ARBITRARY state: the path becomes validated (challenge cleared, PathValidation timer stopped) if and only if a challenge is outstanding, the frame carries exactly its token and the packet came from the path's own address; in every other case `validated` and the outstanding challenge are left as they were",
  replay=("conn_path_response_native", lambda m: [dict(mode=0), dict(mode=1), dict(mode=2)]))


def tmc_post(c, p):
    st = p.p.state
    if p.p.outcome != "return":
        return "true"
    pops = p.called(r"VecDeque.*::pop_front$")
    rm_lru = p.called(r"LruSlab.*::remove$")
    rm_map = p.called(r"HashMap.*::remove$")
    some = c.ex.read_key(st, "_0#discr", I64).t
    if not pops:
        # nothing is handed out without being taken out of the queue
        return "false" if (rm_lru or rm_map) else eq(some, bv(0))
    peek = p.called(r"LruSlab.*::(peek_mut|get_mut)$")
    if len(pops) != 1 or len(peek) != 1:
        return "false"
    recv = pops[0][1][0]
    tokens = "*%s.%d" % (peek[0][2], c.field("token_memory_cache.rs", "CacheEntry", "tokens"))
    if recv != ("ref", tokens):
        return "false"
    handed_out = c.ex.origin(st, "_0@Some.0") == pops[0][2] + "@Some.0"
    if not handed_out or len(rm_lru) > 1 or len(rm_map) > 1 or bool(rm_lru) != bool(rm_map):
        return "false"
    if rm_map and rm_map[0][1][1] != ("ref", "*_2"):
        return "false"
    left = c.ex.read_key(st, tokens + ".1", BV64).t          # VecDeque { head, len, buf }: `len` after the pop
    return and_(eq(some, bv(1)), eq(left, bv(0)) if rm_lru else not_(eq(left, bv(0))))


Q(name="e2_token_cache_take", props=["C14"], func=r"token_memory_cache\.rs:\d+:1: \d+:11>::take$",
  allowed_panics=r"unwrap_failed|called `Option::unwrap\(\)`",
  functions=["token_memory_cache::State::take (VecDeque::is_empty inlined)"], pre=lambda c: "true", post=tmc_post,
  bounds="every cache state and server name: a token is returned only after VecDeque::pop_front removed it from that server's queue, and it is that very element (so no token is handed out twice); the server's entry is dropped from the LRU slab and the lookup map exactly when its queue became empty; HashMap / LruSlab / VecDeque operations are opaque (any result)",
  replay=("token_cache_take_native", lambda m: [dict(n=0), dict(n=1), dict(n=2), dict(n=5)]))


def dlp_post(c, p):
    st = p.p.state
    if p.p.outcome != "stop":
        return "true"
    d = c.fn.debug
    packet, info = d["packet"][0], d["info"][0]
    sds = p.called(r"Instant::saturating_duration_since$")
    if len(sds) != 1:
        return "false"
    a = sds[0][1]
    ts = "*%s.%d" % (info, c.field("connection/spaces.rs", "SentPacket", "time_sent"))
    if not (a[0][0] in ("agg", "ref") and _k(a[0][1]) in (d["now"][0], "_2") and a[1][0] in ("agg", "ref") and _k(a[1][1]) == ts):
        return "false"
    r = sds[0][2]
    dsec, dns = c.ex.read_key(st, r + ".0", BV64).t, c.ex.read_key(st, r + ".1.0", ("bv", 32, False)).t
    ld = d["loss_delay"][0]
    lsec, lns = c.inp(ld + ".0", BV64), c.inp(ld + ".1.0", ("bv", 32, False))
    too_old = or_("(bvugt %s %s)" % (dsec, lsec), and_(eq(dsec, lsec), "(bvuge %s %s)" % (dns, lns)))
    pk, la, th = c.inp(packet, BV64), c.inp(d["largest_acked_packet"][0], BV64), c.inp(d["packet_threshold"][0], BV64)
    reordered = "(bvuge %s (bvadd %s %s))" % (la, pk, th)
    lost = or_(too_old, reordered)
    pushes = [x for x in p.called(r"Vec.*::push") if x[1][0] == ("ref", d["lost_packets"][0])]
    kept = p.called(r"Instant as Add<Duration>>::add$")          # next_loss_time = info.time_sent + loss_delay: the packet stays outstanding
    # the in-flight MTU probe is a packet of the Data space: a packet of another space with the same number is not it
    # (dlp_pre: the loop is entered with `in_flight_mtu_probe` set only for the Data space - e2_detect_lost_prefix)
    probe_loc = d["in_flight_mtu_probe"][0]
    is_probe = and_(eq(c.inp(probe_loc + "#discr", I64), bv(1)), eq(c.inp(probe_loc + "@Some.0", BV64), pk))
    if kept:
        return "false" if pushes else not_(lost)
    if len(pushes) > 1:
        return "false"
    if pushes:
        v = pushes[0][1][1]
        return and_(lost, not_(is_probe), eq(v[1].t, pk)) if v[0] == "val" else "false"
    # declared lost without entering lost_packets: only the in-flight MTU probe
    return and_(lost, is_probe, eq(c.ex.read_key(st, d["lost_mtu_probe"][0] + "#discr", I64).t, bv(1)))


def dlp_pre(c):
    probe_loc = c.fn.debug["in_flight_mtu_probe"][0]
    return or_(not_(eq(c.inp(probe_loc + "#discr", I64), bv(1))), eq(c.inp("_3#discr", I64), bv(c.ex.enums["SpaceId"].index("Data"))))


def dlx_post(c, p):
    st = p.p.state
    if p.p.outcome != "stop":
        return "true"
    probe_loc = c.fn.debug["in_flight_mtu_probe"][0]
    some = eq(c.ex.read_key(st, probe_loc + "#discr", I64).t, bv(1))
    # only loss detection for the Data space may regard a packet as the in-flight MTU probe
    return or_(not_(some), eq(c.inp("_3#discr", I64), bv(c.ex.enums["SpaceId"].index("Data"))))


Q(name="e2_detect_lost_prefix", props=["C12", "C13"], func=r"connection/mod\.rs:\d+:1: \d+:16>::detect_lost_packets$",
  src="connection/mod.rs", within=r"^    fn detect_lost_packets\(", end_line=[r"for \(packet, info\) in space\.sent_packets\.range\(0\.\.largest_acked_packet\)"],
  allowed_panics=r".", check_stop=True, ignore_untranslatable=r".",
  functions=["Connection::detect_lost_packets (slice: from the function's start to the loss scan)"], pre=lambda c: "true", post=dlx_post,
  bounds="every connection state and every packet-number space: when the loss scan starts, the packet number it treats as 'the in-flight MTU probe' is set only if loss detection runs for the Data space - MTU probes are 1-RTT packets, and a Handshake packet that happens to carry the same number is an ordinary packet (the invariant the per-iteration obligation relies on)",
  replay=("conn_lost_probe_other_space_native", lambda m: [dict(x=0)]))


Q(name="e2_detect_lost_iteration_slice", props=["C12"], func=r"connection/mod\.rs:\d+:1: \d+:16>::detect_lost_packets$",
  src="connection/mod.rs", within=r"^    fn detect_lost_packets\(", start_line=[r"if prev_packet != Some\(packet\.wrapping_sub\(1\)\)", r"(?#before)// An intervening packet was acknowledged"], end_line=[r"^            prev_packet = Some\(packet\);", r"if info\.ack_eliciting && due_to_ack \{"],
  allowed_panics=r".", check_stop=True,
  functions=["Connection::detect_lost_packets (slice: one iteration of the scan over unacknowledged packets below the largest acknowledged one)"], pre=dlp_pre, post=dlp_post,
  bounds="one iteration of the loss scan from an ARBITRARY state (any packet, send time, thresholds, loop-carried variables): the packet is declared lost exactly when (RFC 9002 6.1) it was sent at least loss_delay before now or at least packet_threshold packets before the largest acknowledged one; a lost packet is pushed onto lost_packets exactly once with its own number, except the in-flight MTU probe, which is recorded as lost_mtu_probe instead; otherwise the packet stays outstanding; Instant::saturating_duration_since is opaque (asked about now and this packet's send time); the u64 overflow of packet + packet_threshold (config value near 2^64) is outside the claim",
  replay=("conn_detect_lost_native", lambda m: [dict(age_ms=10), dict(age_ms=1124), dict(age_ms=1125), dict(age_ms=5000)]))



# ------------------------------------------------------------------ C17 / C01: after a Retry every early stream is scheduled again in full, its FIN included (one loop iteration, slice)
def _r0_keys(c):
    base = "**%s.0.0" % c.fn.debug["stream"][0]                # stream: &mut Box<Send>
    pend = base + ".%d" % c.field("connection/streams/send.rs", "Send", "pending")
    sb = lambda n: pend + ".%d" % c.field("connection/send_buffer.rs", "SendBuffer", n)
    return base, sb


def r0_pre(c):
    base, sb = _r0_keys(c)
    state = base + ".%d" % c.field("connection/streams/send.rs", "Send", "state")
    # 0-RTT: nothing can have been acknowledged yet
    return and_(eq(c.inp(sb("unacked_len"), BV64), c.inp(sb("offset"), BV64)), ule(c.inp(sb("unsent"), BV64), c.inp(sb("offset"), BV64)),
                or_(not_(eq(c.inp(state + "#discr", I64), bv(1))), not_(c.inp(state + "@DataSent.0", BOOL))))


def r0_post(c, p):
    st = p.p.state
    if p.p.outcome != "stop":
        return "true"
    base, sb = _r0_keys(c)
    state = base + ".%d" % c.field("connection/streams/send.rs", "Send", "state")
    finp = base + ".%d" % c.field("connection/streams/send.rs", "Send", "fin_pending")
    off = c.inp(sb("offset"), BV64)
    unsent0, unsent1 = c.inp(sb("unsent"), BV64), c.ex.read_key(st, sb("unsent"), BV64).t
    fin0, fin1 = c.inp(finp, BOOL), c.ex.read_key(st, finp, BOOL).t
    finished = eq(c.inp(state + "#discr", I64), bv(c.ex.enums["SendState"].index("DataSent")))
    data_left = "(bvult %s %s)" % (unsent1, off)
    pushes = p.called(r"PendingStreamsQueue::push_pending$")
    if len(pushes) > 1:
        return "false"
    empties = p.called(r"RangeSet::is_empty$")
    was_pending = or_(not_(eq(unsent0, off)), fin0, *[not_(c.ex.read_key(st, x[2], BOOL).t) for x in empties])
    return and_(eq(unsent1, bv(0)),                                           # everything written so far goes out again
                or_(not_(finished), fin1, data_left),                         # a finished stream sends its FIN again (alone or with the last data)
                or_(not_(or_(data_left, fin1)), "true" if pushes else was_pending))   # and whatever is to be sent is queued


Q(name="e2_retransmit_all_for_0rtt_iteration", props=["C17", "C01"], func=r"streams/state\.rs:\d+:1: \d+:18>::retransmit_all_for_0rtt$",
  src="connection/streams/state.rs", within=r"fn retransmit_all_for_0rtt\(", start_line=[r"if stream\.pending\.is_fully_acked\(\) && !stream\.fin_pending \{", r"(?#before)// Stream data can't be acked in 0-RTT"],
  end_line=[r"(?#loophead)for index in 0\.\.self\.next\[dir as usize\] \{"],
  allowed_panics=r".", check_stop=True, inline=[r"is_fully_acked$", r"Send::is_pending$", r"SendBuffer::retransmit_all_for_0rtt$", r"has_unsent_data$"],
  functions=["StreamsState::retransmit_all_for_0rtt (slice: the body of the per-stream loop)", "SendBuffer::retransmit_all_for_0rtt", "SendBuffer::is_fully_acked", "Send::is_pending"],
  pre=r0_pre, post=r0_post,
  bounds="one iteration of the per-stream loop that runs when a Retry has discarded every 0-RTT packet, from an ARBITRARY stream state in which nothing is acknowledged (unacked_len = offset, unsent <= offset, FIN unacknowledged): afterwards the whole written prefix is scheduled again (unsent = 0), a finished stream will send its FIN again - on its own when it has no data - and a stream with anything to send is in the pending queue",
  replay=("streams_retransmit_all_0rtt_native", lambda m: [dict(len_=0, partial=0), dict(len_=10, partial=0), dict(len_=200, partial=1), dict(len_=0, partial=1)]))


# ------------------------------------------------------------------ C15: when path validation times out the connection ends up on a path with no challenge outstanding (slice)
def pvt_post(c, p):
    st = p.p.state
    if p.p.outcome not in ("stop", "return"):
        return "true"
    path = "*_1.%d" % c.field("connection/mod.rs", "Connection", "path")
    chal = _path_field(c, "challenge")
    pend = _path_field(c, "challenge_pending")
    org = c.ex.origin(st, path)
    restored = org != path
    if restored and not re.match(r"^_\d+(@Some\.0\.1)?$", str(org)):
        return "false"
    if restored and not p.called(r"set_loss_detection_timer$"):
        return "false"
    # whichever path the connection is on afterwards: its challenge has lapsed with the timer
    return and_(eq(c.ex.read_key(st, chal + "#discr", I64).t, bv(0)), not_(c.ex.read_key(st, pend, BOOL).t))


Q(name="e2_path_validation_timeout_slice", props=["C15"], func=r"connection/mod\.rs:\d+:1: \d+:16>::handle_timeout$",
  src="connection/mod.rs", within=r"^    pub fn handle_timeout\(", start_line=[r"if let Some\(\(_, prev\)\) = self\.prev_path\.take\(\) \{", r"(?#before)^                        self\.path = prev;"],
  end_line=[r"(?#loophead)for &timer in &Timer::VALUES \{", r"Timer::Pacing => trace!"],
  allowed_panics=r".", check_stop=True,
  functions=["Connection::handle_timeout (slice: the PathValidation arm from the point where the previous path is taken back)"], pre=lambda c: "true", post=pvt_post,
  bounds="the PathValidation arm from an ARBITRARY state (any current path, any or no previous path): afterwards the path the connection is on - the previous one when there was one - has no challenge outstanding or pending (a stale challenge on the restored path would keep migrate() from remembering it the next time), and restoring a path re-arms loss detection",
  replay=("conn_path_validation_timeout_native", lambda m: [dict(rounds=1), dict(rounds=2)]))


# ------------------------------------------------------------------ C11: RecvStream::received_reset - a stopped stream is closed; the reset is reported once, and frees the stream
def rsr_post(c, p):
    st = p.p.state
    if p.p.outcome != "return":
        return "true"
    err = eq(c.ex.read_key(st, "_0#discr", I64).t, bv(1))
    some = and_(not_(err), eq(c.ex.read_key(st, "_0@Ok.0#discr", I64).t, bv(1)))
    ent = p.called(r"rustc_entry$|HashMap.*::entry$")
    opn = p.called(r"StreamRecv::as_open_recv$")
    rc = p.called(r"Recv::reset_code$")
    rm = p.called(r"RawTable.*::remove$|remove_entry$")
    fr = p.called(r"StreamsState::stream_recv_freed$")
    if len(ent) != 1 or len(opn) > 1 or len(rc) > 1 or len(rm) > 1 or len(fr) > 1 or bool(rm) != bool(fr):
        return "false"
    vacant = eq(c.ex.read_key(st, ent[0][2] + "#discr", I64).t, bv(1))                 # RustcEntry { Occupied, Vacant }
    out = [or_(not_(vacant), err)]                                   # a stream that is gone reports ClosedStream
    if opn:
        r = opn[0][2]
        is_open = eq(c.ex.read_key(st, r + "#discr", I64).t, bv(1))
        stopped = c.inp("*%s@Some.0.%d" % (r, c.field("connection/streams/recv.rs", "Recv", "stopped")), BOOL)
        out.append(or_(not_(and_(is_open, stopped)), err))          # a stream the application stopped reports ClosedStream
    if rm:
        # the terminal outcome is handed out together with the stream's removal - exactly once
        if not rc or c.ex.origin(st, "_0@Ok.0@Some.0") not in (rc[0][2] + "@Some.0",):
            return "false"
        out.append(some)
    else:
        out.append(not_(some))
    return and_(*out)


Q(name="e2_recvstream_received_reset", props=["C11"], func=r"streams/mod\.rs:\d+:1: \d+:20>::received_reset$",
  allowed_panics=r"must have recv on reset|expect_failed",
  functions=["RecvStream::received_reset (HashMap entry / remove inlined from hashbrown)"], pre=lambda c: "true", post=rsr_post,
  bounds="every state of the receive map and of the stream: a stream that is no longer in the map, or that the application has stopped, reports ClosedStream; Ok(Some(code)) is returned only together with the removal of the stream (so it is observed once) and carries the code Recv::reset_code reported; in every other case the stream stays and Ok(None) is returned; as_open_recv / reset_code / stream_recv_freed opaque",
  replay=("streams_recvstream_received_reset_native", lambda m: [dict(mode=0), dict(mode=1), dict(mode=2)]))


# ------------------------------------------------------------------ C17 / C12: rejected 0-RTT - streams rolled back, queued early frames dropped, early packets forgotten and taken out of flight (slice)
def zrr_post(c, p):
    st = p.p.state
    if p.p.outcome != "stop":
        return "true"
    eda = p.called(r"Session>::early_data_accepted$")
    if len(eda) != 1:
        return "false"
    accepted = c.ex.read_key(st, eda[0][2] + "@Some.0", BOOL).t
    zr = p.called(r"StreamsState::zero_rtt_rejected$")
    rd = p.called(r"<Retransmits as Default>::default$")
    sd = p.called(r"<SentPackets as Default>::default$")
    iv = p.called(r"SentPackets::into_values$")
    nx = p.called(r"as Iterator>::next$")
    rif = p.called(r"Connection::remove_in_flight$")
    if not zr:
        return "false" if (rd or sd or iv or rif) else accepted
    data = "'SpaceId', %d)" % c.ex.enums["SpaceId"].index("Data")
    idx = [x for x in p.called(r"IndexMut<SpaceId>>::index_mut$") if data in str(x[1][1])]
    pend_f, sent_f = c.field("connection/spaces.rs", "PacketSpace", "pending"), c.field("connection/spaces.rs", "PacketSpace", "sent_packets")
    if len(zr) != 1 or len(rd) != 1 or len(sd) != 1 or len(iv) != 1 or not idx:
        return "false"
    # the Data space's queue of frames to send is emptied, its record of sent packets is emptied and walked
    if not any(c.ex.origin(st, "*%s.%d" % (x[2], pend_f)) == rd[0][2] for x in idx):
        return "false"
    if not any(c.ex.origin(st, "*%s.%d" % (x[2], sent_f)) == sd[0][2] for x in idx):
        return "false"
    if not re.search(r"\*_\d+\.%d$" % sent_f, str(iv[0][1][0][1])):
        return "false"
    snap = _Snap(st, iv[0][3])
    acc0 = c.ex.read_key(snap, "*_1.%d" % c.field("connection/mod.rs", "Connection", "accepted_0rtt"), BOOL).t
    out = [not_(accepted), not_(acc0)]
    if "loop back-edge" in str(p.p.detail):
        # one early packet was taken from the record: it leaves the in-flight accounting
        if len(nx) != 1 or len(rif) != 1 or rif[0][1][1][0] != "ref" or c.ex.origin(st, _k(rif[0][1][1][1])) != nx[0][2] + "@Some.0":
            return "false"
    elif rif:
        return "false"
    return and_(*out)


Q(name="e2_zero_rtt_rejection_slice", props=["C17", "C12"], func=r"connection/mod\.rs:\d+:1: \d+:16>::process_decrypted_packet$",
  src="connection/mod.rs", within=r"^    fn process_decrypted_packet\(", start_line=r"if !?self\.crypto\.early_data_accepted\(\)\.unwrap\(\) \{",
  end_line=[r"^                            self\.accepted_0rtt = true;", r"if let Some\(token\) = params\.stateless_reset_token \{"],
  allowed_panics=r".", check_stop=True, loop_is_stop=True,
  functions=["Connection::process_decrypted_packet (slice: the 0-RTT-rejected branch at handshake completion, one iteration of its loop)"], pre=lambda c: "true", post=zrr_post,
  bounds="the handshake-completion branch for a client that attempted 0-RTT, from an ARBITRARY state: exactly when the TLS session reports early data as rejected, the streams are rolled back (zero_rtt_rejected), the Data space's queued frames are replaced by an empty set, its record of sent packets is emptied, every packet taken from that record (one loop iteration shown) is removed from the in-flight accounting, and accepted_0rtt is false; when early data was accepted none of this happens",
  replay=("conn_zero_rtt_rejection_native", lambda m: [dict(accept=0), dict(accept=1)]))


# ------------------------------------------------------------------ C14: the NEW_TOKEN reuse log never forgets a token it has accepted (one filter; set -> bloom conversion carries every fingerprint over)
def bf_post(c, p):
    st = p.p.state
    if p.p.outcome not in ("return", "stop"):
        return "true"
    hins = p.called(r"HashMap.*::insert$|HashSet.*::insert$")
    build = p.called(r"BloomFilter.*::with_num_bits$")
    keys = p.called(r"HashMap.*::keys$|HashSet.*::iter$|HashSet.*::into_iter$")
    nxt = p.called(r"as Iterator>::next$")
    sh = p.called(r"BloomFilter.*::source_hash$|BloomFilter.*::insert$")
    ih = p.called(r"BloomFilter.*::insert_hash$|BloomFilter.*::insert$")
    was_set = eq(c.inp("*_1#discr", I64), bv(0))
    if p.p.outcome == "stop":
        # inside the carry-over loop: the element just taken from the old set goes into the new filter
        if not (build and len(keys) == 1 and len(nxt) == 1 and len(sh) == 1 and len(ih) == 1):
            return "false"
        item = sh[0][1][1]
        ok = item[0] == "ref" and c.ex.origin(st, _k(item[1]).lstrip("*")) in (nxt[0][2] + "@Some.0",) or str(c.ex.origin(st, _k(item[1]))).startswith("*" + nxt[0][2])
        return "true" if ok else "false"
    err = eq(c.ex.read_key(st, "_0#discr", I64).t, bv(1))
    if hins:
        # Set arm.  HashMap::insert returns Some(()) when the fingerprint was there already
        present = eq(c.ex.read_key(st, hins[0][2] + "#discr", I64).t, bv(1))
        if build:
            # converted: only after walking the whole old set (this path saw the iterator run dry)
            if len(keys) != 1 or not nxt or "@Set" not in str(keys[0][1][0][1]):
                return "false"
            return and_(was_set, not_(present), not_(err), eq(c.ex.read_key(st, "*_1#discr", I64).t, bv(1)))
        return and_(was_set, eq(err, present), eq(c.ex.read_key(st, "*_1#discr", I64).t, bv(0)))
    if len(ih) != 1 or build:
        return "false"
    seen = c.ex.read_key(st, ih[0][2], BOOL).t
    return and_(not_(was_set), eq(err, seen))


Q(name="e2_bloom_filter_check_and_insert", props=["C14"], func=r"bloom_token_log\.rs:\d+:1: \d+:12>::check_and_insert$",
  allowed_panics=r".", check_stop=True, loop_is_stop=True,
  functions=["bloom_token_log::Filter::check_and_insert (one iteration of the set -> bloom carry-over loop)"], pre=lambda c: "true", post=bf_post,
  bounds="every filter state, fingerprint and size limit (the MIR is dumped with quinn-proto's `bloom` feature on): a fingerprint is refused exactly when the hash set / bloom filter reports it as present; a set that has outgrown its budget becomes a bloom filter only after an iterator over the WHOLE old set has run dry, and every element that iterator yields is inserted into the new filter (one iteration shown) - so no accepted token is forgotten by the conversion; hashbrown / fastbloom operations are opaque",
  replay=("token_bloom_replay_native", lambda m: [dict(n=200, budget=800), dict(n=20, budget=800), dict(n=500, budget=4096)]))


# ------------------------------------------------------------------ C09 / C08: endpoint events Drained / NeedIdentifiers / RetireConnectionId act on exactly the reporting connection and the reported CID
def eh_post(c, p):
    st = p.p.state
    if p.p.outcome != "return":
        return "true"
    d = c.inp("_3.0#discr", I64)
    V = c.ex.enums["EndpointEventInner"].index
    some = eq(c.ex.read_key(st, "_0#discr", I64).t, bv(1))
    tr = p.called(r"Slab.*::try_remove$")
    ir = p.called(r"ConnectionIndex::remove$")
    sn = p.called(r"Endpoint::send_new_identifiers$")
    hr = p.called(r"HashMap.*::remove$")
    rt = p.called(r"ConnectionIndex::retire$")
    conns = "*_1.%d" % c.field("endpoint.rs", "Endpoint", "connections")
    index = "*_1.%d" % c.field("endpoint.rs", "Endpoint", "index")
    if tr:
        # Drained: the slot of THIS handle is freed and every route of the connection stored there is dropped
        if len(tr) != 1 or sn or hr or rt or tr[0][1][0] != ("ref", conns) or tr[0][1][1][0] != "val":
            return "false"
        got = eq(c.ex.read_key(st, tr[0][2] + "#discr", I64).t, bv(1))
        if ir:
            ok = len(ir) == 1 and ir[0][1][0] == ("ref", index) and ir[0][1][1][0] == "ref" and c.ex.origin(st, _k(ir[0][1][1][1])) in (tr[0][2] + "@Some.0", _k(ir[0][1][1][1])) and str(c.ex.origin(st, _k(ir[0][1][1][1]))).startswith(("_", "*_")) 
            if not ok:
                return "false"
        return and_(eq(d, bv(V("Drained"))), eq(tr[0][1][1][1].t, c.inp("_2.0", BV64)), got if ir else not_(got), not_(some))
    if hr:
        # RetireConnectionId: the CID stored under this sequence number for THIS connection stops routing
        loc = "*call:<Slab<ConnectionMeta> as IndexMut<ConnectionHandle>>::index_mut(%s,_2).%d" % (conns, c.field("endpoint.rs", "ConnectionMeta", "loc_cids"))
        if len(hr) != 1 or ir or not str(hr[0][1][0][1]).startswith(loc) or hr[0][1][1][0] != "ref":
            return "false"
        key_ok = c.ex.origin(st, _k(hr[0][1][1][1]).lstrip("*")) in ("_3.0@RetireConnectionId.1",) or eq(c.ex.read_key(st, _k(hr[0][1][1][1]).lstrip("*"), BV64).t, c.inp("_3.0@RetireConnectionId.1", BV64))
        had = eq(c.ex.read_key(st, hr[0][2] + "#discr", I64).t, bv(1))
        more = c.inp("_3.0@RetireConnectionId.2", BOOL)
        out = [eq(d, bv(V("RetireConnectionId"))), key_ok if isinstance(key_ok, str) else "true"]
        if rt:
            if len(rt) != 1 or rt[0][1][0] != ("ref", index) or rt[0][1][1] != ("agg", hr[0][2] + "@Some.0"):
                return "false"
            out.append(had)
        else:
            out.append(not_(had))
        if sn:
            a = sn[0][1]
            if len(sn) != 1 or not rt or a[1] != ("agg", "_3.0@RetireConnectionId.0") or a[2] != ("agg", "_2") or a[3][0] != "val":
                return "false"
            out += [more, some, eq(a[3][1].t, bv(1))]
        else:
            out += [or_(not_(had), not_(more)), not_(some)]
        return and_(*out)
    if sn:
        a = sn[0][1]
        if len(sn) != 1 or a[1] != ("agg", "_3.0@NeedIdentifiers.0") or a[2] != ("agg", "_2") or a[3][0] != "val":
            return "false"
        return and_(eq(d, bv(V("NeedIdentifiers"))), some, eq(a[3][1].t, c.inp("_3.0@NeedIdentifiers.1", BV64)))
    return eq(d, bv(V("ResetToken")))


def eh_pre(c):
    V = c.ex.enums["EndpointEventInner"].index
    return not_(eq(c.inp("_3.0#discr", I64), bv(V("ResetToken"))))


Q(name="e2_endpoint_retire_and_drained_events", props=["C09", "C08"], func=r"endpoint\.rs[^>]*>::handle_event$",
  pure=[r"IndexMut<ConnectionHandle>>::index_mut"], allowed_panics=r"attempt to",
  functions=["Endpoint::handle_event (Drained, NeedIdentifiers and RetireConnectionId arms)"], pre=eh_pre, post=eh_post,
  bounds="every event and handle: Drained frees the slot of exactly the reporting handle and passes the connection stored there - and nothing else - to ConnectionIndex::remove, answering nothing; RetireConnectionId removes the CID stored under exactly the reported sequence number of exactly this connection, un-routes exactly that CID, and asks for one replacement CID exactly when the event allows it and a CID was removed; NeedIdentifiers issues exactly the requested number for this handle; Slab / HashMap / ConnectionIndex operations opaque",
  replay=("endpoint_retire_and_drained_native", lambda m: [dict(allow_more=0), dict(allow_more=1)]))


# ------------------------------------------------------------------ C13 / C10: a close frame never outgrows the room it was given
def _vsize(x):
    return "(ite (bvult %s (_ bv64 64)) (_ bv1 64) (ite (bvult %s (_ bv16384 64)) (_ bv2 64) (ite (bvult %s (_ bv1073741824 64)) (_ bv4 64) (_ bv8 64))))" % (x, x, x)


def ce_pre(c):
    return and_(ule(bv(26), c.inp("_3", BV64)), ule(c.inp("_3", BV64), bv(4096)), ule(c.inp("*_1.1.1", BV64), bv(4096)), ule(c.inp("*_1.0.0", BV64), bv((1 << 62) - 1)))


def ce_post(c, p):
    st = p.p.state
    if p.p.outcome != "return":
        return "true"
    wv = p.called(r"BufMutExt>::write_var$")
    w = p.called(r"BufMutExt>::write$")
    ps = p.called(r"BufMut>::put_slice$")
    if len(wv) != 1 or len(w) != 2 or len(ps) != 1 or wv[0][1][1][0] != "val" or w[1][1][1] != ("agg", "*_1.0"):
        return "false"
    actual = wv[0][1][1][1].t
    code = c.inp("*_1.0.0", BV64)
    total = "(bvadd (_ bv1 64) %s %s %s)" % (_vsize(code), _vsize(actual), actual)
    # type byte + error code + length + reason bytes fit the room; the reason is a prefix of the stored one
    return and_(ule(total, c.inp("_3", BV64)), ule(actual, c.inp("*_1.1.1", BV64)))


Q(name="e2_application_close_encode_budget", props=["C13", "C10"], func=r"frame\.rs:\d+:1: \d+:22>::encode$",
  inline=[r"VarInt::size$"], pure=[r"VarInt::from_u64$"], allowed_panics=r"xxx", ignore_untranslatable=r"fmt::rt::Argument",
  assume=lambda c, p: and_("true", *[eq(c.ex.read_key(p.p.state, x[2] + ".0", BV64).t, c.inp("*_1.1.1", BV64)) for x in p.called(r"Result::unwrap$")]),
  functions=["ApplicationClose::encode", "VarInt::size"], pre=ce_pre, post=ce_post,
  bounds="every application error code below 2^62, every reason length up to 4096, every room from 26 bytes (what the call site guarantees) to 4096: type byte + error code + reason length + reason bytes never exceed max_len, no arithmetic underflow, and the reason written is a prefix of the stored one; VarInt::from_u64(n).unwrap() is VarInt(n) (contract of the opaque std call); the BufMut writes themselves are opaque (their sizes are those of the QUIC varint encoding, restated in the oracle)",
  replay=("frame_close_encode_budget_native", lambda m: [dict(code=m.get("|in:*_1.0.0|", 1 << 40), reason_len=m.get("|in:*_1.1.1|", 4000), max_len=m.get("|in:_3|", 1200)), dict(code=7, reason_len=4000, max_len=1200), dict(code=1 << 20, reason_len=10, max_len=64)]))


# ------------------------------------------------------------------ C13: the CONNECTION_CLOSE frame is given exactly the room that is left in the packet when it is written (slice)
def cb_post(c, p):
    st = p.p.state
    if p.p.outcome != "stop":
        return "true"
    enc = p.called(r"::encode(::<[^>]*>)?>?$")
    if len(enc) > 1:
        return "false"
    out = []
    ms = c.field("connection/packet_builder.rs", "PacketBuilder", "max_size")
    for x in enc:
        a = x[1]
        if a[1][0] != "ref" or a[2][0] != "val":
            return "false"
        m = re.search(r"\|in:(\*_\d+\.%d)\|" % ms, a[2][1].t)
        if not m:
            return "false"
        snap = _Snap(st, x[3])
        len_now = c.ex.read_key(snap, _k(a[1][1]) + ".1", BV64).t            # Vec { buf, len }: what is in the packet buffer at this moment
        out.append(eq(a[2][1].t, "(bvsub %s %s)" % (c.inp(m.group(1), BV64), len_now)))
    return and_(*out) if out else "true"


Q(name="e2_poll_transmit_close_budget_slice", props=["C13"], func=r"connection/mod\.rs:\d+:1: \d+:16>::poll_transmit$",
  src="connection/mod.rs", within=r"^    pub fn poll_transmit\(", start_line=[r"if !self\.spaces\[space_id\]\.pending_acks\.ranges\(\)\.is_empty\(\) \{", r"(?#after)// have gotten any other ACK for the data earlier on\."],
  end_line=[r"if space_id == self\.highest_space \{"],
  allowed_panics=r".", check_stop=True, inline=[r"State::is_closed$"], ignore_untranslatable=r"fmt::rt::Argument",
  functions=["Connection::poll_transmit (slice: the CONNECTION_CLOSE branch, from the ACK that precedes the close frame to the frame itself)"], pre=lambda c: "true", post=cb_post,
  bounds="the close branch from an ARBITRARY state: whichever close frame is written (the stored reason, APPLICATION_ERROR before 1-RTT, NO_ERROR when draining), its encoder is told max_len = builder.max_size - buf.len() with buf.len() taken AT THAT MOMENT - after the ACK frame that may precede it - so that frame plus everything before it fits the packet; that the encoders respect max_len is the Kani obligation frame_close_encode_budget; the unreachable!() formatting path is outside the claim",
  replay=("conn_close_budget_native", lambda m: [dict(reason_len=4000, acks=1, code=7), dict(reason_len=4000, acks=0, code=7), dict(reason_len=16, acks=1, code=7), dict(reason_len=4000, acks=1, code=1 << 40)]))


# ------------------------------------------------------------------ C09 / C08: the endpoint's per-connection CID table starts consistent (sequence numbers 0.. without gaps or reuse)
def ac_post(c, p):
    st = p.p.state
    if p.p.outcome != "stop":
        return "true"
    ins = p.called(r"HashMap.*::insert$")
    slab = p.called(r"Slab.*::insert(_at)?$")
    if not ins or len(slab) != 1 or slab[0][1][-1][0] != "agg":
        return "false"
    meta = _k(slab[0][1][-1][1])
    snap = _Snap(st, slab[0][3])
    issued = c.ex.read_key(snap, meta + ".%d" % c.field("endpoint.rs", "ConnectionMeta", "cids_issued"), BV64).t
    out = [eq(issued, bv(len(ins)))]                 # the next sequence number to hand out is the number of CIDs recorded
    for i, x in enumerate(ins):
        if x[1][1][0] != "val" or x[1][0] != ins[0][1][0]:
            return "false"
        out.append(eq(x[1][1][1].t, bv(i)))          # recorded under sequence numbers 0, 1, .. in order
    return and_(*out)


Q(name="e2_endpoint_add_connection_cids_slice", props=["C09", "C08"], func=r"endpoint\.rs[^>]*>::add_connection$",
  src="endpoint.rs", within=r"^    fn add_connection\(", start_line=[r"let mut cids_issued = 0;", r"(?#before)let mut loc_cids = FxHashMap::default\(\);"],
  end_line=[r"self\.index\.insert_conn\(addresses, loc_cid, ch, side\);"],
  allowed_panics=r".", check_stop=True,
  functions=["Endpoint::add_connection (slice: from the creation of the CID table to the insertion of the ConnectionMeta)"], pre=lambda c: "true", post=ac_post,
  bounds="with or without a preferred-address CID: the CIDs known at creation are recorded under sequence numbers 0, 1, .. and the ConnectionMeta stored in the slab has cids_issued equal to their number - so the first identifier issued later (send_new_identifiers) cannot reuse a sequence number and overwrite a recorded CID, which would then never be un-routed",
  replay=("endpoint_add_connection_cids_native", lambda m: [dict(pref=0), dict(pref=1)]))


# ------------------------------------------------------------------ C09 / C08: a drained connection's reset token is un-registered under the address it was registered with
def cir_post(c, p):
    st = p.p.state
    if p.p.outcome != "return":
        return "true"
    rt = "*_2.%d" % c.field("endpoint.rs", "ConnectionMeta", "reset_token")
    rm = p.called(r"ResetTokenTable::remove$")
    had = eq(c.inp(rt + "#discr", I64), bv(1))
    if not rm:
        return not_(had)
    a = rm[0][1]
    table = "*_1.%d" % c.field("endpoint.rs", "ConnectionIndex", "connection_reset_tokens")
    if len(rm) != 1 or a[0] != ("ref", table) or a[1] != ("agg", rt + "@Some.0.0") or a[2] != ("agg", rt + "@Some.0.1"):
        return "false"
    return had


Q(name="e2_connection_index_remove_reset_token_slice", props=["C09", "C08"], func=r"endpoint\.rs[^>]*>::remove\(_1: &mut ConnectionIndex",
  src="endpoint.rs", within=r"^    fn remove\(&mut self, conn: &ConnectionMeta\)", start_line=[r"if let Some\(\(remote, token\)\) = conn\.reset_token \{", r"(?#after)\.remove\(&conn\.addresses\.remote\);"],
  allowed_panics=r".", check_stop=True,
  functions=["ConnectionIndex::remove (slice: the reset-token part, after the loop over the local CIDs)"], pre=lambda c: "true", post=cir_post,
  bounds="every ConnectionMeta: when the connection has a reset token registered, exactly the stored (address, token) pair - the address it was registered under, which after a migration is not the connection's original address - is removed from the reset-token table; nothing is removed otherwise",
  replay=("endpoint_reset_token_event_native", lambda m: [dict(same_addr=0), dict(same_addr=1)]))


# ------------------------------------------------------------------ C16: DatagramsUnblocked is emitted when a blocked sender's queue was (partly) sent in this packet - whichever iteration sent it (slice)
def dl_post(c, p):
    st = p.p.state
    if p.p.outcome != "stop":
        return "true"
    flag = c.fn.debug["sent_datagrams"][0]
    sent_before = c.inp(flag, BOOL)                      # what earlier iterations of the loop established
    wr = p.called(r"DatagramState::write$")
    if len(wr) > 1:
        return "false"
    wrote = c.ex.read_key(st, wr[0][2], BOOL).t if wr else "false"
    sent = or_(sent_before, wrote)
    if "loop back-edge" in str(p.p.detail):
        # another iteration follows: the flag carries what happened so far
        return eq(c.ex.read_key(st, flag, BOOL).t, sent)
    blocked_key = "*_1.%d.%d" % (c.field("connection/mod.rs", "Connection", "datagrams"), c.field("connection/datagrams.rs", "DatagramState", "send_blocked"))
    ev = [x for x in p.called(r"VecDeque.*::push_back") if x[1][0][0] == "ref" and str(x[1][0][1]).endswith(".%d" % c.field("connection/mod.rs", "Connection", "events"))]
    if len(ev) > 1:
        return "false"
    if ev:
        snap = _Snap(st, ev[0][3])
        was_blocked = c.ex.read_key(snap, blocked_key, BOOL).t
        return and_(was_blocked, sent, not_(c.ex.read_key(st, blocked_key, BOOL).t))
    return not_(and_(c.ex.read_key(st, blocked_key, BOOL).t, sent))


Q(name="e2_populate_packet_datagram_loop_slice", props=["C16"], func=r"connection/mod\.rs:\d+:1: \d+:16>::populate_packet$",
  src="connection/mod.rs", within=r"^    fn populate_packet\(", start_line=[r"while buf\.len\(\) \+ Datagram::SIZE_BOUND < max_size && space_id == SpaceId::Data \{", r"(?#after)let mut sent_datagrams = false;"],
  end_line=[r"while let Some\(remote_addr\) = space\.pending\.new_tokens\.pop\(\) \{"],
  allowed_panics=r".", check_stop=True, loop_is_stop=True,
  functions=["Connection::populate_packet (slice: one iteration of the DATAGRAM loop and the unblocking that follows it)"], pre=lambda c: "true", post=dl_post,
  bounds="one iteration of the DATAGRAM loop from an ARBITRARY state, `sent_datagrams` included (so: after any number of earlier iterations), plus the code after the loop: the flag that goes into the next iteration is `a datagram was written in this packet so far`, and when the loop ends - because the packet is full or because the next datagram does not fit - Event::DatagramsUnblocked is queued (and send_blocked cleared) exactly when the sender was blocked and at least one datagram went into this packet; DatagramState::write opaque (e2_dgram_write)",
  replay=("conn_datagram_unblock_native", lambda m: [dict(n=1), dict(n=3)]))


# ------------------------------------------------------------------ C08 / C12: the closing packet is not held back by congestion control or pacing (slice)
def cg_post(c, p):
    st = p.p.state
    if p.p.outcome not in ("stop", "return"):
        return "true"
    dbg = c.fn.debug
    try:
        close, blocked = dbg["close"][0], dbg["congestion_blocked"][0]
    except (KeyError, IndexError):
        return "false"
    # leaving through the congestion or pacing exit sets `congestion_blocked`; with a close to announce that must not happen
    set_here = and_(c.ex.read_key(st, blocked, BOOL).t, not_(c.inp(blocked, BOOL)))
    return or_(not_(c.inp(close, BOOL)), not_(set_here))


Q(name="e2_poll_transmit_close_not_congestion_blocked_slice", props=["C08", "C12"], func=r"connection/mod\.rs:\d+:1: \d+:16>::poll_transmit$",
  src="connection/mod.rs", within=r"^    pub fn poll_transmit\(", start_line=[r"if num_datagrams >= max_datagrams \{", r"(?#after)// We need to send 1 more datagram and extend the buffer for that\.$"], end_line=[r"if let Some\(mut builder\) = builder_storage\.take\(\) \{", r"(?#loophead)while space_idx < spaces\.len\(\) \{", r"if let Some\(mut builder\) = builder_storage \{"],
  pure=[r"anti_amplification_blocked$", r"Controller>::window$", r"Index<SpaceId>>::index$", r"RttEstimator::get$", r"current_mtu$"],
  check_stop=True, allowed_panics=r".", ignore_untranslatable=r"^loop at",
  functions=["Connection::poll_transmit (slice: the checks between 'one more datagram is needed' and starting it)"],
  pre=lambda c: and_(ule(c.inp(c.fn.debug["segment_size"][0], BV64), bv(65535)), ule(c.inp(c.fn.debug["num_datagrams"][0], BV64), bv(1 << 20))), post=cg_post, timeout=600,
  bounds="the same slice as e2_poll_transmit_new_datagram_gate_slice, from an arbitrary state: when a close is to be announced (`close` true) the slice is never left through the congestion-window or pacing exit (the two places that set `congestion_blocked`), whatever is queued besides - only the datagram limit of the call and anti-amplification may stop the closing packet",
  replay=("conn_close_under_congestion_native", lambda m: [dict(queued=1), dict(queued=0)]))


# ------------------------------------------------------------------ C08: a connection closed by its very first packet gets its drain timer like any other
def fpc_post(c, p):
    st = p.p.state
    if p.p.outcome != "return":
        return "true"
    calls = st.calls
    pd = [i for i, x in enumerate(calls) if re.search(r"Connection::process_decrypted_packet$", x[0])]
    if len(pd) != 1:
        return "true"
    after = calls[pd[0] + 1:]
    # the connection state as the first packet left it: the store right before whatever is called next
    snap = _Snap(st, after[0][3]) if after and after[0][3] is not None else st
    sd = c.ex.read_key(snap, _conn(c, "state") + "#discr", I64).t
    E = c.ex.enums["State"].index if "State" in c.ex.enums else c.ex.enums["connection::State"].index
    closed_after = or_(eq(sd, bv(E("Closed"))), eq(sd, bv(E("Draining"))), eq(sd, bv(E("Drained"))))
    handled = [x for x in after if re.search(r"Connection::set_close_timer$|Connection::close_common$", x[0])]
    common = any(re.search(r"close_common$", x[0]) for x in handled)
    timer = any(re.search(r"set_close_timer$", x[0]) for x in handled)
    if common and timer:
        return "true"
    pdres = calls[pd[0]][2]
    went_on = eq(c.ex.read_key(st, pdres + "#discr", I64).t, bv(0)) if not str(pdres).startswith("|") else "true"
    if common:
        # timers stopped but no drain timer armed: only right for a connection that is already drained
        return or_(not_(went_on), not_(closed_after), eq(sd, bv(E("Drained"))))
    # nothing was done on this path: then the first packet must not have closed the connection
    return or_(not_(went_on), not_(closed_after))


Q(name="e2_first_packet_close_gets_drain_timer", props=["C08"], func=r"connection/mod\.rs:\d+:1: \d+:16>::handle_first_packet$",
  inline=[r"State::is_closed$", r"State::is_drained$"], allowed_panics=r".", ignore_untranslatable=r"fmt::rt::Argument|Transmute",
  modifies=lambda c: {r"Connection::close_common$": ["*_1.%d" % c.field("connection/mod.rs", "Connection", "timers")]},      # close_common stops timers and nothing else
  functions=["Connection::handle_first_packet"], pre=lambda c: eq(c.inp("*_1.%d#discr" % c.field("connection/mod.rs", "Connection", "state"), I64), bv(0)), post=fpc_post,
  bounds="every outcome of processing the connection-creating Initial (process_decrypted_packet opaque: it may leave the connection in any state): when it succeeds and leaves the connection closed - the packet carried CONNECTION_CLOSE - close_common and set_close_timer run, as they do for every later packet in handle_packet, so that the connection drains within three probe timeouts instead of waiting for the idle timer",
  replay=("conn_first_packet_close_native", lambda m: [dict(x=0)]))


# ------------------------------------------------------------------ C09: a CID that Endpoint::connect put into the routing table belongs to a connection afterwards - or is taken out again
def ecn_post(c, p):
    st = p.p.state
    if p.p.outcome != "return":
        return "true"
    nc = p.called(r"Endpoint::new_cid$")
    if not nc:
        return "true"
    if len(nc) != 1:
        return "false"
    cid = nc[0][2]
    ac = p.called(r"Endpoint::add_connection$")
    rt = p.called(r"ConnectionIndex::retire$")
    if ac:
        # recorded as the connection's first local CID
        return "true" if (len(ac) == 1 and ("agg", cid) in ac[0][1]) else "false"
    return "true" if (len(rt) == 1 and rt[0][1][1] == ("agg", cid)) else "false"


Q(name="e2_endpoint_connect_cid_leak", props=["C09"], func=r"endpoint\.rs[^>]*>::connect$",
  allowed_panics=r".", ignore_untranslatable=r".",
  functions=["Endpoint::connect"], pre=lambda c: "true", post=ecn_post,
  bounds="every way out of Endpoint::connect after a local CID was generated (new_cid routes it to the handle the connection WOULD get): the CID is either handed to add_connection as the new connection's CID or retired from the routing table - in particular when the TLS session cannot be started (invalid server name); otherwise it would route datagrams to whichever connection is given that handle next; callees opaque",
  replay=("endpoint_connect_failure_native", lambda m: [dict(x=0)]))


# ------------------------------------------------------------------ C01: a lost STREAM frame is scheduled again without forgetting a FIN that is still owed
def rtx_post(c, p):
    st = p.p.state
    if p.p.outcome != "return":
        return "true"
    gm = p.called(r"HashMap.*::get_mut$")
    rt = p.called(r"SendBuffer::retransmit$")
    pp = p.called(r"PendingStreamsQueue::push_pending$")
    if len(gm) != 1:
        return "false"
    if not rt:
        return "false" if pp else "true"              # stream gone: nothing to do
    base = "**%s@Some.0@Some.0.0.0" % gm[0][2]        # &mut Option<Box<Send>> -> Send
    fld = lambda n: base + ".%d" % c.field("connection/streams/send.rs", "Send", n)
    fin_meta = "_2.%d" % c.field("frame.rs", "StreamMeta", "fin")
    off_meta = "_2.%d" % c.field("frame.rs", "StreamMeta", "offsets")
    if len(rt) != 1 or rt[0][1][0] != ("ref", fld("pending")) or rt[0][1][1] != ("agg", off_meta) or len(pp) > 1:
        return "false"
    fin0, fin1 = c.inp(fld("fin_pending"), BOOL), c.ex.read_key(st, fld("fin_pending"), BOOL).t
    sb = lambda n: fld("pending") + ".%d" % c.field("connection/send_buffer.rs", "SendBuffer", n)
    empties = p.called(r"RangeSet::is_empty$")
    was_pending = or_(not_(eq(c.inp(sb("unsent"), BV64), c.inp(sb("offset"), BV64))), fin0, *[not_(c.ex.read_key(st, x[2], BOOL).t) for x in empties])
    # the FIN stays owed if it was, and becomes owed if the lost frame carried it; the stream is queued for sending
    return and_(eq(fin1, or_(fin0, c.inp(fin_meta, BOOL))), "true" if pp else was_pending)


Q(name="e2_streams_retransmit", props=["C01"], func=r"streams/state\.rs:\d+:1: \d+:18>::retransmit$",
  allowed_panics=r"xxx", inline=[r"Send::is_pending$", r"has_unsent_data$"],
  functions=["StreamsState::retransmit", "Send::is_pending"], pre=lambda c: "true", post=rtx_post,
  bounds="every lost STREAM frame (any offsets, with or without FIN) against every state of the stream: the frame's offsets are handed to SendBuffer::retransmit of THAT stream, `fin_pending` afterwards is `was pending before OR the lost frame carried the FIN` (a lost data frame never cancels a FIN that is still owed), and the stream is in the pending queue; a stream that is gone is ignored",
  replay=("streams_retransmit_fin_native", lambda m: [dict(mode=0), dict(mode=1)]))


# ------------------------------------------------------------------ C05: every chunk Send::write accepts is charged against the remaining budget (one loop iteration, slice)
def sw_post(c, p):
    st = p.p.state
    if p.p.outcome != "stop" or "loop back-edge" not in str(p.p.detail):
        return "true"
    lim = c.fn.debug["limit"][-1]                       # the mutable usize copy of min(limit, budget)
    res = c.fn.debug["result"][0]
    bytes_f = c.field("connection/streams/send.rs", "Written", "bytes")
    pc = p.called(r"BytesSource>::pop_chunk$")
    wr = p.called(r"SendBuffer::write$")
    if len(pc) != 1 or len(wr) != 1 or pc[0][1][1][0] != "val" or wr[0][1][1] != ("agg", pc[0][2] + ".0"):
        return "false"
    lim0, lim1 = c.inp(lim, BV64), c.ex.read_key(st, lim, BV64).t
    b0, b1 = c.inp("%s.%d" % (res, bytes_f), BV64), c.ex.read_key(st, "%s.%d" % (res, bytes_f), BV64).t
    # the source is offered exactly what is left, and what it handed over is no longer left
    return and_(eq(pc[0][1][1][1].t, lim0), eq("(bvadd %s %s)" % (lim1, b1), "(bvadd %s %s)" % (lim0, b0)))


Q(name="e2_send_write_loop_iteration", props=["C05"], func=r"streams/send\.rs:\d+:1: \d+:10>::write$",
  src="connection/streams/send.rs", within=r"pub\(super\) fn write<S: BytesSource>\(", start_line=[r"let \(chunk, chunks_consumed\) = source\.pop_chunk\(limit\);", r"(?#after)^        loop \{$"],
  allowed_panics=r".", check_stop=True, loop_is_stop=True,
  functions=["Send::write (slice: one iteration of the chunk loop, generic over the BytesSource)"], pre=lambda c: "true", post=sw_post,
  bounds="one iteration of the loop that moves chunks from the application into the send buffer, from an ARBITRARY state (any remaining budget, any amount already accepted): the source is asked for at most the remaining budget, the chunk it returns goes into the send buffer, and remaining budget + bytes accepted is the same before and after - by induction the total accepted never exceeds min(limit, max_data - offset) however many chunks a vectored write brings; BytesSource::pop_chunk opaque (it returns at most what it was asked for: its contract)",
  replay=("send_write_chunks_native", lambda m: [dict(credit=10, chunk=6, n=3), dict(credit=12, chunk=6, n=3), dict(credit=5, chunk=6, n=1), dict(credit=0, chunk=6, n=1)]))


# ------------------------------------------------------------------ C08: before negotiation, a configured idle timeout of 0 means "no idle timeout" (RFC 9000 18.2), not "time out at once"
def cnw_post(c, p):
    st = p.p.state
    if p.p.outcome != "return":
        return "true"
    it = "_0.%d" % c.field("connection/mod.rs", "Connection", "idle_timeout")
    K = "*_2.0.2.%d" % c.field("config/transport.rs", "TransportConfig", "max_idle_timeout")     # Arc<TransportConfig> -> ArcInner.data
    got = eq(c.ex.read_key(st, it + "#discr", I64).t, bv(1))
    ms = c.inp(K + "@Some.0.0", BV64)
    want = and_(eq(c.inp(K + "#discr", I64), bv(1)), not_(eq(ms, bv(0))))
    secs = c.ex.read_key(st, it + "@Some.0.0", BV64).t
    nanos = c.ex.read_key(st, it + "@Some.0.1.0", ("bv", 32, False)).t
    exact = and_(eq(secs, "(bvudiv %s (_ bv1000 64))" % ms), eq(nanos, "(bvmul ((_ extract 31 0) (bvurem %s (_ bv1000 64))) (_ bv1000000 32))" % ms))
    return and_(eq(got, want), or_(not_(got), exact))


Q(name="e2_connection_new_idle_timeout", props=["C08"], func=r"connection/mod\.rs:\d+:1: \d+:16>::new$",
  allowed_panics=r".", max_paths=3000,
  pre=lambda c: ule(c.inp("*_2.0.2.%d#discr" % c.field("config/transport.rs", "TransportConfig", "max_idle_timeout"), I64), bv(1)),
  functions=["Connection::new (Duration::from_millis inlined)"], post=cnw_post,
  bounds="every configuration value: the idle timeout a new connection starts with (in force until the peer's transport parameters arrive) is None when max_idle_timeout is unset OR zero, and exactly the configured number of milliseconds otherwise - a zero must never arm an immediate idle timer that the later negotiation (None) does not stop; every other field of the constructor is outside the claim",
  replay=("conn_new_idle_timeout_native", lambda m: [dict(ms=0), dict(ms=1), dict(ms=30000)]))


# ------------------------------------------------------------------ C11 / C06: a read that is refused leaves the stream where it was
def chn_post(c, p):
    st = p.p.state
    if p.p.outcome != "return":
        return "true"
    err = eq(c.ex.read_key(st, "_0#discr", I64).t, bv(1))
    rm = p.called(r"RawTable.*::remove$|OccupiedEntry.*::remove$|remove_entry$")
    if len(rm) > 1:
        return "false"
    # taking the stream's state out of the map is the point of no return: whoever does it hands the state on (Ok)
    return not_(err) if rm else err


Q(name="e2_chunks_new_keeps_stream_on_error", props=["C11", "C06"], func=r"streams/recv\.rs:\d+:1: \d+:20>::new\(_1: StreamId",
  allowed_panics=r"unwrap_failed|called `Option::unwrap",
  functions=["Chunks::new (HashMap entry / remove inlined from hashbrown)"], pre=lambda c: "true", post=chn_post,
  bounds="every state of the receive map and of the stream, every verdict of Assembler::ensure_ordering: the stream's receive state is taken out of the map only on the path that returns Ok (it travels inside the Chunks and is put back or freed by finalize); every refusal - unknown stream, stopped stream, an ordered read after unordered ones - leaves the map as it was, so the stream can still be read, stopped, credited and eventually freed",
  replay=("streams_illegal_ordered_read_native", lambda m: [dict(x=0)]))


# ------------------------------------------------------------------ C03 / C06 / C16: the datagram receive queue is bounded in bytes AND in elements; the oldest go first, only when needed
def dr_post(c, p):
    st = p.p.state
    DS = lambda n: "*_1.%d" % c.field("connection/datagrams.rs", "DatagramState", n)
    n = c.inp("_2.0.1", BV64)                                   # Datagram { data: Bytes { ptr, len, .. } }
    has_window = eq(c.inp("*_3#discr", I64), bv(1))
    window = c.inp("*_3@Some.0", BV64)
    push = [x for x in p.called(r"VecDeque.*::push_back") if x[1][0] == ("ref", DS("incoming"))]
    drops = p.called(r"DatagramState::recv$")
    if p.p.outcome == "stop":
        # one more of the oldest is dropped - only because the bytes or the number of queued datagrams exceed the window
        if len(drops) != 1 or push:
            return "false"
        snap = _Snap(st, drops[0][3])
        over_bytes = "(bvugt (bvadd %s %s) %s)" % (n, c.ex.read_key(snap, DS("recv_buffered"), BV64).t, window)
        over_count = "(bvugt %s %s)" % (c.ex.read_key(snap, DS("incoming") + ".1", BV64).t, window)      # VecDeque { head, len, buf }
        return and_(has_window, ule(n, window), or_(over_bytes, over_count))
    if p.p.outcome != "return":
        return "true"
    err = eq(c.ex.read_key(st, "_0#discr", I64).t, bv(1))
    if not push:
        return "false" if drops else and_(err, or_(not_(has_window), "(bvugt %s %s)" % (n, window)))
    if len(push) != 1 or drops or push[0][1][1] != ("agg", "_2"):
        return "false"
    snap = _Snap(st, push[0][3])
    queued = c.ex.read_key(snap, DS("incoming") + ".1", BV64).t
    buffered = c.ex.read_key(snap, DS("recv_buffered"), BV64).t
    # room for the new one in both respects, and it is accounted with its own length
    return and_(not_(err), has_window, ule(queued, window), ule(buffered, window), ule("(bvadd %s %s)" % (c.inp(DS("recv_buffered"), BV64), n), window),
                eq(buffered, "(bvadd %s %s)" % (c.inp(DS("recv_buffered"), BV64), n)))


Q(name="e2_dgram_received_bounds", props=["C03", "C06", "C16"], func=r"datagrams\.rs:\d+:1: \d+:19>::received$",
  allowed_panics=r"attempt to compute|handle_error|capacity_overflow|alloc", check_stop=True, loop_is_stop=True,
  functions=["DatagramState::received (one iteration of each of its drop loops)"], pre=lambda c: "true", post=dr_post,
  bounds="from an ARBITRARY queue state (any number of queued datagrams and buffered bytes): a datagram is refused exactly when receiving is disabled or it is larger than the window; it is appended only when, at that moment, buffered bytes + its length <= window AND the number of queued datagrams <= window (so the queue never holds more than window + 1 elements - datagrams without payload included - and never more than window bytes); each loop iteration drops exactly one datagram through recv() (oldest first) and only while one of the two bounds is exceeded; VecDeque::len read as the deque's length field",
  replay=("dgram_received_count_native", lambda m: [dict(window=0, n=5), dict(window=2, n=50), dict(window=100, n=500)]))


# ------------------------------------------------------------------ C04: a packet can only hurt the connection after it has authenticated
def dpa_post(c, p):
    st = p.p.state
    if p.p.outcome != "return":
        return "true"
    dec = p.called(r"PacketKey>::decrypt$")
    fatal = and_(eq(c.ex.read_key(st, "_0#discr", I64).t, bv(1)), eq(c.ex.read_key(st, "_0@Err.0#discr", I64).t, bv(1)))   # Err(Some(transport error))
    accepted = and_(eq(c.ex.read_key(st, "_0#discr", I64).t, bv(0)), eq(c.ex.read_key(st, "_0@Ok.0#discr", I64).t, bv(1)))
    if not dec:
        # nothing was authenticated on this path: the packet is dropped silently (Err(None)) or was not protected at all (Ok(None))
        return and_(not_(fatal), not_(accepted))
    if len(dec) != 1:
        return "false"
    authentic = eq(c.ex.read_key(st, dec[0][2] + "#discr", I64).t, bv(0))
    return or_(authentic, and_(not_(fatal), not_(accepted)))


Q(name="e2_decrypt_packet_body_authentic_first", props=["C04", "C03"], func=r"^decrypt_packet_body$",
  pure=[r"Header::space$", r"Header::number$", r"PacketNumber::expand$", r"key_phase$", r"is_0rtt$", r"is_protected$", r"reserved_bits_valid$", r"Index<SpaceId>>::index$"],
  allowed_panics=r"attempt to|unwrap_failed|handle_error|capacity_overflow",
  functions=["packet_crypto::decrypt_packet_body"], pre=dpb_pre, post=dpa_post,
  bounds="every header and key state, every verdict of the AEAD (opaque): a connection-fatal transport error (reserved bits, illegal key update) and an accepted packet number are returned only on paths on which PacketKey::decrypt was called and succeeded - a forged or corrupted packet is dropped without effect, whatever its header bits say",
  replay=("conn_unauthentic_packet_inert_native", lambda m: [dict(first=0x48), dict(first=0x50), dict(first=0x58), dict(first=0x40)]))


# ------------------------------------------------------------------ C03: no peer-reported ack delay makes the RTT estimator panic (Duration arithmetic panics on underflow in every build profile)
def _dur(c, st, k):
    return c.ex.read_key(st, k + ".0", BV64).t, c.ex.read_key(st, k + ".1.0", ("bv", 32, False)).t


def _dge(a, b):
    return or_("(bvugt %s %s)" % (a[0], b[0]), and_(eq(a[0], b[0]), "(bvuge %s %s)" % (a[1], b[1])))


def ru_assume(c, p):
    st = p.p.state
    out = ["true"]
    small = lambda d: "(bvult %s (_ bv1125899906842624 64))" % d[0]          # < 2^50 s
    # fields of `self` as they were at the time of the call (still input values then), locals / call results as they are
    rd = lambda snap, k: _dur(c, snap if k.startswith("*") else st, k)
    for x in st.calls:
        if re.search(r"<Duration as Ord>::(min|max)$", x[0]) and x[1][0][0] == "agg" and x[1][1][0] == "agg":
            snap = _Snap(st, x[3]) if x[3] is not None else st
            a, b, r = rd(snap, _k(x[1][0][1])), rd(snap, _k(x[1][1][1])), _dur(c, st, x[2])
            lo = x[0].endswith("min")
            out += [or_(and_(eq(r[0], a[0]), eq(r[1], a[1])), and_(eq(r[0], b[0]), eq(r[1], b[1]))), _dge(a, r) if lo else _dge(r, a), _dge(b, r) if lo else _dge(r, b)]
            continue
        m = re.search(r"Duration::checked_(sub|add|mul|div)$", x[0])
        if not m or x[1][0][0] != "agg":
            continue
        snap = _Snap(st, x[3]) if x[3] is not None else st
        a = rd(snap, _k(x[1][0][1]))
        r = x[2]
        some = eq(c.ex.read_key(st, r + "#discr", I64).t, bv(1))
        rv = _dur(c, st, r + "@Some.0")
        nanos_ok = "(bvult %s (_ bv1000000000 32))" % rv[1]
        if m.group(1) == "sub":
            b = rd(snap, _k(x[1][1][1]))
            out += [eq(some, _dge(a, b)), or_(not_(some), and_(_dge(a, rv), nanos_ok))]
        elif m.group(1) == "add":
            b = rd(snap, _k(x[1][1][1]))
            out += [or_(not_(and_(small(a), small(b))), some), or_(not_(some), and_(_dge(rv, a), _dge(rv, b), nanos_ok, "(bvule %s (bvadd %s %s (_ bv1 64)))" % (rv[0], a[0], b[0])))]
        elif m.group(1) == "mul":
            out += [or_(not_(small(a)), some), or_(not_(some), and_(nanos_ok, "(bvule %s (bvadd (bvmul %s (_ bv8 64)) (_ bv8 64)))" % (rv[0], a[0])))]
        else:
            out += [some, _dge(a, rv), nanos_ok]
    return and_(*out)


def ru_pre(c):
    lim = lambda k: and_("(bvult %s (_ bv4294967296 64))" % c.inp(k + ".0", BV64), "(bvult %s (_ bv1000000000 32))" % c.inp(k + ".1.0", ("bv", 32, False)))
    f = lambda n: "*_1.%d" % c.field("connection/paths.rs", "RttEstimator", n)
    return and_(lim("_2"), lim("_3"), lim(f("latest")), lim(f("var")), lim(f("min")), lim(f("smoothed") + "@Some.0"), ule(c.inp(f("smoothed") + "#discr", I64), bv(1)))


Q(name="e2_rtt_update_no_underflow", props=["C03"], func=r"paths\.rs:\d+:1: \d+:18>::update$",
  allowed_panics=r"^$", assume=ru_assume,
  functions=["RttEstimator::update (Duration +, -, *, /, abs_diff inlined down to Duration::checked_*)"], pre=ru_pre, post=lambda c, p: "true",
  bounds="every estimator state, sample and (peer-reported) ack delay below 2^32 s: no path panics - in particular every Duration subtraction is guarded so that it cannot underflow; Duration::min and Duration::checked_{add,sub,mul,div} are opaque with their arithmetic contracts (sub is Some exactly when a >= b and then <= a; add / mul are Some for operands below 2^50 s and bounded; div by a non-zero constant is Some and <= a)",
  replay=("path_rtt_update_native", lambda m: [dict(latest_ms=100, has_smoothed=1, smoothed_ms=100, var_ms=10, min_ms=50, ack_delay_ms=500, rtt_ms=80), dict(latest_ms=100, has_smoothed=1, smoothed_ms=100, var_ms=10, min_ms=50, ack_delay_ms=10, rtt_ms=80), dict(latest_ms=1, has_smoothed=1, smoothed_ms=1, var_ms=0, min_ms=1, ack_delay_ms=16383, rtt_ms=1), dict(latest_ms=5, has_smoothed=0, smoothed_ms=0, var_ms=0, min_ms=5, ack_delay_ms=9, rtt_ms=7)]))


# ------------------------------------------------------------------ C11: SendStream::reset is refused exactly for a stream that is gone or already reset
def rsl_post(c, p):
    st = p.p.state
    if p.p.outcome != "return":
        return "true"
    err = eq(c.ex.read_key(st, "_0#discr", I64).t, bv(1))
    rs = p.called(r"Send::reset$")
    sf = c.field("connection/streams/send.rs", "Send", "state")
    keys = sorted(set(re.findall(r"\|((?:in|call)[^|]*\.%d#discr)\|" % sf, " ".join(st.conds))))
    reset_sent = bv(c.ex.enums["SendState"].index("ResetSent"))
    if rs:
        # the reset goes ahead: RESET_STREAM is queued, success is reported, and the stream was not reset before
        q = p.called(r"Vec.*::push")
        if len(rs) != 1 or not q:
            return "false"
        return and_(not_(err), *[not_(eq("|%s|" % k, reset_sent)) for k in keys])
    # refused: only because the stream is unknown (no state was looked at) or already in ResetSent
    if not keys:
        return err
    return and_(err, or_(*[eq("|%s|" % k, reset_sent) for k in keys]))


Q(name="e2_sendstream_reset_legality", props=["C11"], func=r"streams/mod\.rs:\d+:1: \d+:24>::reset$",
  pure=[r"max_send_data", r"SendBuffer::unacked", r"get_mut", r"call_once"],
  functions=["SendStream::reset"], pre=lambda c: "true", post=rsl_post, allowed_panics=r"attempt to compute",
  bounds="every state of the send map and of the stream: reset() reports ClosedStream exactly when the stream is not in the map any more or is already in ResetSent; in every other state - in particular DataSent with the FIN acknowledged but data still outstanding - it resets the stream, queues RESET_STREAM and reports success; map lookup, Send::reset, Vec::push opaque",
  replay=("streams_reset_after_fin_acked_native", lambda m: [dict(x=0)]))


# ------------------------------------------------------------------ C03 / C12: the bookkeeping of un-ackable packets stays consistent (bounded tracking, no underflow on the ACK that covers them)
def pss_post(c, p):
    st = p.p.state
    if p.p.outcome != "return":
        return "true"
    F = lambda n: "*_1.%d" % c.field("connection/spaces.rs", "PacketSpace", n)
    tail0, tail1 = c.inp(F("unacked_non_ack_eliciting_tail"), BV64), c.ex.read_key(st, F("unacked_non_ack_eliciting_tail"), BV64).t
    eliciting = c.inp("_3.%d" % c.field("connection/spaces.rs", "SentPacket", "ack_eliciting"), BOOL)
    ins = p.called(r"SentPackets::insert$")
    rem = p.called(r"SentPackets::remove$")
    other = [x for x in st.calls if re.search(r"PacketSpace::", x[0])]
    if len(ins) != 1 or len(rem) > 1 or other:
        return "false"
    # the counter is the number of tracked non-ack-eliciting packets above the last ack-eliciting one:
    #   an ack-eliciting packet restarts it; a non-eliciting one adds 1; forgetting the oldest of them takes 1 away
    want = ite(eliciting, bv(0), "(bvsub (bvadd %s (_ bv1 64)) %s)" % (tail0, bv(1) if rem else bv(0)))
    return and_(eq(tail1, want), or_(not_(eliciting), eq(c.ex.read_key(st, F("largest_ack_eliciting_sent"), BV64).t, c.inp("_2", BV64))))


# ------------------------------------------------------------------ C05: SendBuffer::unacked leaves out what was acknowledged behind a hole
def sbu_post(c, p):
    st = p.p.state
    if p.p.outcome != "return":
        return "true"
    it = [x for x in st.calls if re.search(r"RangeSet::iter$", x[0])]
    fold = [x for x in st.calls if re.search(r"Iterator>::(fold|sum)\b", x[0])]
    if len(it) != 1 or len(fold) != 1:
        return "false"
    acks = "*_1.%d" % c.field("connection/send_buffer.rs", "SendBuffer", "acks")
    if not (it[0][1][0][0] == "ref" and str(_k(it[0][1][0][1])) == acks):
        return "false"
    total = fold[0][2] if str(fold[0][2]).startswith("|") else c.ex.read_key(st, fold[0][2], BV64).t
    ul = c.inp("*_1.%d" % c.field("connection/send_buffer.rs", "SendBuffer", "unacked_len"), BV64)
    return eq(c.ex.read_key(st, "_0", BV64).t, "(bvsub %s %s)" % (ul, total))


Q(name="e2_sendbuf_unacked_subtracts_acked", props=["C05", "C01"], func=r"send_buffer\.rs:\d+:1: \d+:16>::unacked$",
  allowed_panics=r"attempt to compute", ignore_untranslatable=r".",
  functions=["SendBuffer::unacked"], pre=lambda c: "true", post=sbu_post,
  bounds="every buffer state, the fold over the set of acknowledged ranges opaque (its per-range term is e2_sendbuf_unacked_range_term): the amount reported as unacknowledged is the buffered length MINUS the total of the ranges acknowledged behind a hole - SendStream::reset and the Finished / Stopped paths give exactly this amount back to the connection's send window, which received_ack_of has already credited for those ranges, so leaving the subtraction out lets later writes exceed send_window",
  replay=("sendbuf_unacked_native", lambda m: [dict(x=0)]))


def sbut_post(c, p):
    st = p.p.state
    if p.p.outcome != "return":
        return "true"
    return eq(c.ex.read_key(st, "_0", BV64).t, "(bvsub %s %s)" % (c.inp("_2.1", BV64), c.inp("_2.0", BV64)))


Q(name="e2_sendbuf_unacked_range_term", props=["C05", "C01"], func=r"send_buffer\.rs:\d+:1: \d+:16>::unacked::\{closure#0\}$",
  allowed_panics=r"attempt to compute", ignore_untranslatable=r".",
  functions=["SendBuffer::unacked::{closure#0}"], pre=lambda c: "true", post=sbut_post,
  bounds="every range: the term summed per acknowledged range is its length, end - start",
  replay=("sendbuf_unacked_native", lambda m: [dict(x=0)]))


# ------------------------------------------------------------------ C16 / C13: the predicted 1-RTT overhead counts the REMOTE connection ID that short headers carry
def p1o_post(c, p):
    st = p.p.state
    if p.p.outcome != "return":
        return "true"
    act = [x for x in st.calls if re.search(r"CidQueue::active$", x[0])]
    der = [x for x in st.calls if re.search(r"ConnectionId as (std::ops::)?Deref>::deref$", x[0])]
    tag = [x for x in st.calls if re.search(r"Connection::tag_len_1rtt$", x[0])]
    if len(act) != 1 or len(der) != 1 or len(tag) != 1:
        return "false"
    rem = "*_1.%d" % c.field("connection/mod.rs", "Connection", "rem_cids")
    if not (act[0][1][0][0] == "ref" and str(_k(act[0][1][0][1])) == rem):
        return "false"
    if not (der[0][1][0][0] == "ref" and str(_k(der[0][1][0][1])) == str(act[0][2])):
        return "false"
    ln = st.ptrmeta.get(str(der[0][2]))
    if ln is None:
        return "false"
    pnl = [x for x in st.calls if re.search(r"PacketNumber::len$", x[0])]
    pn_len = bv(4) if not pnl else (pnl[0][2] if str(pnl[0][2]).startswith("|") else c.ex.read_key(st, pnl[0][2], BV64).t)
    tl = tag[0][2] if str(tag[0][2]).startswith("|") else c.ex.read_key(st, tag[0][2], BV64).t
    want = "(bvadd (bvadd (bvadd (_ bv1 64) %s) %s) %s)" % (ln.t, pn_len, tl)
    has_pn = eq(c.inp("_2#discr", I64), bv(1))
    return and_(eq(c.ex.read_key(st, "_0", BV64).t, want), "true" if pnl else not_(has_pn))


Q(name="e2_predict_1rtt_overhead_remote_cid", props=["C16", "C13"], func=r"connection/mod\.rs:\d+:1: \d+:16>::predict_1rtt_overhead$",
  allowed_panics=r"attempt to compute", ignore_untranslatable=r"^$",
  functions=["Connection::predict_1rtt_overhead"], pre=lambda c: "true", post=p1o_post,
  bounds="every connection state, with or without a packet number: the predicted overhead of a 1-RTT packet is 1 (flags) + the length of the ACTIVE REMOTE connection ID (rem_cids.active(), the one short headers carry; its length is an arbitrary value) + the packet-number length (4 without a number) + the AEAD tag length; CidQueue::active, PacketNumber::{new,len} and tag_len_1rtt are opaque.  Datagrams::max_size, frame_space_1rtt and the datagram fit checks are computed from this value (e2_datagrams_max_size), so counting the locally issued CIDs' length instead reports a maximum that does not fit when the peer's CIDs are longer",
  replay=("conn_predict_overhead_native", lambda m: [dict(x=0)]))


# ------------------------------------------------------------------ C12: a packet the space forgets about leaves the in-flight accounting (PathData::sent)
def pdsf_post(c, p):
    st = p.p.state
    if p.p.outcome != "return":
        return "true"
    ins = [x for x in st.calls if re.search(r"InFlight::insert$", x[0])]
    sent = [x for x in st.calls if re.search(r"PacketSpace::sent$", x[0])]
    if len(ins) != 1 or len(sent) != 1 or st.calls.index(ins[0]) > st.calls.index(sent[0]):
        return "false"
    some = eq(c.ex.read_key(st, sent[0][2] + "#discr", I64).t, bv(1))
    removed = any(re.search(r"remove_in_flight$|InFlight::remove$", x[0]) for x in st.calls[st.calls.index(sent[0]) + 1:])
    return or_(not_(some), "true" if removed else "false")


Q(name="e2_pathdata_sent_forgotten_leaves_in_flight", props=["C12"], func=r"paths\.rs:\d+:1: \d+:14>::sent$",
  allowed_panics=r".", ignore_untranslatable=r".",
  functions=["PathData::sent"], pre=lambda c: "true", post=pdsf_post,
  bounds="every packet and every state of the path and of the packet-number space (PacketSpace::sent opaque, both outcomes): the packet sent is added to the in-flight counters exactly once, and whenever the space hands back a packet it will no longer track (the oldest of more than 1000 unacknowledged packets nobody is obliged to acknowledge) that packet is taken out of the in-flight counters unconditionally - nothing will ever acknowledge or lose it, so bytes in flight would never return to zero otherwise",
  replay=("path_sent_forgotten_native", lambda m: [dict(n=1100, size=108)]))


Q(name="e2_packet_space_sent_tail_counter", props=["C03", "C12"], func=r"spaces\.rs:\d+:1: \d+:17>::sent$",
  allowed_panics=r"unwrap_failed|attempt to compute", ignore_untranslatable=r"debug_assert|Transmute",
  functions=["PacketSpace::sent"], pre=lambda c: ule(c.inp("*_1.%d" % c.field("connection/spaces.rs", "PacketSpace", "unacked_non_ack_eliciting_tail"), BV64), bv(1 << 32)), post=pss_post,
  bounds="every packet (ack-eliciting or not) and every counter value: `unacked_non_ack_eliciting_tail` - the number of tracked packets nobody is obliged to acknowledge - is reset by an ack-eliciting packet, grows by one with a non-eliciting one, and stays the same when the oldest such packet is forgotten to make room (one out, one in), the forgetting being done on the packet map directly; SentPackets operations opaque",
  replay=("space_sent_tail_native", lambda m: [dict(n=1500)]))


# ------------------------------------------------------------------ C04 / C03: header protection is removed only from packets long enough to hold the sample (RFC 9001 5.4.2)
def dh_post(c, p):
    st = p.p.state
    if p.p.outcome != "return":
        return "true"
    dec = p.called(r"HeaderKey>::decrypt$")
    ss = p.called(r"HeaderKey>::sample_size$")
    if not dec:
        return eq(c.ex.read_key(st, "_0#discr", I64).t, bv(1))        # too short: an error, the key is never applied
    if len(dec) != 1 or len(ss) != 1 or dec[0][1][1][0] != "val":
        return "false"
    plen = c.inp("*_1.0.1", BV64)               # Cursor<BytesMut>.inner.len
    pos = c.inp("*_1.1", BV64)                  # Cursor.pos = offset of the packet number
    need = "(bvadd (bvadd ((_ zero_extend 8) %s) (_ bv4 72)) ((_ zero_extend 8) %s))" % (pos, ss[0][2])
    # the sample starts 4 bytes after the start of the packet number field and is sample_size bytes long
    return and_("(bvuge ((_ zero_extend 8) %s) %s)" % (plen, need), eq(dec[0][1][1][1].t, pos))


Q(name="e2_decrypt_header_sample_bounds", props=["C04", "C03"], func=r"packet\.rs:\d+:1: \d+:19>::decrypt_header$",
  allowed_panics=r"attempt to compute|index out of bounds|panic_bounds_check", pure=[r"HeaderKey>::sample_size$"],
  functions=["PartialDecode::decrypt_header"], pre=lambda c: and_(ule(c.inp("*_1.0.1", BV64), bv(1 << 32)), ule(c.inp("*_1.1", BV64), bv(1 << 32))), post=dh_post,
  bounds="every packet length and packet-number offset below 2^32, every sample size the header key reports: HeaderKey::decrypt is applied - at the packet-number offset - only to a packet that holds at least pn_offset + 4 + sample_size bytes (where the sample is taken from); anything shorter is an InvalidHeader error before the key sees it, so no truncated datagram can make the key's slicing panic",
  replay=("packet_truncated_prefixes_native", lambda m: [dict(sample=16), dict(sample=0), dict(sample=20)]))


# ------------------------------------------------------------------ C14: the reuse log's period index is exact also for lifetimes that are not whole seconds
def bp_post(c, p):
    st = p.p.state
    if p.p.outcome != "return":
        return "true"
    B128 = ("bv", 128, False)
    if (c.fn.ret or "").strip() == "u64":
        r = "((_ zero_extend 64) %s)" % c.ex.read_key(st, "_0", BV64).t       # whatever width the index is computed at
    else:
        r = c.ex.read_key(st, "_0", B128).t
    ns = lambda secs, nanos: "(bvadd (bvmul ((_ zero_extend 64) %s) (_ bv1000000000 128)) ((_ zero_extend 96) %s))" % (secs, nanos)
    D = ns(c.inp("_2.0", BV64), c.inp("_2.1.0", ("bv", 32, False)))
    L = ns(c.inp("*_1.0.0", BV64), c.inp("*_1.0.1.0", ("bv", 32, False)))
    k = lambda n: "(bvmul %s (_ bv%d 128))" % (L, n)
    cls = lambda x: (eq(x, "(_ bv0 128)"), eq(x, "(_ bv1 128)"), eq(x, "(_ bv2 128)"))
    c0, c1, c2 = cls(r)
    # which of the log's two filters (or a turnover) a token belongs to: floor(D / L) in {0, 1, 2, 3+}
    return and_(eq(c0, "(bvult %s %s)" % (D, L)), eq(c1, and_("(bvuge %s %s)" % (D, L), "(bvult %s %s)" % (D, k(2)))), eq(c2, and_("(bvuge %s %s)" % (D, k(2)), "(bvult %s %s)" % (D, k(3)))))


def bp_pre(c):
    half = lambda n: or_(eq(c.inp(n, ("bv", 32, False)), "(_ bv0 32)"), eq(c.inp(n, ("bv", 32, False)), "(_ bv500000000 32)"))
    lim = lambda s, n: and_("(bvult %s (_ bv256 64))" % c.inp(s, BV64), half(n))
    L_nonzero = or_(not_(eq(c.inp("*_1.0.0", BV64), bv(0))), not_(eq(c.inp("*_1.0.1.0", ("bv", 32, False)), "(_ bv0 32)")))
    return and_(lim("_2.0", "_2.1.0"), lim("*_1.0.0", "*_1.0.1.0"), L_nonzero)


Q(name="e2_bloom_period_index", props=["C14"], func=r"bloom_token_log\.rs:\d+:1: \d+:32>::check_and_insert::\{closure#0\}$",
  allowed_panics=r"attempt to divide", timeout=200,
  functions=["BloomTokenLog::check_and_insert::{closure#0} (Duration::as_nanos inlined)"], pre=bp_pre, post=bp_post,
  bounds="every time since the start of period 1 and every NON-ZERO token lifetime, both below 256 s at HALF-SECOND resolution (lifetimes of 2.5 s included; full nanosecond resolution leaves z3 with a 128-bit division by a symbolic divisor that it does not finish in 300 s): the period index the log computes is 0, 1, 2 or larger exactly when the token's expiry lies in the first, second, third or a later lifetime-long period - compared without division (D < L, L <= D < 2L, 2L <= D < 3L); a rounded index would look a replayed token up in the wrong filter",
  replay=("token_bloom_fractional_lifetime_native", lambda m: [dict(x=0)]))


# ------------------------------------------------------------------ C01: an empty STREAM frame leaves no trace in the set of received ranges (an empty range would later hide real duplicates)
def ai_post(c, p):
    st = p.p.state
    rp = p.called(r"RangeSet::replace$")
    if not rp:
        return "true"
    a = rp[0][1][1]
    if len(rp) != 1 or a[0] != "agg":
        return "false"
    snap = _Snap(st, rp[0][3]) if rp[0][3] is not None else st
    k = _k(a[1])
    lo, hi = c.ex.read_key(st if not k.startswith("*") else snap, k + ".0", BV64).t, c.ex.read_key(st if not k.startswith("*") else snap, k + ".1", BV64).t
    # Range<u64> handed to the set: the frame's extent, and never empty
    return and_("(bvult %s %s)" % (lo, hi), eq(lo, c.inp("_2", BV64)), eq(hi, "(bvadd %s %s)" % (c.inp("_2", BV64), c.inp("_3.1", BV64))))


Q(name="e2_assembler_insert_no_empty_range", props=["C01", "C03"], func=r"assembler\.rs:\d+:1: \d+:15>::insert$",
  allowed_panics=r".", check_stop=True, loop_is_stop=True, ignore_untranslatable=r".",
  functions=["Assembler::insert (up to the first iteration of its duplicate-trimming loop)"],
  pre=lambda c: and_(ule(c.inp("_2", BV64), bv(1 << 62)), ule(c.inp("_3.1", BV64), bv(1 << 32))), post=ai_post,
  bounds="every offset below 2^62 and chunk length below 2^32, every assembler state: the range recorded as received in unordered mode (RangeSet::replace) is exactly the chunk's extent offset..offset+len and is never empty - a zero-length STREAM frame, which a peer may send anywhere, must not enter the set, where an empty range makes later overlapping data look new and deliver bytes a second time; the set operations themselves are opaque",
  replay=("assembler_empty_frame_native", lambda m: [dict(x=0)]))


# ------------------------------------------------------------------ C08: a connection that is already draining does not report a second reason
def er_post(c, p):
    st = p.p.state
    if p.p.outcome not in ("stop", "return"):
        return "true"
    err_k = _conn(c, "error")
    sd = c.inp(_conn(c, "state") + "#discr", I64)
    E = c.ex.enums["State"].index if "State" in c.ex.enums else c.ex.enums["connection::State"].index
    draining = or_(eq(sd, bv(E("Draining"))), eq(sd, bv(E("Drained"))))
    # was `self.error` written on this path?
    written = c.ex.origin(st, err_k) != err_k or (err_k + "#discr") in st.store
    return not_(draining) if written else "true"


Q(name="e2_handle_packet_error_block_slice", props=["C08"], func=r"connection/mod\.rs:\d+:1: \d+:16>::handle_packet$",
  src="connection/mod.rs", within=r"^    fn handle_packet\(", start_line=[r"^        if let Err\(conn_err\) = result \{", r"(?#after)// State transitions for error cases"],
  end_line=[r"if !was_closed && self\.state\.is_closed\(\)"],
  allowed_panics=r".", check_stop=True, ignore_untranslatable=r"fmt::rt::Argument|Transmute",
  functions=["Connection::handle_packet (slice: the error-state transitions after a packet was processed)"], pre=lambda c: "true", post=er_post,
  bounds="the block that turns a packet-processing error into a state transition, from an ARBITRARY state: the reason handed to the application (`self.error`) is (re)assigned only if the connection was not already Draining or Drained - a draining connection has reported its peer's close, and a stateless reset or garbage arriving during the drain period must not produce a second ConnectionLost; a connection closed LOCALLY (state Closed, nothing reported yet) still learns of a reset, as the crate's own client_stateless_reset test expects",
  replay=("conn_second_reason_native", lambda m: [dict(x=0)]))


# ------------------------------------------------------------------ C12: base case for Bbr - a new controller already reports at least two datagrams
def bn_post(c, p):
    st = p.p.state
    if p.p.outcome != "return":
        return "true"
    F = lambda n: "_0.%d" % c.field("congestion/bbr/mod.rs", "Bbr", n)
    mtu = "((_ zero_extend 48) %s)" % c.inp("_2", ("bv", 16, False))
    cwnd = c.ex.read_key(st, F("cwnd"), BV64).t
    # Startup, not in recovery: window() is cwnd
    return and_("(bvuge %s (bvmul (_ bv2 64) %s))" % (cwnd, mtu), "(bvuge %s (bvmul (_ bv2 64) %s))" % (c.ex.read_key(st, F("init_cwnd"), BV64).t, mtu),
                eq(c.ex.read_key(st, F("recovery_state") + "#discr", I64).t, bv(c.ex.enums["RecoveryState"].index("NotInRecovery"))))


Q(name="e2_bbr_new_window_floor", props=["C12"], func=r"congestion/bbr/mod\.rs:\d+:1: \d+:9>::new$",
  allowed_panics=r".", ignore_untranslatable=r".", inline=[r"calculate_min_window$"],
  functions=["Bbr::new", "calculate_min_window"], pre=lambda c: "true", post=bn_post,
  bounds="every configured initial window and every initial MTU: a new Bbr controller is in Startup, not in recovery, and both cwnd (what window() reports then) and init_cwnd are at least two datagrams (in fact four: min_cwnd); the Kani base case covers NewReno and Cubic (Bbr::new trips an internal error of the Kani compiler)",
  replay=("bbr_new_window_native", lambda m: [dict(initial_window=0, mtu=1200), dict(initial_window=12000, mtu=9000)]))


# ------------------------------------------------------------------ C08: while a connection is Closed, every packet from the peer makes it repeat its CONNECTION_CLOSE (slice)
def hpr_post(c, p):
    st = p.p.state
    if p.p.outcome != "return":
        return "true"
    sd = c.ex.read_key(st, _conn(c, "state") + "#discr", I64).t
    E = c.ex.enums["State"].index if "State" in c.ex.enums else c.ex.enums["connection::State"].index
    closed = eq(sd, bv(E("Closed")))
    ck = _conn(c, "close")
    eqs = [x for x in p.called(r"SocketAddr as PartialEq>::eq$")]
    written = ck in st.store
    if not written:
        # the flag that makes poll_transmit (re)send the close was not touched: only right when the connection is not in Closed
        return not_(closed)
    if not eqs:
        return "false"
    return eq(c.ex.read_key(st, ck, BOOL).t, c.ex.read_key(st, eqs[-1][2], BOOL).t)


Q(name="e2_handle_packet_tail_repeats_close", props=["C08"], func=r"connection/mod\.rs:\d+:1: \d+:16>::handle_packet$",
  src="connection/mod.rs", within=r"^    fn handle_packet\(", start_line=[r"if !was_closed && self\.state\.is_closed\(\)", r"(?#before)^            self\.close_common\(\);"],
  inline=[r"State::is_closed$", r"State::is_drained$"], allowed_panics=r".",
  modifies=lambda c: {r"Connection::close_common$": ["*_1.%d" % c.field("connection/mod.rs", "Connection", "timers")], r"Connection::set_close_timer$": ["*_1.%d" % c.field("connection/mod.rs", "Connection", "timers")]},
  functions=["Connection::handle_packet (slice: from `if !was_closed && self.state.is_closed()` to the end)"], pre=lambda c: "true", post=hpr_post,
  bounds="the closing lines of handle_packet from an ARBITRARY state: whenever the connection is in state Closed when the function returns - whether this packet closed it or it was closed before - the flag that makes poll_transmit send CONNECTION_CLOSE is set to `this packet came from the current path's address`; so a peer that missed the first close and keeps sending is told again instead of being left to time out or to be reset",
  replay=("conn_close_repeated_native", lambda m: [dict(x=0)]))


# ------------------------------------------------------------------ C12: abandoning a packet space takes every one of its packets out of flight (one loop iteration)
def dsp_post(c, p):
    st = p.p.state
    if p.p.outcome != "stop" or "loop back-edge" not in str(p.p.detail):
        return "true"
    nx = p.called(r"as Iterator>::next$")
    rif = p.called(r"Connection::remove_in_flight$")
    if len(nx) != 1 or len(rif) != 1 or rif[0][1][1][0] != "ref":
        return "false"
    return "true" if c.ex.origin(st, _k(rif[0][1][1][1])) == nx[0][2] + "@Some.0" else "false"


Q(name="e2_discard_space_iteration", props=["C12"], func=r"connection/mod\.rs:\d+:1: \d+:16>::discard_space$",
  allowed_panics=r".", check_stop=True, loop_is_stop=True, ignore_untranslatable=r".",
  functions=["Connection::discard_space (one iteration of its loop over the abandoned packets)"], pre=lambda c: "true", post=dsp_post,
  bounds="every state: each packet the iterator over the abandoned space's sent packets yields - ack-eliciting or not (padded ACK-only packets count as in flight too) - is handed to remove_in_flight before the next one is looked at",
  replay=("conn_discard_space_native", lambda m: [dict(x=0)]))


# ------------------------------------------------------------------ C05: Streams::open hands out a stream only below the peer's stream-count limit
def so_post(c, p):
    st = p.p.state
    if p.p.outcome != "return":
        return "true"
    some = eq(c.ex.read_key(st, "_0#discr", I64).t, bv(1))
    S = "**_1.%d" % c.field("connection/streams/mod.rs", "Streams", "state")
    nxt, mx = S + ".%d" % _ss(c, "next"), S + ".%d" % _ss(c, "max")
    dirv = c.inp("_2#discr", I64)
    conj = []
    for d in (0, 1):
        n0, m0 = c.inp("%s[%d]" % (nxt, d), BV64), c.inp("%s[%d]" % (mx, d), BV64)
        conj.append(or_(not_(eq(dirv, bv(d))), not_(some), "(bvult %s %s)" % (n0, m0)))
    return and_(*conj)


Q(name="e2_streams_open_limit", props=["C05"], func=r"streams/mod\.rs:\d+:1: \d+:21>::open$",
  allowed_panics=r"attempt to compute", ignore_untranslatable=r".",
  functions=["Streams::open"], pre=lambda c: ule(c.inp("_2#discr", I64), bv(1)), post=so_post,
  bounds="every stream-count state, both directions: a stream id is handed out only while the number of streams opened so far in that direction is strictly below the peer's limit - in particular never with a limit of 0",
  replay=("streams_open_limit_native", lambda m: [dict(limit=0), dict(limit=1), dict(limit=3)]))


# ------------------------------------------------------------------ C08: the application's close code and reason travel only in 1-RTT packets (slice)
def cr_post(c, p):
    st = p.p.state
    if p.p.outcome != "stop":
        return "true"
    enc = p.called(r"frame::Close::encode(::<[^>]*>)?>?$")
    if not enc:
        return "true"
    sp = c.inp(c.fn.debug["space_id"][0] + "#discr", I64)
    tl = p.called(r"Close::is_transport_layer$")
    transport = c.ex.read_key(st, tl[0][2], BOOL).t if tl else "false"
    # the stored reason itself is put on the wire only in the Data space, or when it is a transport-level reason
    return or_(eq(sp, bv(c.ex.enums["SpaceId"].index("Data"))), transport)


Q(name="e2_poll_transmit_close_reason_slice", props=["C08"], func=r"connection/mod\.rs:\d+:1: \d+:16>::poll_transmit$",
  src="connection/mod.rs", within=r"^    pub fn poll_transmit\(", start_line=[r"if !self\.spaces\[space_id\]\.pending_acks\.ranges\(\)\.is_empty\(\) \{", r"(?#after)// have gotten any other ACK for the data earlier on\."],
  end_line=[r"if space_id == self\.highest_space \{"],
  allowed_panics=r".", check_stop=True, inline=[r"State::is_closed$"], ignore_untranslatable=r"fmt::rt::Argument",
  functions=["Connection::poll_transmit (slice: the CONNECTION_CLOSE branch)", "<SpaceId as PartialEq>::eq (as equality of discriminants)"], pre=lambda c: ule(c.inp(c.fn.debug["space_id"][0] + "#discr", I64), bv(2)), post=cr_post,
  bounds="the close branch from an ARBITRARY state, every packet-number space: the close reason stored in the connection state (which may be the APPLICATION's code and text) is encoded only into a 1-RTT packet, or when it is a transport-level reason; in Initial and Handshake packets an application close goes out as the generic APPLICATION_ERROR without text (RFC 9000 10.2.3), so nothing of the application leaks before the handshake is confirmed; promoted `&SpaceId::X` constants are resolved from the MIR dump",
  replay=("conn_close_reason_early_native", lambda m: [dict(x=0)]))


# ------------------------------------------------------------------ C06: MAX_STREAM_DATA cannot open streams beyond the limit we advertised
def _rmsd_fields(c):
    return "*_1.%d" % _ss(c, "next_remote"), "*_1.%d" % _ss(c, "max_remote")


def rmsd_pre(c):
    nr, mr = _rmsd_fields(c)
    return and_(ule(c.inp("*_1.%d#discr" % _ss(c, "side"), I64), bv(1)),
                *[ule(c.inp("%s[%d]" % (nr, d), BV64), c.inp("%s[%d]" % (mr, d), BV64)) for d in (0, 1)])


def rmsd_post(c, p):
    st = p.p.state
    if p.p.outcome != "return":
        return "true"
    nr, mr = _rmsd_fields(c)
    conj = [ule(c.ex.read_key(st, "%s[%d]" % (nr, d), BV64).t, c.ex.read_key(st, "%s[%d]" % (mr, d), BV64).t) for d in (0, 1)]
    conj += [eq(c.ex.read_key(st, "%s[%d]" % (mr, d), BV64).t, c.inp("%s[%d]" % (mr, d), BV64)) for d in (0, 1)]
    return and_(*conj)


Q(name="e2_received_max_stream_data_limit", props=["C06"], func=r"streams/state\.rs:\d+:1: \d+:18>::received_max_stream_data$",
  allowed_panics=r".", ignore_untranslatable=r".", inline=[r"StreamsState::on_stream_frame$", r"StreamsState::is_local_unopened$", r"StreamId::dir$", r"StreamId::initiator$", r"StreamId::index$"],
  functions=["StreamsState::received_max_stream_data", "StreamsState::on_stream_frame"], pre=rmsd_pre, post=rmsd_post,
  bounds="every stream id, every offset, every outcome of the stream-map lookup, from every state in which the number of peer-initiated streams counted as opened is within the advertised limit (both directions): it still is afterwards - a MAX_STREAM_DATA frame cannot make the receiver count streams as opened that the peer was never allowed to open (RFC 9000 4.6), and the limit itself is not touched",
  replay=("streams_max_stream_data_limit_native", lambda m: [dict(max_remote=0, index=0), dict(max_remote=3, index=3), dict(max_remote=3, index=1 << 40), dict(max_remote=3, index=2)]))


# ------------------------------------------------------------------ C17 / C01: a Retry forgets the 0-RTT packets - the control frames they carried are queued again (one loop iteration, slice)
def rqe_post(c, p):
    st = p.p.state
    if p.p.outcome != "stop":
        return "true"
    nx = p.called(r"as Iterator>::next$")
    rif = p.called(r"Connection::remove_in_flight$")
    bo = p.called(r"<Retransmits as BitOrAssign<ThinRetransmits>>::bitor_assign$")
    if "loop back-edge" not in str(p.p.detail):
        return "false" if (rif or bo) else "true"
    if len(nx) != 1 or len(rif) != 1 or len(bo) != 1:
        return "false"
    item = nx[0][2] + "@Some.0"
    if rif[0][1][1][0] != "ref" or c.ex.origin(st, _k(rif[0][1][1][1])) != item:
        return "false"
    # what is OR-ed into the queue is the retransmit set of THIS packet, and the queue is the Data space's
    retr_f, pend_f = c.field("connection/spaces.rs", "SentPacket", "retransmits"), c.field("connection/spaces.rs", "PacketSpace", "pending")
    a = bo[0][1]
    src_ok = a[1][0] in ("agg", "ref", "val") and c.ex.origin(st, _k(a[1][1])) == "%s.%d" % (item, retr_f)
    data = "'SpaceId', %d)" % c.ex.enums["SpaceId"].index("Data")
    idx = [x for x in p.called(r"IndexMut<SpaceId>>::index_mut$") if data in str(x[1][1])]
    dst_ok = a[0][0] == "ref" and any(str(_k(a[0][1])) == "*%s.%d" % (x[2], pend_f) for x in idx)
    return "true" if (src_ok and dst_ok) else "false"


Q(name="e2_retry_requeues_early_frames_slice", props=["C17", "C01"], func=r"connection/mod\.rs:\d+:1: \d+:16>::process_decrypted_packet$",
  src="connection/mod.rs", within=r"^    fn process_decrypted_packet\(", start_line=[r"let zero_rtt = mem::take\(", r"(?#before)^                for info in zero_rtt\.into_values\(\) \{"],
  end_line=[r"^                self\.streams\.retransmit_all_for_0rtt\(\);", r"(?#before)^                let token_len = packet\.payload\.len\(\) - 16;"],
  allowed_panics=r".", check_stop=True, loop_is_stop=True,
  functions=["Connection::process_decrypted_packet (slice: the loop over the 0-RTT packets forgotten when a Retry is followed, one iteration)"], pre=lambda c: "true", post=rqe_post,
  bounds="from an ARBITRARY state, one iteration of the loop: the packet taken from the Data space's record is removed from the in-flight accounting and the retransmittable control frames it carried (RESET_STREAM, STOP_SENDING, MAX_DATA, MAX_STREAM_DATA, ...) are OR-ed into the Data space's queue of frames to send; nothing else is OR-ed in",
  replay=("conn_retry_early_frames_native", lambda m: [dict(x=0)]))


# ------------------------------------------------------------------ C04: packets without packet protection (Retry, Version Negotiation) are looked at only by a handshaking client (slice)
def _conn_state_variant(name):
    # `State` is the name of two enums in quinn-proto; this is the connection's
    import e2 as _e2
    text = open(os.path.join(_e2.REPO, "quinn-proto", "src", "connection", "mod.rs")).read()
    m = re.search(r"^pub enum State \{(.*?)^\}", text, re.S | re.M)
    names = re.findall(r"^    (\w+)", m.group(1), re.M)
    return names.index(name)


def hpu_post(c, p):
    st = p.p.state
    calls = st.calls
    acted = [x for x in calls if re.search(r"process_decrypted_packet$|on_packet_authenticated$", x[0])]
    if not acted:
        return "true"
    out = []
    # judged where the packet is first acted upon (on_packet_authenticated, opaque here, would otherwise stand for
    # an arbitrary change of the connection between the two calls; that both see the same number is
    # e2_handle_packet_core_slice's business)
    for x in acted[:1]:
        num = x[1][3] if x[0].endswith("process_decrypted_packet") else x[1][4]
        if num[0] != "agg":
            return "false"
        snap = _Snap(st, x[3]) if x[3] is not None else st
        has_num = eq(c.ex.read_key(snap, _k(num[1]) + "#discr", I64).t, bv(1))
        client = eq(c.ex.read_key(snap, _conn(c, "side") + "#discr", I64).t, bv(c.ex.enums["ConnectionSide"].index("Client")))
        hs = eq(c.ex.read_key(snap, _conn(c, "state") + "#discr", I64).t, bv(_conn_state_variant("Handshake")))
        out.append(or_(has_num, and_(client, hs)))
    return and_(*out)


Q(name="e2_handle_packet_unprotected_slice", props=["C04"], func=r"connection/mod\.rs:\d+:1: \d+:16>::handle_packet$",
  src="connection/mod.rs", within=r"^    fn handle_packet\(", start_line=r"let decrypted = match packet \{", end_line=r"if let Err\(conn_err\) = result \{",
  inline=[r"is_some_and", r"handle_packet::\{closure#0\}", r"State::is_handshake$", r"State::is_closed$", r"ConnectionSide::is_client$", r"ConnectionSide::is_server$", r"ConnectionSide::side$", r"Side::is_client$", r"Side::is_server$"],
  check_stop=True, allowed_panics=r".", ignore_untranslatable=r"^loop at",
  functions=["Connection::handle_packet (slice: from `let decrypted = match packet` to the error-state transitions)"], pre=lambda c: "true", post=hpu_post,
  bounds="the middle of handle_packet, executed from an ARBITRARY state: a packet for which decrypt_packet reported no packet number - a Retry or a Version Negotiation packet, which carry no packet protection and can be forged by anyone who has seen a connection ID - is counted as authenticated (idle timer, ECN counters) or handed to process_decrypted_packet only if this is a client whose handshake is still in progress; an established, closing or server-side connection is not touched by it",
  replay=("conn_unprotected_packet_native", lambda m: [dict(mode=k) for k in range(5)]))


# ------------------------------------------------------------------ C07 / C15: only datagrams from the current path's own address raise its send budget
def hec_post(c, p):
    st = p.p.state
    calls = st.calls
    dec = [i for i, x in enumerate(calls) if re.search(r"Connection::handle_decode$", x[0])]
    if not dec:
        return "true"
    k = _conn_path_field(c, "total_recvd")
    eqs = [i for i, x in enumerate(calls) if i > dec[0] and re.search(r"SocketAddr as PartialEq>::(eq|ne)$", x[0])]
    co = [i for i, x in enumerate(calls) if i > dec[0] and re.search(r"Connection::handle_coalesced$", x[0])]
    end = _Snap(st, calls[co[0]][3]) if co else st
    after = c.ex.read_key(end, k, BV64).t
    # handle_decode is opaque: what it leaves in total_recvd is a fresh symbol; anything else means it was raised afterwards
    changed = not re.match(r"^\|[^|]*\|$", after)
    if not changed:
        return "true"
    if not eqs:
        return "false"
    e = calls[eqs[0]]
    return e[2] if e[0].endswith("eq") else not_(e[2])


Q(name="e2_handle_event_credits_own_path_only", props=["C07", "C15"], func=r"connection/mod\.rs:\d+:1: \d+:16>::handle_event$",
  pure=[r"PartialEq>::(eq|ne)", r"remote_may_migrate", r"anti_amplification_blocked", r"BytesMut::len", r"PartialDecode::len"],
  allowed_panics=r"attempt to compute", functions=["Connection::handle_event (Datagram arm)"],
  pre=he_pre, post=hec_post,
  bounds="every datagram event, every effect of handling its first packet (handle_decode opaque - it may or may not have migrated the connection): afterwards the source address is compared with the address of the path the connection is on NOW, and total_recvd of that path is raised only if they are equal; up to the point where coalesced packets are handed on",
  replay=("conn_foreign_datagram_credit_native", lambda m: [dict(mode=k) for k in (0, 1, 2, 5, 4)]))


# ------------------------------------------------------------------ C06: handshake data is buffered only within crypto_buffer_size of what TLS has consumed
def rcl_post(c, p):
    st = p.p.state
    ins = [x for x in st.calls if re.search(r"Assembler::insert$", x[0])]
    if not ins:
        return "true"
    br = [x for x in st.calls if re.search(r"Assembler::bytes_read$", x[0])]
    if not br:
        return "false"
    off = c.inp("*_3.%d" % c.field("frame.rs", "Crypto", "offset"), BV64)
    ln = c.inp("*_3.%d.1" % c.field("frame.rs", "Crypto", "data"), BV64)            # Bytes { ptr, len, data, vtable }
    size = c.inp("**_1.%d.0.2.%d" % (c.field("connection/mod.rs", "Connection", "config"), c.field("config/transport.rs", "TransportConfig", "crypto_buffer_size")), BV64)
    end = "(bvadd %s %s)" % (off, ln)
    read = br[-1][2]
    # everything the frame covers lies within `size` bytes of the read position (a frame wholly below it covers nothing new)
    return or_("(bvule %s %s)" % (end, read), "(bvule (bvsub %s %s) %s)" % (end, read, size))


Q(name="e2_read_crypto_buffer_limit", props=["C06", "C03"], func=r"connection/mod\.rs:\d+:1: \d+:16>::read_crypto$",
  pure=[r"Assembler::bytes_read$", r"Bytes::len$", r"Deref>::deref$"], allowed_panics=r".", ignore_untranslatable=r".",
  functions=["Connection::read_crypto (up to the insertion into the CRYPTO stream's assembler)"], pre=lambda c: ule(c.inp("_2#discr", I64), bv(2)), post=rcl_post,
  bounds="every CRYPTO frame (any offset, any length), every state: the frame is handed to the assembler only if its END lies within crypto_buffer_size bytes of what the TLS stack has consumed - a frame that starts inside the window and extends beyond it is refused like one that lies wholly outside; arithmetic overflow of offset + length is a (checked) panic path outside the claim; the read loop after the insertion is outside",
  replay=("conn_read_crypto_limit_native", lambda m: [dict(start_below=100, len=1200), dict(start_below=1, len=1), dict(start_below=0, len=0)]))


# ------------------------------------------------------------------ C15 / C04: the highest packet number received never goes backwards (slice)
def rxm_post(c, p):
    st = p.p.state
    if p.p.outcome != "stop":
        return "true"
    pk = [v for v in c.fn.debug.get("packet", []) if v != "_5"]
    # the reborrow of `space` through which this part of the function reads the old value (the slice starts after it was taken)
    m = re.search(r"\|in:\*(_\d+)\.%d\|" % c.field("connection/spaces.rs", "PacketSpace", "rx_packet"), " ".join(st.conds))
    if not pk or not m or m.group(1) not in c.fn.debug.get("space", []):
        return "false"
    rx = "*%s.%d" % (m.group(1), c.field("connection/spaces.rs", "PacketSpace", "rx_packet"))
    old, pn = c.inp(rx, BV64), c.inp(pk[0], BV64)
    new = c.ex.read_key(st, rx, BV64).t
    return eq(new, "(ite (bvuge %s %s) %s %s)" % (pn, old, pn, old))


Q(name="e2_on_packet_authenticated_rx_packet_slice", props=["C15", "C04"], func=r"connection/mod\.rs:\d+:1: \d+:16>::on_packet_authenticated$",
  src="connection/mod.rs", within=r"^    fn on_packet_authenticated\(", start_line=[r"^        if packet >= space\.rx_packet \{", r"(?#after)space\.pending_acks\.insert_one\(packet, now\);"],
  end_line=r"self\.config\.qlog_sink\.emit_packet_received\(",
  pure=[r"is_server", r"is_client"], check_stop=True, allowed_panics=r".",
  functions=["Connection::on_packet_authenticated (slice: the update of the highest received packet number)"], pre=lambda c: "true", post=rxm_post,
  bounds="from an ARBITRARY state of the packet space, every packet number: afterwards rx_packet is the larger of its old value and this packet's number - a reordered (older) packet never lowers it, so `number == rx_packet`, which the migration trigger reads as `this is the newest packet`, cannot be true for a late packet from an address the peer has left",
  replay=("conn_migration_trigger_native", lambda m: [dict(mode=1), dict(mode=4)]))


# ------------------------------------------------------------------ C06: memory held by a stream's reassembly buffer is bounded by the unread span, duplicates included (slice)
def _asm(c, n):
    return "*_1.%d" % c.field("connection/assembler.rs", "Assembler", n)


def abm_pre(c):
    # end >= bytes_read (representation invariant), sizes far from wrapping
    lim = bv(1 << 32)
    return and_(ule(c.inp(_asm(c, "bytes_read"), BV64), c.inp(_asm(c, "end"), BV64)), ult("(bvsub %s %s)" % (c.inp(_asm(c, "end"), BV64), c.inp(_asm(c, "bytes_read"), BV64)), lim),
                ult(c.inp(_asm(c, "allocated"), BV64), lim), ult(c.inp(_asm(c, "buffered"), BV64), lim))


def abm_post(c, p):
    st = p.p.state
    if p.p.outcome != "return":
        return "true"
    if p.called(r"Assembler::defragment$"):
        return "true"
    span = "(bvsub %s %s)" % (c.ex.read_key(st, _asm(c, "end"), BV64).t, c.ex.read_key(st, _asm(c, "bytes_read"), BV64).t)
    bound = "(bvadd (bvadd %s (bvadd %s (bvlshr %s %s))) %s)" % (span, span, span, bv(1), bv(32768))      # span + floor(1.5 span) + 32 KiB
    return "(bvule %s %s)" % (c.ex.read_key(st, _asm(c, "allocated"), BV64).t, bound)


Q(name="e2_assembler_insert_bounded_memory_slice", props=["C06", "C03"], func=r"assembler\.rs[^>]*>::insert$",
  src="connection/assembler.rs", within=r"^    pub\(super\) fn insert\(", start_line=[r"^        self\.data\.push\(buffer\);$", r"(?#after)^        self\.allocated \+= buffer\.allocation_size;$"],
  allowed_panics=r".", ignore_untranslatable=r".", timeout=300,
  functions=["Assembler::insert (slice: from the push of the new chunk to the end - the decision to defragment)"], pre=abm_pre, post=abm_post,
  bounds="from an ARBITRARY assembler state (end >= bytes_read; unread span, buffered and allocated below 2^32 - 4 GiB per stream), after a chunk has been added: unless defragment runs, the memory accounted to the buffer is at most 32 KiB + 2.5 x the unread span (end - bytes_read) - so retransmitting the same in-window range over and over, which costs the peer no flow-control credit, cannot make the receiver hold more than a constant factor of the window; what defragment itself achieves is assembler_defragment_step's business",
  replay=("assembler_duplicates_bounded_native", lambda m: [dict(rounds=3), dict(rounds=6)]))


# ------------------------------------------------------------------ C07 / C15: an off-path PATH_RESPONSE is sized from the packet that carried the challenge (slice)
def pcp_post(c, p):
    st = p.p.state
    if p.p.outcome != "stop":
        return "true"
    push = [x for x in st.calls if re.search(r"PathResponses::push$", x[0])]
    if len(push) != 1:
        return "false"
    a = push[0][1]
    got = a[4][1].t if (a[4][0] == "val" and isinstance(a[4][1], mir2smt_Val())) else None
    if got is None:
        return "false"
    plen = c.inp(c.fn.debug.get("payload_len", ["_10"])[0], BV64)
    hlen = c.inp("_5.%d.1" % c.field("packet.rs", "Packet", "header_data"), BV64)          # Bytes { ptr, len, data, vtable }
    # what is recorded as "received from that address" is at most the size of this packet
    return or_(not_(ult(hlen, V62)), "(bvule %s (bvadd %s %s))" % (got, hlen, plen))


def mir2smt_Val():
    import mir2smt
    return mir2smt.Val


Q(name="e2_path_challenge_records_packet_size_slice", props=["C07", "C15"], func=r"connection/mod\.rs:\d+:1: \d+:16>::process_payload$",
  src="connection/mod.rs", within=r"^    fn process_payload\(", start_line=[r"^                Frame::PathChallenge\(token\) => \{$", r"(?#before)^                    self\.path_responses"],
  end_line=[r"^                    if remote == self\.path\.remote \{$"],
  pure=[r"Bytes::len$", r"BytesMut::len$"], check_stop=True, allowed_panics=r".", ignore_untranslatable=r".",
  functions=["Connection::process_payload (slice: the PATH_CHALLENGE arm up to the recording of the response owed)"], pre=lambda c: ult(c.inp(c.fn.debug.get("payload_len", ["_10"])[0], BV64), V62), post=pcp_post,
  bounds="from an ARBITRARY state: the response owed for a PATH_CHALLENGE is recorded together with a byte count that is at most the size of the packet that carried the challenge (header + payload) - poll_transmit pads an off-path response only if three times that count reaches 1200 bytes (e2_off_path_response_slice), so a small probe from an unvalidated third address is not answered with a full-size datagram",
  replay=("conn_off_path_challenge_native", lambda m: [dict(n=1), dict(n=3)]))


# ================================================================== the `quinn` crate (async layer): MIR dumped from its own workspace, candidates replayed by tests over loopback sockets
_PROTO_ENUMS = {}


def _proto_enum(name):
    import e2 as _e2
    import mir2smt
    if _e2.REPO not in _PROTO_ENUMS:
        _PROTO_ENUMS[_e2.REPO] = mir2smt.scan_enums(os.path.join(_e2.REPO, "quinn-proto", "src"))
    return _PROTO_ENUMS[_e2.REPO][name]


# ------------------------------------------------------------------ C17: a stream handle from a rejected 0-RTT attempt never reaches the protocol state machine (its ID may belong to a fresh stream)
def q0g_post(c, p):
    st = p.p.state
    acted = [x for x in st.calls if re.search(r"quinn_proto::SendStream::\w+$", x[0])]
    if not acted:
        return "true"
    early = c.inp("*_1.%d" % c.field("send_stream.rs", "SendStream", "is_0rtt", crate="quinn"), BOOL)
    chk = [x for x in st.calls[:st.calls.index(acted[0])] if re.search(r"State::check_0rtt$", x[0])]
    if not chk:
        return not_(early)
    ok = eq(c.ex.read_key(st, chk[-1][2] + "#discr", I64).t, bv(0))
    return or_(not_(early), ok)


for _fn, _what in (("finish", "finishes"), ("set_priority", "changes the priority of"), ("priority", "reads the priority of"), ("reset", "resets")):
    Q(name="e2_quinn_sendstream_%s_0rtt_guard" % _fn, props=["C17"], crate="quinn", func=r"send_stream\.rs:\d+:1: \d+:16>::%s$" % _fn,
      allowed_panics=r".", ignore_untranslatable=r".",
      functions=["quinn::SendStream::%s" % _fn], pre=lambda c: "true", post=q0g_post,
      bounds="every state of the handle and of the connection: quinn::SendStream::%s reaches the protocol state machine (quinn_proto::SendStream) only if the handle was not created during 0-RTT, or check_0rtt was asked first and did not report a rejection - after a rejection stream numbering restarts, so the handle's ID may belong to a fresh stream, which a stale handle must not be able to touch (it %s it otherwise)" % (_fn, _what),
      replay=("quinn-test:stale_early_handle_does_not_touch_fresh_stream", lambda m: [dict()]))


def q0g_recv_post(c, p):
    st = p.p.state
    acted = [x for x in st.calls if re.search(r"quinn_proto::(RecvStream|SendStream)::\w+$", x[0])]
    if not acted:
        return "true"
    fname = "recv_stream.rs" if "recv_stream" in c.fn.name else "send_stream.rs"
    sname = "RecvStream" if "recv_stream" in c.fn.name else "SendStream"
    early = c.inp("*_1.%d" % c.field(fname, sname, "is_0rtt", crate="quinn"), BOOL)
    chk = [x for x in st.calls[:st.calls.index(acted[0])] if re.search(r"State::check_0rtt$", x[0])]
    if not chk:
        return not_(early)
    ok = eq(c.ex.read_key(st, chk[-1][2] + "#discr", I64).t, bv(0))
    return or_(not_(early), ok)


for _nm, _func, _title, _what in (
        ("recvstream_stop", r"recv_stream\.rs:\d+:1: \d+:16>::stop$", "quinn::RecvStream::stop", "stops it, discarding what the peer sends on it, otherwise"),
        ("recvstream_drop", r"recv_stream\.rs:\d+:1: \d+:25>::drop$", "<quinn::RecvStream as Drop>::drop", "stops it otherwise"),
        ("sendstream_drop", r"send_stream\.rs:\d+:1: \d+:25>::drop$", "<quinn::SendStream as Drop>::drop", "finishes or resets it otherwise")):
    Q(name="e2_quinn_%s_0rtt_guard" % _nm, props=["C17"], crate="quinn", func=_func,
      allowed_panics=r".", ignore_untranslatable=r".",
      functions=[_title], pre=lambda c: "true", post=q0g_recv_post,
      bounds="every state of the handle and of the connection: %s reaches the protocol state machine (quinn_proto::RecvStream / SendStream) only if the handle was not created during 0-RTT, or check_0rtt was asked first and did not report a rejection - after a rejection stream numbering restarts, so the handle's ID may belong to a fresh stream, which a stale handle must not be able to touch (it %s)" % (_title, _what),
      replay=("quinn-test:stale_early_bi_handles_do_not_touch_fresh_stream", lambda m: [dict()]))


def q0g_stopped_post(c, p):
    st = p.p.state
    acted = [x for x in st.calls if re.search(r"quinn_proto::SendStream::\w+$", x[0])]
    if not acted:
        return "true"
    early = c.inp("_3", BOOL)
    chk = [x for x in st.calls[:st.calls.index(acted[0])] if re.search(r"State::check_0rtt$", x[0])]
    if not chk:
        return not_(early)
    ok = eq(c.ex.read_key(st, chk[-1][2] + "#discr", I64).t, bv(0))
    return or_(not_(early), ok)


Q(name="e2_quinn_send_stream_stopped_0rtt_guard", props=["C17"], crate="quinn", func=r"^send_stream_stopped$",
  allowed_panics=r".", ignore_untranslatable=r".",
  functions=["quinn::send_stream::send_stream_stopped (the body of SendStream::stopped / Stopped::poll)"], pre=lambda c: "true", post=q0g_stopped_post,
  bounds="every state of the connection, both values of the handle's is_0rtt flag: the helper behind SendStream::stopped asks the protocol state machine about the stream only if the handle was not created during 0-RTT, or check_0rtt was asked first and did not report a rejection - a stale handle reports the fresh stream's STOP_SENDING state otherwise",
  replay=("quinn-test:stale_early_bi_handles_do_not_touch_fresh_stream", lambda m: [dict()]))


def q0g_exec_post(c, p):
    st = p.p.state
    acted = [x for x in st.calls if re.search(r"quinn_proto::Connection::send_stream$|call_once", x[0])]
    if not acted:
        return "true"
    early = c.inp("*_1.%d" % c.field("send_stream.rs", "SendStream", "is_0rtt", crate="quinn"), BOOL)
    chk = [x for x in st.calls[:st.calls.index(acted[0])] if re.search(r"State::check_0rtt$", x[0])]
    if not chk:
        return not_(early)
    ok = eq(c.ex.read_key(st, chk[-1][2] + "#discr", I64).t, bv(0))
    return or_(not_(early), ok)


Q(name="e2_quinn_execute_poll_0rtt_guard", props=["C17"], crate="quinn", func=r"send_stream\.rs:\d+:1: \d+:16>::execute_poll$",
  allowed_panics=r".", ignore_untranslatable=r".", inline=[r"execute_poll::\{closure#0\}$", r"Result::<.*map_err", r"map_err"],
  functions=["quinn::SendStream::execute_poll (generic over the write closure: the body of write, write_chunk, write_chunks and their poll_ forms)"], pre=lambda c: "true", post=q0g_exec_post,
  bounds="every state of the handle and of the connection, the write closure opaque: the write path looks the stream up in the protocol state machine and runs the write closure only if the handle was not created during 0-RTT, or check_0rtt was asked first and did not report a rejection - a stale handle writes into the fresh stream that reuses its ID otherwise",
  replay=("quinn-test:stale_early_handle_does_not_touch_fresh_stream", lambda m: [dict()]))


# ------------------------------------------------------------------ C11: every stream event wakes the parties that wait for it (one iteration of the event loop)
def qfe_post(c, p):
    st = p.p.state
    if p.p.outcome != "stop" or "loop back-edge" not in str(p.p.detail):
        return "true"
    polls = [x for x in st.calls if re.search(r"quinn_proto::Connection::poll$", x[0])]
    if len(polls) != 1:
        return "false"
    ev = polls[0][2] + "@Some.0"
    EV, SE = _proto_enum("Event"), _proto_enum("StreamEvent")
    is_stream = eq(c.ex.read_key(st, ev + "#discr", I64).t, bv(EV.index("Stream")))
    sdis = c.ex.read_key(st, ev + "@Stream.0#discr", I64).t
    F = lambda n: c.field("connection.rs", "State", n, crate="quinn")
    def woken(fn_re, field):
        return any(re.search(fn_re, x[0]) and x[1][1][0] == "ref" and str(_k(x[1][1][1])) == "*_1.%d" % F(field) for x in st.calls)
    w_writers, w_readers, w_stopped = woken(r"^wake_stream$|::wake_stream$", "blocked_writers"), woken(r"^wake_stream$|::wake_stream$", "blocked_readers"), woken(r"wake_stream_notify$", "stopped")
    need = {"Writable": w_writers, "Readable": w_readers, "Finished": w_stopped, "Stopped": w_writers and w_stopped}
    out = []
    for name, ok in need.items():
        out.append(or_(not_(is_stream), not_(eq(sdis, bv(SE.index(name)))), "true" if ok else "false"))
    return and_(*out)


Q(name="e2_quinn_forward_app_events_wakeups", props=["C11"], crate="quinn", func=r"connection\.rs:\d+:1: \d+:11>::forward_app_events$",
  allowed_panics=r".", check_stop=True, loop_is_stop=True, ignore_untranslatable=r".",
  functions=["quinn::connection::State::forward_app_events (one iteration of its loop over the protocol events)"], pre=lambda c: "true", post=qfe_post,
  bounds="one iteration of the loop from an arbitrary state, every event the protocol layer can report: Writable wakes the writer blocked on that stream, Readable the reader, Finished those waiting in stopped(), and Stopped BOTH those waiting in stopped() and a writer blocked on the stream - no credit will ever arrive for it, the STOP_SENDING is the only thing that can end its wait",
  replay=("quinn-test:stopped_wakes_blocked_writer", lambda m: [dict()]))


# ------------------------------------------------------------------ C11: a reset reported by a read is remembered by the handle (received_reset agrees with it afterwards)
def qrr_post(c, p):
    st = p.p.state
    if p.p.outcome != "return":
        return "true"
    rf = [x for x in st.calls if re.search(r"call_mut$", x[0])]
    if len(rf) != 1:
        return "true"             # the read function was not asked: nothing new was learnt in this call
    k = rf[0][2]
    RS = c.ex.enums["ReadStatus"]
    PRE = _proto_enum("ReadError")
    failed = eq(c.ex.read_key(st, k + "#discr", I64).t, bv(RS.index("Failed")))
    is_reset = eq(c.ex.read_key(st, k + "@Failed.1#discr", I64).t, bv(PRE.index("Reset")))
    code = c.ex.read_key(st, k + "@Failed.1@Reset.0.0", BV64).t
    f = "*_1.%d" % c.field("recv_stream.rs", "RecvStream", "reset", crate="quinn")
    kept = and_(eq(c.ex.read_key(st, f + "#discr", I64).t, bv(1)), eq(c.ex.read_key(st, f + "@Some.0.0", BV64).t, code))
    return or_(not_(and_(failed, is_reset)), kept)


Q(name="e2_quinn_read_reset_remembered", props=["C11"], crate="quinn", func=r"recv_stream\.rs:\d+:1: \d+:16>::poll_read_generic$",
  allowed_panics=r".", ignore_untranslatable=r".",
  functions=["quinn::RecvStream::poll_read_generic (generic over the read function; the MIR before monomorphisation)"], pre=lambda c: "true", post=qrr_post,
  bounds="every state of the handle, every status the read function can report: whenever it reports that the stream was reset (with or without data read in the same call), the handle has recorded Some(code) when the call returns - the protocol layer frees the stream once the reset was read, so the handle is the only place that still knows how the receiving half ended, and RecvStream::received_reset answers from it",
  replay=("quinn-test:reset_seen_by_read_is_remembered", lambda m: [dict()]))


# ------------------------------------------------------------------ C19: every byte of a coalesced receive buffer is handed on as a datagram (the splitting loop ends only on an empty buffer)
def qps_post(c, p):
    st = p.p.state
    if p.p.outcome == "return":
        return "true"
    sp = [x for x in st.calls if re.search(r"BytesMut::split_to$", x[0])]
    if not sp:
        return "false"
    if any(re.search(r"quinn_proto::Endpoint::handle$", x[0]) for x in st.calls):
        return "true"             # a datagram was split off and handed on; the loop goes round again
    # the loop was left without handing anything on: nothing is left of this receive buffer
    ln = c.ex.read_key(st, "%s.%d" % (sp[0][2], 1), BV64).t        # BytesMut { ptr, len, cap, data }
    return eq(ln, bv(0))


Q(name="e2_quinn_poll_socket_split_loop", props=["C19"], crate="quinn", func=r"endpoint\.rs:\d+:1: \d+:15>::poll_socket$",
  src="endpoint.rs", within=r"^    fn poll_socket\(", start_line=r"let mut data = self\.datagrams\.split_to\(meta\.len\);",
  allowed_panics=r".", check_stop=True, loop_is_stop=True, ignore_untranslatable=r".",
  functions=["quinn::endpoint::RecvState::poll_socket (slice: from the point where one receive buffer is taken, one pass of the loop that splits it into datagrams)"], pre=lambda c: "true", post=qps_post,
  bounds="from the statement that takes one receive buffer (arbitrary contents, length and stride) to the next loop back-edge: either a datagram is split off and handed to Endpoint::handle, or the splitting loop is left - and then the buffer's length is 0, so a last datagram shorter than the stride is not dropped; bytes::BytesMut is opaque apart from its length field",
  replay=("quinn-test:split::every_datagram_of_a_coalesced_buffer_is_delivered", lambda m: [dict()]))
